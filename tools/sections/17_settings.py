"""C17 — settings acceptance.  Regenerated from /repo on every run.

Everything below is read off a SYMBOLIC EXECUTION of the source (tools/optflow.py: names resolved through assignments /
constants / imports, helper calls followed, every call / raise / store with its path condition), not off statement shapes or
variable names — so renamed locals and private methods, code moved into helpers, swapped branches, early returns, De Morgan,
hoisted constants, loops over a literal table … leave the facts unchanged, while a really different behaviour changes them:

* the typed value universe and the guard language (fixed text; the model `ReplicatModel/Settings.lean` builds on them);
* `adapterTable` — one row per class registered in `adapters._adapters` (name, abstract bases reached through the class
  hierarchy, keyword-only constructor parameters with their defaults, class-level integer constants, and the guards of
  `__init__`: every `raise` the constructor (or a helper it calls) can reach, with the condition under which it is reached —
  minus "the earlier guards did not fire" — translated into the guard language in ONE normal form: negations pushed inwards,
  literal on the right, the earlier-declared parameter on the left, two bounds on one operand = `.chain`, "outside an interval"
  = `.neg (.chain …)`);
* the two settings schemas (the dicts `key → type(s)` a validator hands to a method of `self` together with the object they
  apply to, wherever those dicts are written), that the nested init schema is applied exactly when `settings['encryption']`
  is not None, and the `DEFAULT_*_NAME` constants;
* `initStages` — the order in which `Repository.init` validates, builds the config, instantiates adapters, checks the
  password, makes the key, encrypts its private part and UPLOADS the config.  The private methods are identified by the ROLE
  they play in the data flow of `init` (see `InitRun`), the upload by the call that reaches `self.backend.upload|…`, "inside
  `if props.encrypted`" by the path condition;
* `kindChecks` — `_make_config` raises exactly when `issubclass(<type from adapters.from_config(**<section S>)>, adapters.<B>)`
  is false → (S, B);
* `addKeyUploads` — whether add_key (helpers followed) reaches a mutating backend call;
* `keyWriteInit`, `keyWriteAddKey` — how the calls that happen exactly when a key output path is given open the key file
  (truncating / via rename / in place / appending / exclusive), and `keyWriteAfterChecks` — they come after the last step
  that can refuse the settings.

Anything not recognised raises → the tables become `opaque` and `settingsRecognised := false`, so every dependent definition
in Settings.lean stops compiling (reported as a broken obligation, never assumed).
"""
import ast
import json
import sys
from fractions import Fraction
from pathlib import Path

sys.path.insert(0, str(Path(__file__).resolve().parent.parent))
import optflow as F  # noqa: E402 — tools/optflow.py: symbolic execution of the source under test

PRELUDE = r'''
/-- typed value universe of a settings entry (what JSON / TOML / `ast.literal_eval` of a CLI flag can produce, minus containers) -/
inductive Val where
  | int (i : Int)
  | bool (b : Bool)
  | float (q : Rat)      -- a finite float, with its exact value
  | nan
  | str (s : String)
  | none
  deriving DecidableEq, Repr, Inhabited

inductive CmpOp where | lt | le | gt | ge | eq | ne
  deriving DecidableEq, Repr

inductive GTerm where
  | param (p : String)
  | lit (i : Int)
  | add (a : GTerm) (k : Int)      -- `a + k` / `a - k` with an integer literal
  deriving DecidableEq, Repr

/-- conditions of the `if <cond>: raise` statements at the head of an adapter constructor -/
inductive GCond where
  | cmp (op : CmpOp) (a b : GTerm)
  | chain (a : GTerm) (op1 : CmpOp) (b : GTerm) (op2 : CmpOp) (c : GTerm)
  | isIn (a : GTerm) (vals : List Int)
  | notIn (a : GTerm) (vals : List Int)
  | isInt (a : GTerm)
  | neg (c : GCond)
  | conj (c d : GCond)
  | disj (c d : GCond)
  deriving DecidableEq, Repr

structure Guard where
  cond : GCond
  raises : String
  deriving DecidableEq, Repr

structure AdapterRow where
  name : String
  kinds : List String
  params : List (String × Option Val)
  consts : List (String × Int)
  guards : List Guard
  deriving Repr

/-- statements of `Repository.init`, in source order; the flag says "inside `if props.encrypted:`" -/
inductive InitStage where
  | validate | makeConfig | instantiateConfig | passwordCheck | makeKey | instantiateKey | encryptPrivate | uploadConfig
  deriving DecidableEq, Repr

/-- how the statement that writes the key file (`init`, `_add_key`: `-o / --key-output-file`) opens its output path -/
inductive WriteMode where
  | truncate      -- `Path.write_bytes`, `open(path, 'wb')`, `os.open(… | O_TRUNC)`: earlier content is discarded
  | replace       -- written to a temporary file which is then renamed onto the path
  | inPlace       -- opened for writing without truncation: bytes beyond the new data survive
  | append        -- `'ab'` / `O_APPEND`
  | exclusive     -- `'xb'` / `O_EXCL`: an existing file is refused
  deriving DecidableEq, Repr, Inhabited
'''

ABSTRACT = {'CipherAdapter', 'KDFAdapter', 'MACAdapter', 'HashAdapter', 'ChunkerAdapter'}
CMP = {ast.Lt: 'lt', ast.LtE: 'le', ast.Gt: 'gt', ast.GtE: 'ge', ast.Eq: 'eq', ast.NotEq: 'ne'}


class NotRecognised(Exception):
    pass


def lean_str(s):
    return json.dumps(s, ensure_ascii=False)


def lean_int(i):
    return f'({i})' if i < 0 else str(i)


def lean_val(v):
    if isinstance(v, bool):
        return f'.bool {"true" if v else "false"}'
    if isinstance(v, int):
        return f'.int {lean_int(v)}'
    if isinstance(v, float):
        if v != v:
            return '.nan'
        fr = Fraction(v)
        return f'.float (({fr.numerator} : Rat) / {fr.denominator})'
    if isinstance(v, str):
        return f'.str {lean_str(v)}'
    if v is None:
        return '.none'
    raise NotRecognised(f'default value {v!r}')


def const_eval(node, env):
    """integer / literal constant expressions (`1 << 20`, `MIN_LENGTH`, `128_000`)"""
    code = compile(ast.Expression(body=node), '<default>', 'eval')
    try:
        return eval(code, {'__builtins__': {}}, dict(env))  # noqa: S307 — constants of the repo under test only
    except Exception as e:  # noqa: BLE001
        raise NotRecognised(f'cannot evaluate {ast.unparse(node)}: {e!r}')


# ------------------------------------------------------------------ guards: path conditions of the raises of a constructor
FLIP = {'lt': 'ge', 'le': 'gt', 'gt': 'le', 'ge': 'lt', 'eq': 'ne', 'ne': 'eq'}
MIRROR = {'lt': 'gt', 'le': 'ge', 'gt': 'lt', 'ge': 'le', 'eq': 'eq', 'ne': 'ne'}
OPN = {'<': 'lt', '<=': 'le', '>': 'gt', '>=': 'ge', '==': 'eq', '!=': 'ne'}


def gterm(t, params):
    if t.op == 'p' and t.a[0] in params:
        return f'.param {lean_str(t.a[0])}'
    if t.op == 'bin' and t.a[0] in ('+', '-') and F.is_k(t.a[2]) and type(t.a[2].a[0]) is int:
        k = t.a[2].a[0]
        return f'.add ({gterm(t.a[1], params)}) {lean_int(k if t.a[0] == "+" else -k)}'
    if F.is_k(t) and type(t.a[0]) is int:
        return f'.lit {lean_int(t.a[0])}'
    raise NotRecognised(f'guard operand {F.show(t)}')


def _is_lit(t):
    return F.is_k(t) and type(t.a[0]) is int


def _cmp_parts(t, params):
    """a comparison term → (op name, left, right) in the canonical orientation: a literal on the right; of two parameters the
    one declared first on the left (`1 > n` ≡ `n < 1`, `max < min` ≡ `min > max`)"""
    if t.op != 'cmp' or t.a[0] not in OPN:
        return None
    op, a, b = OPN[t.a[0]], t.a[1], t.a[2]
    swap = False
    if _is_lit(a) and not _is_lit(b):
        swap = True
    elif a.op == 'p' and b.op == 'p' and a.a[0] in params and b.a[0] in params and params.index(a.a[0]) > params.index(b.a[0]):
        swap = True
    if swap:
        op, a, b = MIRROR[op], b, a
    return op, a, b


def _chain_of(parts, params):
    """`lo <= x <= hi` however it is spelled (`16 <= n <= 64`, `n >= 16 and n <= 64`, `64 >= n and 16 <= n`) → chain text"""
    if len(parts) != 2 or any(p.op != 'cmp' or p.a[0] not in ('<', '<=', '>', '>=') for p in parts):
        return None
    # as written with a shared middle operand (Python's chained comparison)
    (o1, a1, b1), (o2, a2, b2) = [(OPN[p.a[0]], p.a[1], p.a[2]) for p in parts]
    if b1 is a2 and not (_is_lit(b1)):
        return f'.chain ({gterm(a1, params)}) .{o1} ({gterm(b1, params)}) .{o2} ({gterm(b2, params)})'
    # two bounds on the same operand
    lows, highs = [], []
    for p in parts:
        op, x, lim = _cmp_parts(p, params)
        if op in ('ge', 'gt'):
            lows.append((x, 'le' if op == 'ge' else 'lt', lim))
        elif op in ('le', 'lt'):
            highs.append((x, op, lim))
    if len(lows) == 1 and len(highs) == 1 and lows[0][0] is highs[0][0]:
        return f'.chain ({gterm(lows[0][2], params)}) .{lows[0][1]} ({gterm(lows[0][0], params)}) .{highs[0][1]} ({gterm(highs[0][2], params)})'
    return None


def _nest(ctor, parts):
    out = parts[-1]
    for p in reversed(parts[:-1]):
        out = f'{ctor} ({p}) ({out})'
    return out


def _nnf(t, neg=False):
    """negation normal form: ('and'|'or', [children]) / ('lit', term, negated) — flattened"""
    if t.op == 'not':
        return _nnf(t.a[0], not neg)
    if t.op in ('and', 'or'):
        kind = t.op if not neg else ('or' if t.op == 'and' else 'and')
        kids = []
        for p in t.a[0]:
            k = _nnf(p, neg)
            if k[0] == kind:
                kids.extend(k[1])
            else:
                kids.append(k)
        return (kind, kids)
    return ('lit', t, neg)


def _as_cmp(lit):
    """a literal that is an ordering comparison, with its negation absorbed → cmp term, else None"""
    _, t, neg = lit
    if t.op != 'cmp' or t.a[0] not in ('<', '<=', '>', '>='):
        return None
    op = t.a[0] if not neg else {'<': '>=', '<=': '>', '>': '<=', '>=': '<'}[t.a[0]]
    return F.mk('cmp', op, t.a[1], t.a[2])


def gcond(t, params):
    """condition term → GCond text.  Negations are pushed through and/or (De Morgan) and into comparisons / memberships;
    two bounds on one operand become the interval test `.chain lo ≤ x ≤ hi`, and `x < lo or x > hi` its negation — so
    `not 16 <= n <= 64`, `n < 16 or n > 64` and `not (n >= 16 and n <= 64)` are one and the same guard."""
    return _emit(_nnf(t), params)


def _emit(n, params):
    if n[0] == 'lit':
        return _emit_lit(n[1], n[2], params)
    kind, kids = n
    out = []
    used = set()
    for i, k in enumerate(kids):
        if i in used:
            continue
        done = False
        if k[0] == 'lit':
            ci = _as_cmp(k) if kind == 'and' else (_as_cmp(('lit', k[1], not k[2])) if k[1].op == 'cmp' else None)
            if ci is not None:
                for j in range(i + 1, len(kids)):
                    if j in used or kids[j][0] != 'lit':
                        continue
                    cj = _as_cmp(kids[j]) if kind == 'and' else (_as_cmp(('lit', kids[j][1], not kids[j][2])) if kids[j][1].op == 'cmp' else None)
                    if cj is None:
                        continue
                    ch = _chain_of([ci, cj], params)
                    if ch is not None:
                        out.append(ch if kind == 'and' else f'.neg ({ch})')
                        used.add(j)
                        done = True
                        break
        if not done:
            out.append(_emit(k, params))
    return _nest('.conj' if kind == 'and' else '.disj', out)


def _emit_lit(t, neg, params):
    if t.op == 'call' and F.callee_name(t.a[0]) == 'isinstance' and len(t.a[1]) == 2 and F.callee_name(t.a[1][1]) == 'int' and not t.a[2]:
        c = f'.isInt ({gterm(t.a[1][0], params)})'
        return f'.neg ({c})' if neg else c
    if t.op == 'cmp' and t.a[0] in ('in', 'notin'):
        vals = F.kval(t.a[2])
        if not isinstance(vals, (tuple, frozenset)) or not all(type(x) is int for x in vals):
            raise NotRecognised(f'membership set {F.show(t.a[2])}')
        if isinstance(vals, frozenset):
            vals = sorted(vals)
        lst = '[' + ', '.join(lean_int(x) for x in vals) + ']'
        is_in = (t.a[0] == 'in') != neg
        return f'{".isIn" if is_in else ".notIn"} ({gterm(t.a[1], params)}) {lst}'
    cp = _cmp_parts(t, params)
    if cp is not None:
        op, a, b = cp
        if neg:
            op = FLIP[op]
        return f'.cmp .{op} ({gterm(a, params)}) ({gterm(b, params)})'
    raise NotRecognised(f'guard condition {F.show(t)}')


def constructor_guards(repo, cls, init, pnames):
    """the raises of `__init__` (helpers followed) as `if <cond>: raise <E>` guards in evaluation order.  The condition of a
    raise is its path condition minus what merely says "the earlier guards did not fire"."""
    ex = F.Exec(repo)
    ex.run(init, self_term=F.mk('self', cls))
    guards = []
    for ev in ex.events:
        if ev.kind == 'unknown-stmt':
            raise NotRecognised(f'{cls.name}.__init__: statement not understood')
        if ev.kind == 'raise' and any(c[0] in ('loop', 'try', 'handler', 'else', 'finally', 'comp', 'cb') for c in ev.ctx):
            raise NotRecognised(f'{cls.name}.__init__: raise outside a leading guard')
    for ev, own in F.own_conditions([e for e in ex.events if e.kind == 'raise']):
        if not own:
            raise NotRecognised(f'{cls.name}.__init__: unconditional raise')
        exc = ev.value
        nm = F.callee_name(exc.a[0]) if exc.op == 'call' else F.callee_name(exc)
        if nm is None:
            raise NotRecognised(f'{cls.name}.__init__: raises {F.show(exc)[:60]}')
        if nm.startswith('replicat.'):
            nm = '.'.join(nm.split('.')[-2:])
        guards.append((gcond(F.AND(own), pnames), nm))
    return guards


def adapter_rows(ctx, repo):
    mod = repo.module('replicat.utils.adapters')
    if mod is None:
        raise NotRecognised('replicat/utils/adapters.py')
    listed_t = mod.lookup('_adapters')
    seq = listed_t.a[1] if listed_t is not None and listed_t.op == 'gv' else None
    items = None
    if seq is not None and seq.op in ('list', 'tuple'):
        items = seq.a[0]
    if not items or any(x.op != 'cls' or x.a[0].module is not mod for x in items):
        raise NotRecognised('_adapters list')
    listed = [x.a[0] for x in items]
    # the registry: adapter name → class, for exactly the listed classes
    mp = mod.lookup('_adapters_mapping')
    comp = mp.a[1] if mp is not None and mp.op == 'gv' else None
    ok = False
    if comp is not None and comp.op == 'comp' and len(comp.a[2]) == 1:
        kind, vals, gens = comp.a[0], comp.a[1], comp.a[2]
        it, el, conds = gens[0]
        over = it is listed_t or it is seq
        if kind == 'dict' and over and not conds and vals[0] is F.mk('attr', el, '__name__') and vals[1] is el:
            ok = True
    if not ok:
        raise NotRecognised('_adapters_mapping is not {a.__name__: a for a in _adapters}')
    rows = []
    for cls in listed:
        name = cls.name
        chain = cls.mro()
        kinds = [c.name for c in chain if c.name in ABSTRACT]
        env = {}
        for c in reversed(chain):
            env.update(class_consts(c.node))
        init = cls.find_method('__init__')
        params, guards = [], []
        if init is not None:
            a = init.node.args
            if a.vararg or a.kwarg or a.posonlyargs or len(a.args) != 1:
                raise NotRecognised(f'{name}.__init__ signature')
            for arg, d in zip(a.kwonlyargs, a.kw_defaults):
                if d is None:
                    params.append((arg.arg, None))
                else:
                    dv = init.module.resolve_expr(d, cls=init.cls)
                    if not F.is_k(dv):
                        raise NotRecognised(f'default of {name}.{arg.arg}: {ast.unparse(d)}')
                    params.append((arg.arg, ('some', dv.a[0])))
            pnames = [p for p, _ in params]
            guards = constructor_guards(repo, cls, init, pnames)
            ctx.fp(f'adapters.{name}.__init__', init.node)
        consts = [(k, v) for k, v in env.items() if isinstance(v, int) and not isinstance(v, bool)]
        rows.append((name, kinds, params, consts, guards))
        ctx.fp(f'adapters.{name}', cls.node)
    return rows


def class_consts(cls):
    env = {}
    for st in cls.body:
        if isinstance(st, ast.Assign) and len(st.targets) == 1 and isinstance(st.targets[0], ast.Name):
            try:
                env[st.targets[0].id] = const_eval(st.value, env)
            except NotRecognised:
                pass
    return env


# ------------------------------------------------------------------ Repository: schemas, init, _make_config, add_key
def _repo_policy(target, ex):
    """follow closures and everything of repository.py (adapters / utils stay calls)"""
    return target.nested or target.module.fq == 'replicat.repository'


def _self_calls(ex):
    return [e for e in ex.events if e.kind == 'call' and e.f.op == 'bound' and e.f.a[1].op == 'self']


def _by_result(events):
    """result term → the OUTERMOST call event that produced it"""
    out = {}
    for e in events:
        if e.result is not None and e.result.op not in ('k', 'p', 'self') and id(e.result) not in out:
            out[id(e.result)] = e
    return out


class InitRun:
    """`Repository.init` executed symbolically with every helper of repository.py followed, and the private methods it is
    built from identified by the ROLE they play (whatever they are called, wherever the call sits):

    * instantiateConfig — its result is `**`-expanded into `RepositoryProps(…)`;      makeConfig — produces that method's argument;
    * instantiateKey    — its result is `**`-expanded into `dataclasses.replace(props, …)`;   makeKey — produces ITS first argument;
    * validate          — called with the settings only, exactly when the settings are non-empty, before makeConfig."""

    def __init__(self, repo):
        self.repo = repo
        self.fn = repo.func('replicat.repository', 'Repository', 'init')
        if self.fn is None:
            raise NotRecognised('Repository.init not found')
        a = self.fn.node.args
        if not {'password', 'settings', 'key_output_path'} <= {x.arg for x in a.args + a.kwonlyargs}:
            raise NotRecognised('init signature')
        self.ex = F.Exec(repo, inline=_repo_policy)
        self.ex.run(self.fn)
        self.SET, self.PW = F.mk('p', 'settings'), F.mk('p', 'password')
        self.roles = self._roles()

    def _roles(self):
        ex = self.ex
        calls = [e for e in ex.events if e.kind == 'call']
        sc = _self_calls(ex)
        made = _by_result(sc)
        roles = {}
        none = F.Val()

        def producer(t):
            return made.get(id(F.resolve(t, none))) if t is not None else None

        def expanded_from(e):
            """the method call whose result mapping is `**`-expanded into the keyword arguments of call `e`"""
            stars = [v for k, v in e.kwargs if k is None]
            if len(stars) == 1:
                return producer(stars[0])
            if stars or not e.kwargs:
                return None
            # a literal dict result was already spread into named keywords by the interpreter: find it by its items
            for c in sc:
                r = c.result
                if c.id < e.id and r is not None and r.op == 'dict' and len(r.a[0]) == len(e.kwargs) \
                        and all(F.kval(k) == kn and v is kv for (k, v), (kn, kv) in zip(r.a[0], e.kwargs)):
                    return c
            return None
        for e in calls:
            if e.fq() == 'replicat.repository.RepositoryProps' and 'instantiateConfig' not in roles:
                p = expanded_from(e)
                if p is not None:
                    roles['instantiateConfig'] = p
            if e.fq() == 'dataclasses.replace' and 'instantiateKey' not in roles and e.args and _is_props(F.resolve(e.args[0], none)):
                p = expanded_from(e)
                if p is not None:
                    roles['instantiateKey'] = p
        for inst, mk_ in (('instantiateConfig', 'makeConfig'), ('instantiateKey', 'makeKey')):
            if inst in roles and roles[inst].args:
                p = producer(roles[inst].args[0])
                if p is not None:
                    roles[mk_] = p
        if 'makeConfig' in roles:
            at = F.mk('truthy', self.SET)
            for e in sc:
                if e.id < roles['makeConfig'].id and list(e.args) == [self.SET] and not e.kwargs and _checks_schemas(self.repo, e.f.a[0]):
                    if F.truth(e.pc, F.Val().set(at, False)) is False and F.truth(e.pc, F.Val().set(at, True)) is True:
                        roles['validate'] = e
                        break
                    raise NotRecognised('validation is not guarded by `if settings:`')
        missing = [r for r in ('validate', 'makeConfig', 'instantiateConfig', 'makeKey', 'instantiateKey') if r not in roles]
        if missing:
            raise NotRecognised('init: not found: the call that plays the role ' + ', '.join(missing))
        return roles

    def method(self, role):
        return self.roles[role].f.a[0]

    def inside_role(self, ev):
        ids = {e.id for e in self.roles.values()}
        return any(c[0] == 'call' and c[1] in ids for c in ev.ctx)


_INIT_RUNS = {}


def init_run(repo):
    if id(repo) not in _INIT_RUNS:
        _INIT_RUNS[id(repo)] = InitRun(repo)
    return _INIT_RUNS[id(repo)]


def schema_events(repo, validate_fn):
    """the (schema, object) pairs a settings validator checks, in evaluation order: calls of a method of `self` whose first
    argument is a dict `key → type | tuple of types` → [(entries, event)]"""
    ex = F.Exec(repo, inline=_repo_policy)
    ex.run(validate_fn)
    out = []
    for ev in _self_calls(ex):
        schema = ev.args[0] if ev.args else None
        if schema is not None and schema.op == 'gv':
            schema = schema.a[1]            # a module-level constant: its defining expression
        if schema is None or schema.op != 'dict' or len(ev.args) != 2 or ev.kwargs:
            continue
        d = []
        for k, v in schema.a[0]:
            if not isinstance(F.kval(k), str):
                raise NotRecognised('schema key')
            types = list(v.a[0]) if v.op == 'tuple' else [v]
            names = []
            for t in types:
                n = F.callee_name(t)
                if n == 'collections.abc.Mapping':
                    names.append('Mapping')
                elif n == 'types.NoneType' or (t.op == 'call' and F.callee_name(t.a[0]) == 'type' and list(t.a[1]) == [F.NONE]):
                    names.append('NoneType')
                else:
                    raise NotRecognised(f'schema type {F.show(t)}')
            d.append((F.kval(k), names))
        out.append((d, ev))
    return out


def _checks_schemas(repo, fn):
    """`fn(self, settings)` validates its argument against at least one schema dict"""
    if len(fn.node.args.args) != 2:
        return False
    try:
        return bool(schema_events(repo, fn))
    except (NotRecognised, F.Budget):
        return True       # it does look at schemas, of a shape we do not understand: the caller will report that


def lean_schema(d):
    return '[' + ', '.join(f'({lean_str(k)}, [' + ', '.join(lean_str(t) for t in ts) + '])' for k, ts in d) + ']'


def _get_key(t, of):
    """`of.get('k'[, d])` / `of['k']` → 'k'"""
    if t.op == 'call' and F.split_method(t.a[0]) is not None and F.split_method(t.a[0])[1] == 'get' and F.split_method(t.a[0])[0] is of \
            and t.a[1] and isinstance(F.kval(t.a[1][0]), str):
        return F.kval(t.a[1][0])
    if t.op == 'item' and t.a[0] is of and isinstance(F.kval(t.a[1]), str):
        return F.kval(t.a[1])
    return None


def _is_props(t):
    """a RepositoryProps value (constructed, `dataclasses.replace`d from one, the repository's own, or handed in)"""
    if t.op == 'phi':
        return _is_props(t.a[1]) and _is_props(t.a[2])
    if t.op == 'call':
        n = F.callee_name(t.a[0])
        if n == 'replicat.repository.RepositoryProps':
            return True
        if n == 'dataclasses.replace' and t.a[1]:
            return _is_props(t.a[1][0])
    if t.op == 'attr' and t.a[1] == 'props' and t.a[0].op == 'self':
        return True
    return t.op == 'p'          # handed in by the caller (`_add_key(…, props=…)`)


MUTATING = ('upload', 'upload_stream', 'delete')
RUNNERS = ('run_in_executor', 'submit', 'to_thread', 'partial', 'run_sync', 'call_soon', 'call_soon_threadsafe')


def _backend_method(t):
    sm = F.split_method(t) if isinstance(t, F.T) and t.op in ('attr', 'bound') else None
    if sm is not None and sm[1] in MUTATING and sm[0].op == 'attr' and sm[0].a[1] == 'backend' and sm[0].a[0].op == 'self':
        return sm[1]
    return None


def _touches_backend(ev):
    """a call that changes what is stored in the backend: `self.backend.upload|upload_stream|delete(…)`, direct or handed
    to an executor (`run_in_executor(executor, self.backend.upload, …)`)"""
    if ev.kind != 'call':
        return False
    if _backend_method(ev.f) is not None:
        return True
    sm = F.split_method(ev.f)
    runner = sm[1] if sm is not None else (F.callee_name(ev.f) or '').split('.')[-1]
    return not ev.inlined and runner in RUNNERS and any(_backend_method(a) is not None for a in ev.args)


def _encrypted_atoms(pc):
    return [a for a in F.atoms(pc) if a.op == 'truthy' and a.a[0].op == 'attr' and a.a[0].a[1] == 'encrypted' and _is_props(a.a[0].a[0])]


def _top(ev):
    """the call at depth 0 an event belongs to (its own id for an event of the function body itself)"""
    for c in ev.ctx:
        if c[0] == 'call':
            return c[1]
    return ev.id


def init_stages(run):
    ex = run.ex
    role_of = {e.id: r for r, e in run.roles.items()}
    stages, seen = [], set()
    for ev in ex.events:
        if run.inside_role(ev):
            continue            # what the role methods do inside is modelled by hand (Settings.lean), fingerprinted
        k = None
        depth = sum(1 for c in ev.ctx if c[0] == 'call')
        if ev.id in role_of:
            k = role_of[ev.id]
        elif ev.kind == 'call' and F.method_call(ev, 'encrypt') is not None and _is_props(F.resolve(F.method_call(ev, 'encrypt'), F.Val())):
            k = 'encryptPrivate'
        elif _touches_backend(ev):
            k = 'uploadConfig'      # init has one mutating backend call, the config upload; any mutating call counts as "the backend is touched here"
        elif ev.kind == 'raise':
            at = F.mk('isnone', run.PW)
            enc = _encrypted_atoms(ev.pc)
            v_none, v_some = F.Val().set(at, True), F.Val().set(at, False)
            for e in enc:
                v_none.set(e, True)
                v_some.set(e, True)
            if F.truth(ev.pc, v_some) is False and F.truth(ev.pc, v_none) is True:
                k = 'passwordCheck'
            elif depth == 0:
                raise NotRecognised(f'unmodelled raise in init: {F.show(ev.value)[:80]}')
        elif ev.kind == 'unknown-stmt' and depth == 0:
            raise NotRecognised('statement of init not understood')
        if k is None:
            continue
        if (k, _top(ev)) in seen:
            continue            # e.g. the coroutine / executor alternatives of one and the same backend call
        seen.add((k, _top(ev)))
        enc = _encrypted_atoms(ev.pc)
        only_enc = False
        if enc:
            v_off, v_on = F.Val(), F.Val()
            for e in enc:
                v_off.set(e, False)
                v_on.set(e, True)
            if F.truth(ev.pc, v_on) is False:
                raise NotRecognised('modelled statement in the unencrypted branch')
            only_enc = F.truth(ev.pc, v_off) is False
        stages.append((k, only_enc))
    return stages


def kind_checks(repo, make_config):
    """`_make_config` refuses an adapter of the wrong kind: a raise that happens exactly when
    `issubclass(<type from adapters.from_config(**<settings of slot S>)>, adapters.<Base>)` is false → [(S, Base)]"""
    ex = F.Exec(repo, inline=_repo_policy)
    ex.run(make_config)
    out, used = [], set()
    for ev, own in F.own_conditions([e for e in ex.events if e.kind == 'raise']):
        own = tuple(own)
        for at in F.atoms(own):
            t = at.a[0] if at.op == 'truthy' else None
            if t is None or not (t.op == 'call' and F.callee_name(t.a[0]) == 'issubclass' and len(t.a[1]) == 2 and not t.a[2]):
                continue
            if not (F.truth(own, F.Val().set(at, True)) is False and F.truth(own, F.Val().set(at, False)) is not False):
                continue
            ty, base = t.a[1]
            # the class: first component of adapters.from_config(**S)
            src = ty.a[0] if ty.op == 'item' and F.is_k(ty.a[1], 0) else None
            if src is None or not (src.op == 'call' and F.callee_name(src.a[0]) == 'replicat.utils.adapters.from_config' and not src.a[1]):
                continue
            maps = [v for k, v in src.a[2] if k is None]
            if len(maps) != 1:
                continue
            slot = _slot_of(maps[0])
            bn = F.callee_name(base)
            if slot is None or bn is None or not bn.startswith('replicat.utils.adapters.') or bn.split('.')[-1] not in ABSTRACT:
                continue
            out.append((slot, bn.split('.')[-1]))
            used.add(id(t))
    for ev in ex.events:
        if ev.kind == 'call' and F.callee_name(ev.f) == 'issubclass' and id(ev.result) not in used:
            raise NotRecognised(f'issubclass check of unknown shape in _make_config: {F.show(ev.result)[:100]}')
    return out


def _slot_of(m):
    """the settings section a mapping was taken from: `<…>.get('hashing', {})`, `<…>['cipher']` → its key"""
    if m.op == 'phi':
        a, b = _slot_of(m.a[1]), _slot_of(m.a[2])
        return a if a == b else None
    if m.op == 'merge':
        return _slot_of(m.a[0])
    if m.op == 'call' and F.split_method(m.a[0]) is not None and F.split_method(m.a[0])[1] in ('get', 'pop', 'setdefault') and m.a[1] \
            and isinstance(F.kval(m.a[1][0]), str):
        return F.kval(m.a[1][0])
    if m.op == 'item' and isinstance(F.kval(m.a[1]), str):
        return F.kval(m.a[1])
    return None


class AddKeyRun:
    """`Repository.add_key` with every helper followed; its settings validator by role (called with the settings only, exactly
    when they are non-empty)"""

    def __init__(self, repo):
        self.fn = repo.func('replicat.repository', 'Repository', 'add_key')
        if self.fn is None:
            raise NotRecognised('Repository.add_key not found')
        self.ex = F.Exec(repo, inline=_repo_policy)
        self.ex.run(self.fn)
        SET = F.mk('p', 'settings')
        at = F.mk('truthy', SET)
        self.validate = None
        for e in _self_calls(self.ex):
            if list(e.args) == [SET] and not e.kwargs and _checks_schemas(repo, e.f.a[0]) \
                    and F.truth(e.pc, F.Val().set(at, False)) is False and F.truth(e.pc, F.Val().set(at, True)) is True:
                self.validate = e
                break
        if self.validate is None:
            raise NotRecognised('add_key: settings validation not found')


FALLBACK = [
    'opaque kindChecks : List (String × String)',
    'opaque adapterTable : List AdapterRow',
    'opaque initSchema : List (String × List String)',
    'opaque initEncryptionSchema : List (String × List String)',
    'opaque addKeySchema : List (String × List String)',
    'opaque addKeyEncryptionSchema : List (String × List String)',
    'opaque defaultHasher : String', 'opaque defaultChunker : String', 'opaque defaultCipher : String',
    'opaque defaultMac : String', 'opaque defaultUserKdf : String', 'opaque defaultSharedKdf : String',
    'opaque initStages : List (InitStage × Bool)',
    'opaque addKeyUploads : Bool',
]


def section(ctx):
    """The type prelude is always emitted (so ReplicatModel and the driver keep compiling for every other property);
    if anything of the source is not recognised the tables become `opaque` and `settingsRecognised := false`, so
    every C17 theorem that looks inside them stops compiling."""
    for ln in PRELUDE.strip('\n').split('\n'):
        ctx.emit(ln)
    ctx.emit()
    out = []
    try:
        body(ctx, out.append)
    except Exception as e:  # noqa: BLE001
        ctx.notes['settings'] = f'not recognised: {e!r}'
        out = list(FALLBACK) + ['def settingsRecognised : Bool := false']
    else:
        out.append('def settingsRecognised : Bool := true')
    for ln in out:
        ctx.emit(ln)
    # the key-file statement has its own fallback: not recognising it must not take the adapter tables down with it
    try:
        kw = key_write_facts(ctx)
    except Exception as e:  # noqa: BLE001
        ctx.notes['settings_keywrite'] = f'not recognised: {e!r}'
        for ln in KEYWRITE_FALLBACK:
            ctx.emit(ln)
    else:
        ctx.notes['settings_keywrite'] = f"init: {kw['init']}, _add_key: {kw['add_key']}, after the last check: {kw['after_checks']}"
        ctx.emit(f"def keyWriteInit : WriteMode := .{kw['init']}")
        ctx.emit(f"def keyWriteAddKey : WriteMode := .{kw['add_key']}")
        ctx.emit(f"def keyWriteAfterChecks : Bool := {'true' if kw['after_checks'] else 'false'}")


def body(ctx, emit):
    repo = F.shared_repo(ctx.REPO)
    asrc = (ctx.REPO / 'replicat' / 'utils' / 'adapters.py').read_text()
    atree = ast.parse(asrc)
    rows = adapter_rows(ctx, repo)
    run = init_run(repo)
    add = AddKeyRun(repo)
    # fingerprints of the functions the hand-written model mirrors (under the names they have today)
    for nm, f in [('init', run.fn), ('add_key', add.fn), ('_validate_init_settings', run.method('validate')),
                  ('_validate_add_key_settings', add.validate.f.a[0]), ('_make_config', run.method('makeConfig')),
                  ('_instantiate_config', run.method('instantiateConfig')), ('_make_key', run.method('makeKey')),
                  ('_instantiate_key', run.method('instantiateKey'))]:
        ctx.fp(f'repository.{nm}', f.node)
    for nm in ('_validate_settings', '_add_key'):
        f = repo.func('replicat.repository', 'Repository', nm)
        if f is not None:
            ctx.fp(f'repository.{nm}', f.node)
    ctx.fp('adapters.from_config', ctx.find_func(atree, 'from_config'))
    vinit = run.method('validate')
    si, sa = schema_events(repo, vinit), schema_events(repo, add.validate.f.a[0])
    if len(si) != 2 or len(sa) != 2:
        raise NotRecognised('expected two schema dicts in each _validate_*_settings')
    # the nested init schema is applied to settings.get('encryption') exactly when that is not None
    SET = F.mk('p', vinit.node.args.args[1].arg)
    ev2 = si[1][1]
    obj = ev2.args[1]
    nested_ok = False
    if _get_key(obj, SET) == 'encryption':
        at = F.mk('isnone', obj)
        nested_ok = F.truth(ev2.pc, F.Val().set(at, True)) is False and F.truth(ev2.pc, F.Val().set(at, False)) is True \
            and F.truth(si[0][1].pc, F.Val()) is True and si[0][1].args[1] is SET
    if not nested_ok:
        raise NotRecognised('_validate_init_settings: nested validation shape')
    si, sa = [d for d, _ in si], [d for d, _ in sa]
    repo_cls = repo.cls('replicat.repository', 'Repository')
    defaults = {}
    need = ['DEFAULT_CHUNKER_NAME', 'DEFAULT_CIPHER_NAME', 'DEFAULT_HASHER_NAME', 'DEFAULT_MAC_NAME', 'DEFAULT_USER_KDF_NAME', 'DEFAULT_SHARED_KDF_NAME']
    for k in need:
        c = repo_cls.find_const(k) if repo_cls is not None else None
        defaults[k] = F.kval(c) if c is not None else None
    if any(not isinstance(defaults.get(k), str) for k in need):
        raise NotRecognised('DEFAULT_*_NAME constants')
    stages = init_stages(run)
    kind_chk = kind_checks(repo, run.method('makeConfig'))
    uploads = any(_touches_backend(ev) for ev in add.ex.events)

    # ---- emit (only after everything was recognised)
    emit('def adapterTable : List AdapterRow := [')
    for i, (name, kinds, params, consts, guards) in enumerate(rows):
        ps = '[' + ', '.join(f'({lean_str(p)}, ' + ('none' if d is None else f'some ({lean_val(d[1])})') + ')' for p, d in params) + ']'
        cs = '[' + ', '.join(f'({lean_str(k)}, {lean_int(v)})' for k, v in consts) + ']'
        gs = '[' + ', '.join(f'⟨{c}, {lean_str(e)}⟩' for c, e in guards) + ']'
        ks = '[' + ', '.join(lean_str(k) for k in kinds) + ']'
        emit(f'  ⟨{lean_str(name)}, {ks}, {ps}, {cs}, {gs}⟩' + (',' if i + 1 < len(rows) else ''))
    emit(']')
    emit(f'def initSchema : List (String × List String) := {lean_schema(si[0])}')
    emit(f'def initEncryptionSchema : List (String × List String) := {lean_schema(si[1])}')
    emit(f'def addKeySchema : List (String × List String) := {lean_schema(sa[0])}')
    emit(f'def addKeyEncryptionSchema : List (String × List String) := {lean_schema(sa[1])}')
    for k, lean in [('DEFAULT_HASHER_NAME', 'defaultHasher'), ('DEFAULT_CHUNKER_NAME', 'defaultChunker'), ('DEFAULT_CIPHER_NAME', 'defaultCipher'),
                    ('DEFAULT_MAC_NAME', 'defaultMac'), ('DEFAULT_USER_KDF_NAME', 'defaultUserKdf'), ('DEFAULT_SHARED_KDF_NAME', 'defaultSharedKdf')]:
        emit(f'def {lean} : String := {lean_str(defaults[k])}')
    emit('def initStages : List (InitStage × Bool) := [' + ', '.join(f'(.{k}, {"true" if e else "false"})' for k, e in stages) + ']')
    emit('def kindChecks : List (String × String) := [' + ', '.join(f'({lean_str(a)}, {lean_str(b)})' for a, b in kind_chk) + ']')
    emit(f'def addKeyUploads : Bool := {"true" if uploads else "false"}')


# ------------------------------------------------------------------ the key-file statement of init / _add_key
KEYWRITE_FALLBACK = ['opaque keyWriteInit : WriteMode', 'opaque keyWriteAddKey : WriteMode', 'opaque keyWriteAfterChecks : Bool']
OPEN_FLAGS = {'O_WRONLY', 'O_RDWR', 'O_CREAT', 'O_TRUNC', 'O_APPEND', 'O_EXCL', 'O_CLOEXEC', 'O_NOFOLLOW', 'O_BINARY', 'O_SYNC', 'O_DSYNC', 'O_NOCTTY'}


def _mode_of_string(mode, on_descriptor=False):
    if not isinstance(mode, str):
        raise NotRecognised(f'open mode {mode!r}')
    if 'x' in mode:
        return 'exclusive'
    if 'a' in mode:
        return 'append'
    if 'w' in mode:
        return None if on_descriptor else 'truncate'      # open(fd, 'wb') does not truncate: the descriptor decides
    if '+' in mode:
        return None if on_descriptor else 'inPlace'
    raise NotRecognised(f'key file opened with mode {mode!r}')


def _flag_names_t(t):
    """`os.O_WRONLY | os.O_CREAT | …` as a term → set of names"""
    if t.op == 'bin' and t.a[0] == '|':
        return _flag_names_t(t.a[1]) | _flag_names_t(t.a[2])
    n = F.callee_name(t)
    nm = n[len('os.'):] if n is not None and n.startswith('os.') else n
    if nm not in OPEN_FLAGS:
        raise NotRecognised(f'open flag {F.show(t)}')
    return {nm}


def _mode_arg(ev, pos):
    m = ev.arg(pos, 'mode')
    if m is None:
        return 'r'
    if not isinstance(F.kval(m), str):
        raise NotRecognised(f'open mode {F.show(m)}')
    return F.kval(m)


def write_mode_of(calls):
    """How the calls that store the key leave the file at the output path (see `WriteMode`): rename onto the path, os.open
    flags, open()/Path.open() mode strings, truncate calls, Path.write_bytes / write_text.  `calls` = every call that happens
    when a key output path is given (helpers already followed by the symbolic execution)."""
    names = []
    for c in calls:
        n = F.callee_name(c.f)
        sm = F.split_method(c.f)
        names.append(n if n is not None and c.f.op != 'bound' else ('.' + sm[1] if sm is not None else '?'))
    if any(n in ('os.replace', 'os.rename', 'shutil.move') or n.endswith('.replace') and len(c.args) == 1 and not c.kwargs or n.endswith('.rename')
           for n, c in zip(names, calls)):
        return 'replace'
    truncates = any(n == 'os.ftruncate' or n == 'os.truncate' or n.endswith('.truncate') for n in names)
    found = []
    for n, c in zip(names, calls):
        if n == 'os.open':
            if len(c.args) < 2:
                raise NotRecognised('os.open without flags')
            fl = _flag_names_t(c.args[1])
            if not (fl & {'O_WRONLY', 'O_RDWR'}):
                raise NotRecognised('key file descriptor is not opened for writing')
            found.append('exclusive' if 'O_EXCL' in fl else 'append' if 'O_APPEND' in fl else 'truncate' if 'O_TRUNC' in fl else 'inPlace')
        elif n in ('open', 'io.open', 'os.fdopen'):
            m = _mode_of_string(_mode_arg(c, 1), on_descriptor=(n == 'os.fdopen' or 'os.open' in names))
            if m is not None:
                found.append(m)
        elif n.endswith('.open') and n != 'os.open':
            found.append(_mode_of_string(_mode_arg(c, 0)))
        elif n.endswith('.write_bytes') or n.endswith('.write_text'):
            found.append('truncate')
    found = sorted(set(found))
    if len(found) != 1:
        raise NotRecognised(f'key-file statement: expected one way of opening the file, found {found}')
    mode = found[0]
    if mode == 'inPlace' and truncates:
        mode = 'truncate'
    return mode


def key_write_calls(repo, func, key_methods):
    """the calls of `func` (helpers followed) that happen exactly when a key output path was given (`key_output_path is not
    None`, in any spelling), and whether the writing comes after the last step that can refuse the settings (key
    construction — the methods that play makeKey / instantiateKey in init — and the encryption of the private part)"""
    a = func.node.args
    if 'key_output_path' not in [x.arg for x in a.args + a.kwonlyargs]:
        raise NotRecognised(f'{func.name}: no key_output_path parameter')
    ex = F.Exec(repo, inline=_repo_policy)
    ex.run(func)
    at = F.mk('isnone', F.mk('p', 'key_output_path'))
    calls = [e for e in ex.events if e.kind == 'call' and F.truth(e.pc, F.Val().set(at, True)) is False
             and F.truth(e.pc, F.Val().set(at, False)) is not False]
    if not calls:
        raise NotRecognised(f'{func.name}: nothing happens when a key output path is given')
    enc = [e for e in ex.events if e.kind == 'call' and F.method_call(e, 'encrypt') is not None and e.f.op != 'bound'
           and _is_props(F.resolve(F.method_call(e, 'encrypt'), F.Val()))]
    mk_ = [e for e in ex.events if e.kind == 'call' and e.f.op == 'bound' and e.f.a[0] in key_methods]
    if not enc or not mk_:
        raise NotRecognised(f'{func.name}: key construction calls not found')
    writers = [e for e in calls if not (F.callee_name(e.f) or '').startswith(('pathlib.', 'print', 'json.'))]
    last_check = max(e.id for e in enc + mk_)
    # (the events INSIDE the key construction methods belong to them)
    inner = {e.id for e in mk_}
    last_check = max([last_check] + [e.id for e in ex.events if any(c[0] == 'call' and c[1] in inner for c in e.ctx)])
    after = min(e.id for e in writers) > last_check if writers else False
    return calls, after


def key_write_facts(ctx):
    repo = F.shared_repo(ctx.REPO)
    run = init_run(repo)
    key_methods = {run.method('makeKey'), run.method('instantiateKey')}
    add = repo.func('replicat.repository', 'Repository', 'add_key')
    if add is None:
        raise NotRecognised('Repository.add_key not found')
    ci, ai = key_write_calls(repo, run.fn, key_methods)
    ca, aa = key_write_calls(repo, add, key_methods)
    return {'init': write_mode_of(ci), 'add_key': write_mode_of(ca), 'after_checks': ai and aa}
