"""Extractor plug-in for the object-level commands of replicat/repository.py (`upload_objects`, `download_objects`,
`list_objects`, `delete_objects`) — model `ObjCmd.lean`, theorems at the end of Properties/C13.lean.

Emitted: the floor of the stream chunk size under a rate limit (used by the model), and Boolean shape flags for the
structural facts the model was written from (the bridge theorem `objcmd_model_assumptions_hold` discharges them by `decide`).

Recognition is SEMANTIC (`tools/symflow.py`): each command is executed symbolically — helper methods (`_exists`, `_delete`,
`_maybe_run_in_executor`, `_aiter`, extracted private helpers), nested functions, lambdas and callbacks handed to `map` / executors are
followed — and a flag is a query over the resulting events: WHAT reaches the backend (`self.backend.<op>` invoked directly or handed
to an executor) with WHICH resolved arguments under WHICH normalised guard.  Renaming, extraction / inlining of helpers, swapped
branches, early exits, De Morgan, hoisted values, comprehensions ↔ loops and logging leave a flag unchanged; a flag is true only
if the structure is positively found.
"""
import ast

import symflow as sf
import symfacts
from symflow import SELF, NONE, is_const, mentions, method_call, global_call, subterms
from symfacts import backend_op, invocations_of, arg_of


def own(e):
    return not any(c[0] in ('inline',) for c in e.ctx)


def disjunctions(guard):
    return [atom[1] for atom, pol in guard if pol and isinstance(atom, tuple) and atom and atom[0] == 'or' and isinstance(atom[1], frozenset)]


# ------------------------------------------------------------------------------------------------ upload_objects
def object_name_ok(name):
    """name ≡ P.relative_to(commonpath([P, <cwd>])).as_posix()"""
    m = method_call(name, ('as_posix',))
    if m is None or m[2]:
        return False
    r = method_call(m[0], ('relative_to',))
    if r is None or len(r[2]) != 1:
        return False
    p = r[0]
    g = global_call(r[2][0], ('os.path.commonpath', 'posixpath.commonpath'))
    if g is None or len(g[1]) != 1 or g[1][0][0] not in ('list', 'tuple') or len(g[1][0][1]) != 2:
        return False
    elts = list(g[1][0][1])
    if p not in elts:
        return False
    elts.remove(p)
    other = sf.strip_wrappers(elts[0])
    return global_call(other, ('pathlib.Path.cwd', 'os.getcwd')) is not None


def upload_facts(interp):
    """`upload_objects`: every invocation of `backend.upload_stream`
        * passes as object name `P.relative_to(os.path.commonpath([P, Path.cwd()])).as_posix()`           (name)
        * is guarded by `¬skip_existing ∨ ¬<result of backend.exists(that same name)>` and by nothing else that mentions
          skip_existing or that existence check                                                           (skip)
        * passes as chunk size `DEFAULT_STREAM_CHUNK_SIZE` if rate_limit is None else `max(rate_limit // …, FLOOR)`   (floor, default)"""
    out = {'name': False, 'skip': False, 'chunk': None}
    events, _ = interp.run('upload_objects')
    ups = invocations_of(events or [], 'upload_stream')
    if not ups:
        return out
    names = {arg_of(a, k, 0, 'name') for _, a, k in ups}
    out['name'] = len(names) == 1 and None not in names and object_name_ok(next(iter(names)))
    name = next(iter(names)) if len(names) == 1 else None
    skip_arg = ('arg', 'skip_existing')
    is_exists = backend_op('exists')

    def existence_check(t):
        """t is (derived from) the result of backend.exists(<name>) and of nothing else that reaches the backend"""
        invs = sf.invocations(t, is_exists)
        return bool(invs) and all(a and a[0] == name for a, _, _ in invs)
    ok = name is not None
    for e, _, _ in ups:
        found = False
        for d in disjunctions(e.guard):
            if len(d) == 2 and (skip_arg, False) in d:
                (other,) = [x for x in d if x != (skip_arg, False)]
                if other[1] is False and existence_check(other[0]):
                    found = True
        stray = [it for it in e.guard if not (isinstance(it[0], tuple) and it[0] and it[0][0] == 'or' and isinstance(it[0][1], frozenset))
                 and (mentions(it[0], skip_arg) or sf.invocations(it[0], is_exists))]
        ok = ok and found and not stray
    out['skip'] = ok
    out['chunk'] = chunk_size_shape({arg_of(a, k, 3, 'chunk_size') for _, a, k in ups})
    return out


def chunk_size_shape(values):
    """the chunk size handed to the backend ≡ (DEFAULT if rate_limit is None else max(rate_limit // …, FLOOR)) → (FLOOR, default is
    DEFAULT_STREAM_CHUNK_SIZE) or None"""
    if len(values) != 1:
        return None
    v = next(iter(values))
    if v is None or v[0] != 'phi' or v[1] != ('isnone', ('arg', 'rate_limit')):
        return None
    default, limited = v[2], v[3]
    g = global_call(limited, ('max',))
    if g is None or limited[1] != ('global', 'max') or len(g[1]) != 2 or g[2]:
        return None
    a, b = g[1]
    if is_const(a, int):
        a, b = b, a
    if not (is_const(b, int) and b[1] >= 0 and a[0] == 'binop' and a[1] == 'FloorDiv' and a[2] == ('arg', 'rate_limit')):
        return None
    is_default = default[0] == 'global' and default[1].split('.')[-1] == 'DEFAULT_STREAM_CHUNK_SIZE'
    return b[1], is_default


# ------------------------------------------------------------------------------------------------ download_objects
def download_facts(interp):
    """`download_objects`: the stream handed to every `backend.download_stream` invocation comes from ONE `open` of the output path
        * whose mode ≡ 'xb' if skip_existing else 'wb'                                                      (mode)
        * which sits in a try body with a handler for FileExistsError that neither raises nor lets the download run:
          the download is in the try's else / later in its body, or the handler leaves                       (catch)
       and the chunk size has the same shape as for uploads                                                (chunk)"""
    out = {'mode': False, 'catch': False, 'chunk': None, 'events': None}
    events, _ = interp.run('download_objects')
    out['events'] = events
    downs = invocations_of(events or [], 'download_stream')
    if not downs:
        return out
    out['chunk'] = chunk_size_shape({arg_of(a, k, 2, 'chunk_size') for _, a, k in downs})
    opens = []
    for e in events:
        if e.kind != 'call':
            continue
        m = method_call(e.value, ('open',))
        g = global_call(e.value, ('open', 'io.open')) if e.callee in (('global', 'open'), ('global', 'io.open')) else None
        mode = None
        if m is not None:
            mode = arg_of(m[2], m[3], 0, 'mode')
        elif g is not None and g[0] in ('open', 'io.open'):
            mode = arg_of(g[1], g[2], 1, 'mode')
        else:
            continue
        if all(mentions(arg_of(a, k, 1, 'stream') or NONE, e.value) for _, a, k in downs):
            opens.append((e, mode))
    if len(opens) != 1:
        return out
    eo, mode = opens[0]
    out['mode'] = mode == ('phi', ('arg', 'skip_existing'), ('const', 'xb'), ('const', 'wb'))
    tries = [c[1] for c in eo.ctx if c[0] == 'try-body']
    for tid in reversed(tries):
        for h in interp.trys[tid]['handlers']:
            types = h['type'][1] if h['type'][0] == 'tuple' else (h['type'],)
            if any(t[0] == 'global' and t[1].split('.')[-1] == 'FileExistsError' for t in types):
                lo, hi = h['events']
                raises = any(ev.kind == 'raise' for ev in events[lo:hi])
                sheltered = all(d.inside('try-else', tid) or (d.inside('try-body', tid) and d.seq > eo.seq) or h['term'] in ('func', 'loop')
                                for d, _, _ in downs)
                downloads_in_handler = any(lo <= d.seq < hi for d, _, _ in downs)
                out['catch'] = not raises and sheltered and not downloads_in_handler
                return out
    return out


# ------------------------------------------------------------------------------------------------ the selection filter
def filter_ok(interp, fn):
    """every place where `fn` keeps / prints / yields a listed name P — P an element of `backend.list_files(object_prefix)` — is guarded by
       `<compiled regex> is None  ∨  <compiled regex>.search(P) matched`, the regex being derived from the object_regex parameter"""
    events, _ = interp.run(fn)
    is_list = backend_op('list_files')
    keeps = []
    for e in events or []:
        p = None
        if e.kind == 'call' and own(e) and (method_call(e.value, ('append', 'add')) is not None or e.callee == ('global', 'print')) and len(e.args) == 1:
            p = e.args[0]
        elif e.kind in ('yield', 'collect') and own(e):
            p = e.value
        if p is None or p[0] != 'elem':
            continue
        invs = sf.invocations(p[1], is_list)
        if not invs:
            continue
        if not all(a and a[0] == ('arg', 'object_prefix') for a, _, _ in invs):
            return False
        keeps.append((e, p))
    if not keeps:
        return False
    for e, p in keeps:
        good = False
        for d in disjunctions(e.guard):
            if len(d) != 2:
                continue
            res = [x[0][1] for x in d if x[1] is True and x[0][0] == 'isnone']
            for rx in res:
                (other,) = [x for x in d if x != (('isnone', rx), True)]
                searched = ('call', ('attr', rx, 'search'), (p,), ())
                if other in ((('isnone', searched), False), (searched, True)) and mentions(rx, ('arg', 'object_regex')):
                    good = True
        if not good:
            return False
    return True


# ------------------------------------------------------------------------------------------------ delete_objects
def delete_facts(interp):
    """`delete_objects`: for the location L of each object, `backend.delete(L)` is invoked and — LATER, under the guard
       `<cache directory attribute> is not None` (by a branch, not merely an assert) — a file below that cache directory at L is
       unlinked (evicts); the unlink tolerates a missing file (missing_ok)"""
    out = {'evicts': False, 'missing_ok': False}
    events, _ = interp.run('delete_objects')
    dels = invocations_of(events or [], 'delete')
    if not dels:
        return out
    locs = {arg_of(a, k, 0, 'name') for _, a, k in dels}
    if len(locs) != 1 or None in locs:
        return out
    loc = next(iter(locs))
    first_delete = min(e.seq for e, _, _ in dels)
    evictions = []
    for e in events:
        if e.kind != 'call':
            continue
        u = symfacts.unlink_of(e, interp)
        if u is None or not mentions(u[0], loc):
            continue
        dirs = [t for t in subterms(u[0]) if t[0] == 'attr' and t[1] == SELF and (('isnone', t), False) in e.guard]
        if dirs and e.seq > first_delete:
            evictions.append((e, u[1]))
    out['evicts'] = bool(evictions)
    out['missing_ok'] = bool(evictions) and all(ok is True for _, ok in evictions)
    return out


def section(ctx):
    emit, notes = ctx.emit, ctx.notes
    src = (ctx.REPO / 'replicat' / 'repository.py').read_text()
    tree = ast.parse(src)
    for m in ('upload_objects', 'download_objects', 'list_objects', 'delete_objects', '_delete_cached', '_flatten_resolve_paths'):
        ctx.fp('repository.' + m, ctx.find_func(tree, 'Repository', m))

    def flag(name, value, why):
        if not value:
            notes['objcmd:' + name] = why
        emit(f'def {name} : Bool := {"true" if value else "false"}')

    mod = sf.Module(src)

    def guarded(what, fn, default):
        try:
            return fn(sf.Interp(mod, 'Repository'))
        except Exception as e:  # noqa: BLE001
            notes['objcmd:' + what] = f'query failed: {e!r}'
            return default
    has = 'Repository' in mod.classes
    up = guarded('upload_objects', upload_facts, {}) if has else {}
    down = guarded('download_objects', download_facts, {}) if has else {}
    dele = guarded('delete_objects', delete_facts, {}) if has else {}
    f_down = guarded('download_objects filter', lambda it: filter_ok(it, 'download_objects'), False) if has else False
    f_list = guarded('list_objects filter', lambda it: filter_ok(it, 'list_objects'), False) if has else False

    flag('objcmdNameIsRelativeToCommonPath', up.get('name'), 'upload_objects: the object name is not path.relative_to(commonpath([path, cwd])).as_posix()')
    flag('objcmdUploadSkipChecksExists', up.get('skip'),
         'upload_objects: the upload is not guarded by exactly `not (skip_existing and <backend.exists(name)>)`')
    cu, cd = up.get('chunk'), down.get('chunk')
    if cu is not None and cd is not None and cu[0] == cd[0]:
        emit(f'def objcmdChunkFloor : Nat := {cu[0]}')
    else:
        notes['objcmd:objcmdChunkFloor'] = f'not recognised: upload {cu}, download {cd}'
        emit('opaque objcmdChunkFloor : Nat')
    flag('objcmdDefaultChunkIsStreamChunk', cu is not None and cd is not None and cu[1] and cd[1],
         f'default chunk sizes of upload_objects / download_objects are not DEFAULT_STREAM_CHUNK_SIZE: {cu} / {cd}')
    flag('objcmdDownloadModeExclusiveIffSkip', down.get('mode'), "download_objects: the open mode is not 'xb' if skip_existing else 'wb'")
    flag('objcmdDownloadSkipsOnFileExists', down.get('catch'), 'download_objects: FileExistsError of open() is not swallowed around the download')
    flag('objcmdFilterIsPrefixThenSearch', f_down and f_list, 'download_objects / list_objects: filter is not list_files(object_prefix) + regex.search')
    flag('objcmdDeleteEvictsCache', dele.get('evicts'),
         'delete_objects: no unlink of the cached copy under `<cache directory> is not None` after the backend delete')
    flag('objcmdEvictMissingOk', dele.get('missing_ok'), 'delete_objects: the unlink of the cached copy does not tolerate a missing file')
