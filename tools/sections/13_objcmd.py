"""Extractor plug-in for the object-level commands of replicat/repository.py (`upload_objects`, `download_objects`,
`list_objects`, `delete_objects`) — model `ObjCmd.lean`, theorems at the end of Properties/C13.lean.

Emitted: the floor of the stream chunk size under a rate limit (used by the model), and Boolean shape flags for the
structural facts the model was written from (the bridge theorem `objcmd_model_assumptions_hold` discharges them by
`decide`).  The recognisers are AST-structural and tolerant of renamed locals / reordered statements; whole functions
are only fingerprinted.
"""
import ast


def _calls(node, unparse, suffix):
    """all Call nodes below `node` whose callee text ends with `suffix`"""
    return [c for c in ast.walk(node) if isinstance(c, ast.Call) and unparse(c.func).endswith(suffix)]


def section(ctx):
    emit, notes, unparse = ctx.emit, ctx.notes, ctx.unparse
    tree = ast.parse((ctx.REPO / 'replicat' / 'repository.py').read_text())
    fns = {}
    for m in ('upload_objects', 'download_objects', 'list_objects', 'delete_objects', '_delete_cached', '_flatten_resolve_paths'):
        fns[m] = ctx.find_func(tree, 'Repository', m)
        ctx.fp('repository.' + m, fns[m])

    def flag(name, value, why):
        if not value:
            notes['objcmd:' + name] = why
        emit(f'def {name} : Bool := {"true" if value else "false"}')

    up, down, lst, dele = fns['upload_objects'], fns['download_objects'], fns['list_objects'], fns['delete_objects']

    # ---- upload_objects: object name = path relative to the common path with the working directory, POSIX form
    name_ok = False
    if up is not None:
        cwd_vars = {n.targets[0].id for n in ast.walk(up) if isinstance(n, ast.Assign) and len(n.targets) == 1
                    and isinstance(n.targets[0], ast.Name) and unparse(n.value) in ('Path.cwd()', 'pathlib.Path.cwd()')}
        for c in _calls(up, unparse, '.as_posix'):
            inner = c.func.value
            if isinstance(inner, ast.Call) and unparse(inner.func).endswith('.relative_to') and len(inner.args) == 1:
                a = inner.args[0]
                if isinstance(a, ast.Call) and unparse(a.func).endswith('commonpath') and len(a.args) == 1 and isinstance(a.args[0], (ast.List, ast.Tuple)):
                    elts = {unparse(e) for e in a.args[0].elts}
                    if len(elts) == 2 and unparse(inner.func.value) in elts and (elts - {unparse(inner.func.value)}) <= cwd_vars:
                        name_ok = True
    flag('objcmdNameIsRelativeToCommonPath', name_ok, 'upload_objects: name is not path.relative_to(commonpath([path, cwd])).as_posix()')

    # ---- upload_objects: `if skip_existing and await self._exists(name): <skip> else: <upload_stream>`
    skip_ok = False
    if up is not None:
        for n in ast.walk(up):
            if isinstance(n, ast.If) and isinstance(n.test, ast.BoolOp) and isinstance(n.test.op, ast.And) and len(n.test.values) == 2 \
                    and unparse(n.test.values[0]) == 'skip_existing' and _calls(n.test.values[1], unparse, '._exists') \
                    and not any(_calls(b, unparse, '.upload_stream') or 'upload_stream' in unparse(b) for b in n.body) \
                    and any('upload_stream' in unparse(b) for b in n.orelse):
                skip_ok = True
    flag('objcmdUploadSkipChecksExists', skip_ok, 'upload_objects: the skip_existing guard is not `skip_existing and await self._exists(name)` around the upload')

    # ---- chunk size under a rate limit: max(rate_limit // (self._concurrent * K), FLOOR) in both transfer commands; default DEFAULT_STREAM_CHUNK_SIZE
    floors, defaults = [], []
    for fn in (up, down):
        if fn is None:
            continue
        for n in ast.walk(fn):
            if isinstance(n, ast.Assign) and len(n.targets) == 1 and isinstance(n.targets[0], ast.Name) and n.targets[0].id.endswith('chunk_size'):
                v = n.value
                if isinstance(v, ast.Call) and unparse(v.func) == 'max' and len(v.args) == 2 and 'rate_limit //' in unparse(v.args[0]):
                    try:
                        floors.append(ast.literal_eval(v.args[1]))
                    except Exception:  # noqa: BLE001
                        floors.append(None)
                elif 'rate_limit' not in unparse(v):
                    defaults.append(unparse(v))
    if len(floors) == 2 and floors[0] == floors[1] and isinstance(floors[0], int) and floors[0] >= 0:
        emit(f'def objcmdChunkFloor : Nat := {floors[0]}')
    else:
        notes['objcmd:objcmdChunkFloor'] = f'not recognised: {floors}'
        emit('opaque objcmdChunkFloor : Nat')
    flag('objcmdDefaultChunkIsStreamChunk', len(defaults) == 2 and set(defaults) == {'DEFAULT_STREAM_CHUNK_SIZE'},
         f'default chunk sizes of upload_objects / download_objects: {defaults}')

    # ---- download_objects: write mode 'xb' iff skip_existing, FileExistsError swallowed, parents created first
    mode_ok = catch_ok = False
    if down is not None:
        for n in ast.walk(down):
            if isinstance(n, ast.Assign) and isinstance(n.value, ast.IfExp) and unparse(n.value.test) == 'skip_existing':
                try:
                    mode_ok = (ast.literal_eval(n.value.body), ast.literal_eval(n.value.orelse)) == ('xb', 'wb')
                except Exception:  # noqa: BLE001
                    mode_ok = False
            if isinstance(n, ast.Try):
                opens = any(_calls(b, unparse, '.open') for b in n.body)
                swallowed = any(h.type is not None and unparse(h.type) == 'FileExistsError' and not any(isinstance(x, ast.Raise) for b in h.body for x in ast.walk(b))
                                for h in n.handlers)
                downloads_in_else = any('download_stream' in unparse(b) for b in n.orelse)
                if opens and swallowed and downloads_in_else:
                    catch_ok = True
    flag('objcmdDownloadModeExclusiveIffSkip', mode_ok, "download_objects: write_mode is not 'xb' if skip_existing else 'wb'")
    flag('objcmdDownloadSkipsOnFileExists', catch_ok, 'download_objects: FileExistsError of open() is not swallowed around the download')

    # ---- the filter of download_objects / list_objects: names of list_files(object_prefix) with `object_re.search(name) is None` dropped
    def filter_ok(fn):
        if fn is None:
            return False
        for n in ast.walk(fn):
            if isinstance(n, ast.AsyncFor) and 'list_files' in unparse(n.iter) and 'object_prefix' in unparse(n.iter):
                for i in n.body:
                    if isinstance(i, ast.If) and '.search(' in unparse(i.test) and 'is None' in unparse(i.test) \
                            and any(isinstance(x, ast.Continue) for x in i.body):
                        return True
        return False
    flag('objcmdFilterIsPrefixThenSearch', filter_ok(down) and filter_ok(lst), 'download_objects / list_objects: filter is not list_files(object_prefix) + regex.search')

    # ---- delete_objects: backend delete, then (iff a cache directory is configured) the cached copy
    del_ok = False
    if dele is not None:
        for n in ast.walk(dele):
            if isinstance(n, (ast.AsyncFunctionDef, ast.FunctionDef)) and n is not dele:
                txt = [unparse(b) for b in n.body]
                i_del = next((i for i, t in enumerate(txt) if 'self._delete(' in t), None)
                i_ev = next((i for i, b in enumerate(n.body) if isinstance(b, ast.If) and unparse(b.test) == 'self._cache_directory is not None'
                             and '_delete_cached' in unparse(b)), None)
                if i_del is not None and i_ev is not None and i_del < i_ev:
                    del_ok = True
    flag('objcmdDeleteEvictsCache', del_ok, 'delete_objects: no `_delete_cached(location)` under `self._cache_directory is not None` after the backend delete')
    dc = fns['_delete_cached']
    flag('objcmdEvictMissingOk', dc is not None and 'unlink(missing_ok=True)' in unparse(dc), '_delete_cached: not unlink(missing_ok=True)')
