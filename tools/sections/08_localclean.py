"""C08: what the local backend's post-deletion clean-up (`Local.clean` and everything it reaches inside backends/local.py) can do
to the directory tree — read from the AST, semantically rather than by exact shape, so that harmless rewrites keep the facts.

`Repository.clean` runs `backend.clean()` after it deleted unreferenced chunks; on `Local` that walks the WHOLE repository
directory, foreign objects included.  `ReplicatModel/LocalClean.lean` models the walk as a sequence of `rmdir`s and is valid only
while these facts hold; `Properties/C08.lean` (`local_clean_keeps_files` …) discharges them by `decide`:

* `localCleanFileRemovers` — dotted names of the calls, in `Local.clean` and in every function of local.py reachable from it
  (`self.<method>(…)`, `Local.<method>(…)`, module-level functions), that can remove / replace / rewrite a FILE
  (`unlink`, `remove`, `rmtree`, `replace`, `rename(s)`, `move`, `truncate`, `write_bytes`, `write_text`, `copy*` onto, `open` for
  writing, process spawning).  Expected: `[]`.
* `localCleanDirRemovers` — the calls that remove a directory (`rmdir`, `removedirs`).  Expected: non-empty (`os.rmdir`).
* `localCleanNonDirFlags` — the values the "deletable" flag can take for an entry that is NOT a directory: in the reachable
  generator that yields `(entry, flag)` pairs, every assignment to the flag variable (or constant yielded in its place) in the
  branches that are alternatives of the `….is_dir()` test.  Expected: `["False"]`.  Not recognised → `["?"]`.
* `backendCleanupCallers` — the `Repository` methods that run the backend clean-up (`self._clean(…)` / `_clean_threadsafe`).
  Expected: `["clean"]` (informational: the harness counts how often the clean-up really ran).
"""
import ast
import json

FILE_REMOVERS = {'unlink', 'remove', 'rmtree', 'replace', 'rename', 'renames', 'move', 'truncate', 'write_bytes', 'write_text', 'copy', 'copy2', 'copyfile',
                 'copyfileobj', 'copytree', 'system', 'run', 'Popen', 'call', 'check_call', 'check_output', 'touch', 'symlink', 'link', 'symlink_to', 'hardlink_to',
                 'NamedTemporaryFile', 'mkstemp', 'chmod', 'chown', 'utime', 'ftruncate'}
DIR_REMOVERS = {'rmdir', 'removedirs'}


def _callee(ctx, call):
    try:
        return ctx.unparse(call.func)
    except Exception:  # noqa: BLE001
        return '?'


def _last(name):
    return name.rsplit('.', 1)[-1]


def _opens_for_writing(ctx, call):
    if _last(_callee(ctx, call)) != 'open':
        return False
    mode = None
    args = list(call.args)
    # open(path, mode) / path.open(mode) / os.open(path, flags)
    cal = _callee(ctx, call)
    if cal == 'os.open':
        return True
    idx = 1 if cal in ('open', 'io.open') else 0
    if len(args) > idx:
        mode = args[idx]
    for kw in call.keywords:
        if kw.arg == 'mode':
            mode = kw.value
    if mode is None:
        return False
    if isinstance(mode, ast.Constant) and isinstance(mode.value, str):
        return any(c in mode.value for c in 'wax+')
    return True


def _reachable(ctx, tree, cls, start):
    """function nodes of local.py reachable from `start` through self.<m>() / <Class>.<m>() / module-level f()"""
    methods = {n.name: n for n in cls.body if isinstance(n, (ast.FunctionDef, ast.AsyncFunctionDef))}
    module_fns = {n.name: n for n in tree.body if isinstance(n, (ast.FunctionDef, ast.AsyncFunctionDef))}
    seen, todo = {}, [start]
    while todo:
        fn = todo.pop()
        if fn.name in seen:
            continue
        seen[fn.name] = fn
        for node in ast.walk(fn):
            target = None
            if isinstance(node, ast.Call):
                f = node.func
                if isinstance(f, ast.Attribute) and isinstance(f.value, ast.Name) and f.value.id in ('self', 'cls', cls.name) and f.attr in methods:
                    target = methods[f.attr]
                elif isinstance(f, ast.Name) and f.id in module_fns:
                    target = module_fns[f.id]
            elif isinstance(node, ast.Attribute) and isinstance(node.value, ast.Name) and node.value.id in ('self', 'cls', cls.name) and node.attr in methods:
                target = methods[node.attr]          # a method handed over as a value (map / executor)
            if target is not None and target.name not in seen:
                todo.append(target)
    return list(seen.values())


def _mentions_is_dir(ctx, test):
    return any(isinstance(n, ast.Call) and _last(_callee(ctx, n)) == 'is_dir' for n in ast.walk(test))


def _blocks(fn):
    """every statement list inside `fn` (bodies, else-branches, handlers, …)"""
    for node in ast.walk(fn):
        for field in ('body', 'orelse', 'finalbody'):
            b = getattr(node, field, None)
            if isinstance(b, list) and b and isinstance(b[0], ast.stmt):
                yield b


def _nondir_flags(ctx, fns):
    """→ sorted list of unparsed flag values for non-directory entries, or None when no (entry, flag) generator is recognised"""
    for fn in fns:
        flags = set()
        for node in ast.walk(fn):
            if isinstance(node, ast.Yield) and isinstance(node.value, ast.Tuple) and len(node.value.elts) == 2 and isinstance(node.value.elts[1], ast.Name):
                flags.add(node.value.elts[1].id)
        if not flags:
            continue
        values, found = set(), False

        def collect(stmts):
            for s in stmts:
                for n in ast.walk(s):
                    if isinstance(n, ast.Assign) and any(isinstance(t, ast.Name) and t.id in flags for t in n.targets):
                        values.add(ctx.unparse(n.value))
                    elif isinstance(n, (ast.AugAssign, ast.AnnAssign)) and isinstance(n.target, ast.Name) and n.target.id in flags:
                        values.add('?')
                    elif isinstance(n, ast.NamedExpr) and n.target.id in flags:
                        values.add('?')
        for block in _blocks(fn):
            for i, node in enumerate(block):
                if isinstance(node, ast.If) and _mentions_is_dir(ctx, node.test):
                    neg = isinstance(node.test, ast.UnaryOp) and isinstance(node.test.op, ast.Not)
                    found = True
                    alt = node.body if neg else node.orelse
                    collect(alt)
                    assigned_in_alt = any(isinstance(n, ast.Assign) and any(isinstance(t, ast.Name) and t.id in flags for t in n.targets)
                                          for s in alt for n in ast.walk(s))
                    if not assigned_in_alt:
                        # no assignment in the alternative: a non-directory keeps the value the flag got in the statements before the test
                        before = [n for n in block[:i] if isinstance(n, ast.Assign) and any(isinstance(t, ast.Name) and t.id in flags for t in n.targets)]
                        values.add(ctx.unparse(before[-1].value) if before else '?')
        if found:
            return sorted(values) or ['?']
    return None


def _lean_list(xs):
    return '[' + ', '.join(json.dumps(x) for x in xs) + ']'


def section(ctx):
    src = (ctx.REPO / 'replicat' / 'backends' / 'local.py').read_text()
    tree = ast.parse(src)
    cls = ctx.find_func(tree, 'Local')
    clean = ctx.find_func(tree, 'Local', 'clean') if cls is not None else None
    if cls is None or clean is None:
        ctx.notes['localclean'] = 'Local.clean not found'
        ctx.emit('def localCleanFileRemovers : List String := ["?"]')
        ctx.emit('def localCleanDirRemovers : List String := []')
        ctx.emit('def localCleanNonDirFlags : List String := ["?"]')
    else:
        fns = _reachable(ctx, tree, cls, clean)
        for fn in fns:
            ctx.fp('local.' + fn.name, fn)
        file_rm, dir_rm = set(), set()
        for fn in fns:
            for node in ast.walk(fn):
                if isinstance(node, ast.Call):
                    name = _callee(ctx, node)
                    if _last(name) in FILE_REMOVERS or _opens_for_writing(ctx, node):
                        file_rm.add(name)
                    elif _last(name) in DIR_REMOVERS:
                        dir_rm.add(name)
                elif isinstance(node, ast.Delete):
                    pass
        flags = _nondir_flags(ctx, fns)
        if flags is None:
            ctx.notes['localclean.flags'] = 'no (entry, flag) generator with an is_dir() test recognised below Local.clean'
            flags = ['?']
        ctx.notes['localclean.reachable'] = sorted(fn.name for fn in fns)
        ctx.emit(f'def localCleanFileRemovers : List String := {_lean_list(sorted(file_rm))}')
        ctx.emit(f'def localCleanDirRemovers : List String := {_lean_list(sorted(dir_rm))}')
        ctx.emit(f'def localCleanNonDirFlags : List String := {_lean_list(flags)}')
    # who runs the backend clean-up
    rsrc = (ctx.REPO / 'replicat' / 'repository.py').read_text()
    rtree = ast.parse(rsrc)
    rcls = ctx.find_func(rtree, 'Repository')
    callers = set()
    if rcls is not None:
        for fn in rcls.body:
            if isinstance(fn, (ast.FunctionDef, ast.AsyncFunctionDef)) and fn.name not in ('_clean', '_clean_threadsafe'):
                for node in ast.walk(fn):
                    if isinstance(node, ast.Attribute) and node.attr in ('_clean', '_clean_threadsafe') or \
                            (isinstance(node, ast.Attribute) and node.attr == 'clean' and ctx.unparse(node.value).endswith('backend')):
                        callers.add(fn.name)
    ctx.emit(f'def backendCleanupCallers : List String := {_lean_list(sorted(callers))}')
