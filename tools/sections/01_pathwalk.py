"""C01 (path walk): the facts `lean/ReplicatModel/PathWalk.lean` and its theorems consume, read from the AST of
`replicat/utils/fs.py` (`iterative_scandir`, `flatten_paths`) and `replicat/repository.py` (`_flatten_resolve_paths`, the sort in
`snapshot`).

Emitted into `Replicat.Gen` (unrecognised shape → `false` / `"other"` plus a note, or `opaque` when there is no safe default):
  `pwWalkFollow : Bool`   effective `follow_symlinks` of BOTH tests `entry.is_dir(...)` / `entry.is_file(...)` for the call made by
                          `flatten_paths` (parameter passed through → the call-site constant; a constant in the test → that constant)
  `pwLifo : Bool`         `stack.pop()` (true) / `stack.pop(0)` (false); anything else → opaque
  `pwDirTestFirst : Bool` the `if` tests is_dir and the `elif` tests is_file (recorded; the two tests are disjoint)
  `pwYieldsEntry : Bool`  the directory branch appends the ENTRY to the stack, the file branch (and only it) yields the ENTRY
  `pwArgShape : Bool`     flatten_paths: `if path.is_dir(): yield from map(Path, iterative_scandir(path, …)) elif path.is_file(): yield path`, no else
  `pwStrict : Bool`       `_flatten_resolve_paths` resolves every argument with `resolve(strict=True)`
  `pwDedup : Bool`        it returns `list(dict.fromkeys(<flattened>))` (true) / `list(<flattened>)` (false)
  `pwSortKey : List String`  the key tuple of `files.sort(...)` in `snapshot`: "size" = `<v>.stat().st_size`, "str" = `str(<v>)`,
                          "other"; a `reverse=` keyword adds "reversed"
"""
import ast


def _b(x):
    return 'true' if x else 'false'


def _kwconst(call, name):
    for k in call.keywords:
        if k.arg == name:
            return k.value
    return None


def _entry_test(node):
    """`X.is_dir(follow_symlinks=E)` -> ('is_dir', 'X', E-node) else None"""
    if (isinstance(node, ast.Call) and isinstance(node.func, ast.Attribute) and node.func.attr in ('is_dir', 'is_file')
            and isinstance(node.func.value, ast.Name) and not node.args):
        return node.func.attr, node.func.value.id, _kwconst(node, 'follow_symlinks')
    return None


def section(ctx):
    notes = ctx.notes
    fs_tree = ast.parse((ctx.REPO / 'replicat' / 'utils' / 'fs.py').read_text())
    repo_tree = ast.parse((ctx.REPO / 'replicat' / 'repository.py').read_text())
    funcs = {n.name: n for n in fs_tree.body if isinstance(n, ast.FunctionDef)}
    scandir, flatten = funcs.get('iterative_scandir'), funcs.get('flatten_paths')

    # ---- iterative_scandir
    lifo = None
    dir_first = yields_entry = False
    test_follow = {}          # 'is_dir' -> ('param', name) | ('const', bool) | None
    param = None
    if scandir is not None:
        kwonly = [a.arg for a in scandir.args.kwonlyargs] + [a.arg for a in scandir.args.args[1:]]
        param = 'follow_symlinks' if 'follow_symlinks' in kwonly else None
        pops = [n for n in ast.walk(scandir) if isinstance(n, ast.Call) and isinstance(n.func, ast.Attribute) and n.func.attr == 'pop']
        if len(pops) == 1 and not pops[0].keywords:
            if not pops[0].args:
                lifo = True
            elif len(pops[0].args) == 1 and isinstance(pops[0].args[0], ast.Constant) and pops[0].args[0].value == 0:
                lifo = False
            elif len(pops[0].args) == 1 and isinstance(pops[0].args[0], ast.UnaryOp) and ast.unparse(pops[0].args[0]) == '-1':
                lifo = True
        stack_name = pops[0].func.value.id if len(pops) == 1 and isinstance(pops[0].func.value, ast.Name) else None
        ifs = [n for n in ast.walk(scandir) if isinstance(n, ast.If) and _entry_test(n.test)]
        outer = [n for n in ifs if not any(n in o.orelse for o in ifs)]
        if len(outer) == 1:
            i1 = outer[0]
            t1 = _entry_test(i1.test)
            i2 = i1.orelse[0] if len(i1.orelse) == 1 and isinstance(i1.orelse[0], ast.If) else None
            t2 = _entry_test(i2.test) if i2 is not None else None
            if t2 is not None and not i2.orelse and t1[1] == t2[1] and {t1[0], t2[0]} == {'is_dir', 'is_file'}:
                dir_first = t1[0] == 'is_dir'
                branch = {t1[0]: i1.body, t2[0]: i2.body}
                ev = t1[1]
                d, f = branch['is_dir'], branch['is_file']
                ok_d = (len(d) == 1 and isinstance(d[0], ast.Expr) and isinstance(d[0].value, ast.Call)
                        and ast.unparse(d[0].value) == f'{stack_name}.append({ev})')
                ok_f = (len(f) == 1 and isinstance(f[0], ast.Expr) and isinstance(f[0].value, ast.Yield)
                        and f[0].value.value is not None and ast.unparse(f[0].value.value) == ev)
                n_yield = sum(isinstance(n, (ast.Yield, ast.YieldFrom)) for n in ast.walk(scandir))
                yields_entry = ok_d and ok_f and n_yield == 1
                for t in (t1, t2):
                    v = t[2]
                    if isinstance(v, ast.Name) and v.id == param:
                        test_follow[t[0]] = ('param', None)
                    elif isinstance(v, ast.Constant) and isinstance(v.value, bool):
                        test_follow[t[0]] = ('const', v.value)
                    elif v is None:
                        test_follow[t[0]] = ('const', True)       # default of DirEntry.is_dir / is_file
                    else:
                        test_follow[t[0]] = None

    # ---- flatten_paths
    arg_shape = False
    call_follow = None
    if flatten is not None:
        calls = [n for n in ast.walk(flatten) if isinstance(n, ast.Call) and isinstance(n.func, ast.Name) and n.func.id == 'iterative_scandir']
        if len(calls) == 1:
            v = _kwconst(calls[0], 'follow_symlinks')
            if v is None:
                dflt = None
                if scandir is not None:
                    for a, dv in zip(scandir.args.kwonlyargs, scandir.args.kw_defaults):
                        if a.arg == 'follow_symlinks' and isinstance(dv, ast.Constant):
                            dflt = dv.value
                call_follow = dflt if isinstance(dflt, bool) else None
            elif isinstance(v, ast.Constant) and isinstance(v.value, bool):
                call_follow = v.value
        fors = [n for n in flatten.body if isinstance(n, ast.For)]
        if len(fors) == 1 and len(flatten.body) == 1:
            ifs = [n for n in fors[0].body if isinstance(n, ast.If)]
            if len(ifs) == 1:
                i1 = ifs[0]
                i2 = i1.orelse[0] if len(i1.orelse) == 1 and isinstance(i1.orelse[0], ast.If) else None
                if i2 is not None and not i2.orelse:
                    t1, t2 = ast.unparse(i1.test), ast.unparse(i2.test)
                    var = t1.split('.')[0]
                    b1 = ast.unparse(i1.body[0]) if len(i1.body) == 1 else ''
                    b2 = ast.unparse(i2.body[0]) if len(i2.body) == 1 else ''
                    walk_ok = b1.startswith('yield from map(Path, iterative_scandir(' + var)
                    arg_shape = ((t1, t2) == (f'{var}.is_dir()', f'{var}.is_file()') and walk_ok and b2 == f'yield {var}') or \
                                ((t1, t2) == (f'{var}.is_file()', f'{var}.is_dir()') and b1 == f'yield {var}'
                                 and b2.startswith('yield from map(Path, iterative_scandir(' + var))

    follow = None
    if set(test_follow) == {'is_dir', 'is_file'} and all(test_follow.values()):
        eff = []
        for k in ('is_dir', 'is_file'):
            kind, val = test_follow[k]
            eff.append(call_follow if kind == 'param' else val)
        if eff[0] is not None and eff[0] == eff[1]:
            follow = eff[0]

    ctx.emit('/-- path walk facts (tools/sections/01_pathwalk.py) -/')
    if follow is None:
        notes['pathwalk.follow'] = 'follow_symlinks of entry.is_dir / entry.is_file not recognised (or different for the two tests)'
        ctx.emit('opaque pwWalkFollow : Bool')
    else:
        ctx.emit(f'def pwWalkFollow : Bool := {_b(follow)}')
    if lifo is None:
        notes['pathwalk.lifo'] = 'stack discipline of iterative_scandir not recognised (exactly one pop() / pop(0) expected)'
        ctx.emit('opaque pwLifo : Bool')
    else:
        ctx.emit(f'def pwLifo : Bool := {_b(lifo)}')
    ctx.emit(f'def pwDirTestFirst : Bool := {_b(dir_first)}')
    ctx.emit(f'def pwYieldsEntry : Bool := {_b(yields_entry)}')
    ctx.emit(f'def pwArgShape : Bool := {_b(arg_shape)}')
    if not yields_entry:
        notes['pathwalk.yields'] = 'iterative_scandir: not the shape `if is_dir: stack.append(entry) elif is_file: yield entry`'
    if not arg_shape:
        notes['pathwalk.arg_shape'] = 'flatten_paths: not the shape dir → walk / file → itself / neither → skipped'

    # ---- Repository._flatten_resolve_paths
    strict = dedup = False
    fr = ctx.find_func(repo_tree, 'Repository', '_flatten_resolve_paths')
    if fr is not None:
        res = [n for n in ast.walk(fr) if isinstance(n, ast.Call) and isinstance(n.func, ast.Attribute) and n.func.attr == 'resolve']
        strict = bool(res) and all(isinstance(_kwconst(c, 'strict'), ast.Constant) and _kwconst(c, 'strict').value is True for c in res)
        flat_vars = set()
        for st in fr.body:
            if isinstance(st, ast.Assign) and isinstance(st.value, ast.Call) and ast.unparse(st.value.func) == 'flatten_paths':
                flat_vars.update(t.id for t in st.targets if isinstance(t, ast.Name))
        rets = [n for n in ast.walk(fr) if isinstance(n, ast.Return)]
        if len(rets) == 1 and rets[0].value is not None:
            r = ast.unparse(rets[0].value)
            if any(r == f'list(dict.fromkeys({v}))' for v in flat_vars):
                dedup = True
            elif not any(r == f'list({v})' for v in flat_vars):
                notes['pathwalk.dedup'] = f'return of _flatten_resolve_paths not recognised: {r}'
    ctx.emit(f'def pwStrict : Bool := {_b(strict)}')
    ctx.emit(f'def pwDedup : Bool := {_b(dedup)}')

    # ---- the sort in snapshot
    key = ['other']
    sn = ctx.find_func(repo_tree, 'Repository', 'snapshot')
    if sn is not None:
        sorts = [n for n in ast.walk(sn) if isinstance(n, ast.Call) and isinstance(n.func, ast.Attribute) and n.func.attr == 'sort'
                 and isinstance(n.func.value, ast.Name) and n.func.value.id == 'files']
        if len(sorts) == 1:
            k = _kwconst(sorts[0], 'key')
            if isinstance(k, ast.Lambda) and len(k.args.args) == 1:
                v = k.args.args[0].arg
                parts = k.body.elts if isinstance(k.body, ast.Tuple) else [k.body]
                key = []
                for p in parts:
                    s = ast.unparse(p)
                    key.append('size' if s == f'{v}.stat().st_size' else 'str' if s == f'str({v})' else 'other')
            if any(kw.arg == 'reverse' for kw in sorts[0].keywords):
                key.append('reversed')
            if sorts[0].args:
                key.append('other')
    ctx.emit('def pwSortKey : List String := [' + ', '.join('"%s"' % x for x in key) + ']')
    if key != ['size', 'str']:
        notes['pathwalk.sort_key'] = f'sort key of snapshot is not (st_size, str(path)): {key}'
    for name, node in (('fs.iterative_scandir', scandir), ('fs.flatten_paths', flatten), ('Repository._flatten_resolve_paths', fr)):
        if node is not None:
            try:
                ctx.fp(name, node)
            except Exception:
                pass
