"""C11: WHERE the adapter loop takes its cut positions from (`gclmulchunker.__call__`, replicat/utils/adapters.py).

C11 ("cuts after a boundary are a function of the content after that boundary") holds for the loop because every cut position is
the value of the native `next_cut(buffer, final)` on the CURRENT buffer (`Chunker.lean::drain`).  A position computed in Python —
from the previous chunk, a remembered length, a counter — makes a cut depend on the history before the boundary (low-entropy
fast paths: "the run of identical data goes on, cut at the forced length again").

`__call__` is EXECUTED symbolically (tools/symflow.py): locals are replaced by what they stand for, helper methods / static methods /
nested or module-level functions and generator helpers used with `yield from` or iterated are inlined, conditional expressions and
early exits are normalised, `for … in iter(callable, sentinel)` and walrus loops are understood.  The facts are then read from the
event list, so they do not depend on names of locals or helpers, on where the code lives or on how the loop is spelt:

* the BUFFER is whatever reaches the first argument of a `next_cut` call (through `memoryview(…)` / `bytes(…)` / `bytearray(…)`);
* a CUT is a bound of a slice of (something that contains) the buffer, in any event: `yield bytes(buffer[:pos])`, `del buffer[:pos]`,
  `buffer = buffer[pos:]`, …; in addition every `yield` must hand out such a slice (a chunk that is not cut off the buffer — the
  incoming piece itself, a remembered block — is listed);
* a cut is NATIVE iff its value is (through `int(…)`, conditional expressions, the neutral `0` / `None` / `False`) a `next_cut` call
  on exactly the buffer that is sliced, made in the SAME iteration of all enclosing loops as the slice and with no `del` of the
  buffer between the call and the use.  A value carried from an earlier iteration (`last = pos`), a `next_cut` result computed
  before the loop and reused after the buffer was shortened, anything computed in Python is NOT native.

Emitted (consumed by `ChunkerSync.lean::adapterRule` and `C11.adapter_cuts_native_only`):

* `adapterCutsNotFromNextCut : List String` — the cuts (as text of the resolved value) that are not native.  Empty for the loop
  this model mirrors.
* `adapterNextCutOnCurrentBuffer : Bool` — every `next_cut` call gets the reassembly buffer itself as its first argument, not a
  part (`buffer[:n]`) of it.
* `adapterCutAssignments : Nat` — how many distinct cut values were inspected (0 would mean: nothing recognised).

If there is no `next_cut` call or no slice of its buffer, the facts are emitted `opaque` and the dependent theorem stops compiling
instead of assuming.
"""
import ast
import json

import symflow as sf

_WRAPPERS = {'memoryview', 'bytes', 'bytearray'}
_MUTATORS = {'clear', 'pop', 'extend', 'append', 'insert', 'remove', 'reverse', '__iadd__', '__delitem__', '__setitem__'}


def _lean_str(s):
    return json.dumps(' '.join(s.split())[:120], ensure_ascii=True)   # JSON escapes (\\", \\\\, \\uXXXX) are Lean string escapes too


def _strip(t):
    while t[0] == 'call' and t[1][0] == 'global' and t[1][1] in _WRAPPERS and len(t[2]) == 1 and not t[3]:
        t = t[2][0]
    return t


def _is_next_cut(t):
    return isinstance(t, tuple) and t and t[0] == 'call' and t[1][0] == 'attr' and t[1][2] == 'next_cut'


def _loops(ctx):
    return tuple(c[1] for c in ctx if c[0] in ('for', 'while', 'comp', 'unrolled'))


def _short(t):
    s = sf.show(t)
    return s if len(s) <= 100 else s[:97] + '...'


def analyse_source(source, cls='gclmulchunker', fn='__call__'):
    """-> (foreign cut sources, next_cut on the buffer itself?, cut values inspected) or None if not recognised"""
    mod = sf.Module(source)
    if cls not in mod.classes:
        return None
    interp = sf.Interp(mod, cls)
    try:
        evs, _ = interp.run(fn)
    except sf.TooBig:
        return None
    if evs is None:
        return None
    cut_calls = [e for e in evs if e.kind == 'call' and _is_next_cut(e.value) and not e.inside('deferred')]
    if not cut_calls or any(not e.args for e in cut_calls):
        return None
    bufs = {_strip(e.args[0]) for e in cut_calls}
    direct = all(not sf.contains(b, lambda s: s[0] in ('sub', 'slice')) for b in bufs)
    atoms = set(bufs)
    for b in bufs:
        atoms |= {s for s in sf.subterms(b) if s[0] == 'carried'}

    def on_buffer(t):
        return sf.contains(t, lambda s: s in atoms)

    # events that `iter(callable, sentinel)` emits for the callable belong to the iteration of that loop
    extra_loop = {}
    for lid, loop in interp.loops.items():
        if loop.kind != 'iter-sentinel':
            continue
        inside = [e.seq for e in evs if ('for', lid) in [c[:2] for c in e.ctx]]
        if not inside:
            continue
        first = min(inside)
        start = max([e.seq for e in evs if e.seq < first and e.kind == 'call' and e.callee == ('global', 'iter')] or [first])
        for e in evs:
            if start < e.seq < first:
                extra_loop[e.seq] = lid

    def loops_of(e):
        ls = _loops(e.ctx)
        return ls + (extra_loop[e.seq],) if e.seq in extra_loop else ls

    def mutation_between(lo, hi):
        for e in evs:
            if not lo < e.seq < hi:
                continue
            if e.kind == 'delete' and on_buffer(e.value):
                return True
            if e.kind == 'store' and on_buffer(e.value):
                return True
            if e.kind == 'call' and e.callee[0] == 'attr' and e.callee[2] in _MUTATORS and _strip(e.callee[1]) in bufs:
                return True
        return False

    def carried_native(v, base, use):
        lid, name = v[1], v[2]
        loop = interp.loops.get(lid)
        if loop is None or loops_of(use)[-1:] != (lid,):
            return False
        ini, nxt = loop.init.get(name), loop.next.get(name)
        for t in (ini, nxt):
            if t is None or not _is_next_cut(t) or not t[2] or _strip(t[2][0]) != base:
                return False
        body = [e.seq for e in evs if lid in _loops(e.ctx)]
        if not body:
            return False
        lo, hi = min(body), max(body)
        c0 = [e for e in cut_calls if e.value == ini and e.seq < lo]
        c1 = [e for e in cut_calls if e.value == nxt and lo <= e.seq <= hi and loops_of(e) == loops_of(use)]
        if not c0 or not c1 or loops_of(c0[-1]) != loops_of(use)[:-1]:
            return False
        return not (mutation_between(c0[-1].seq, use.seq) or mutation_between(lo - 1, use.seq) or mutation_between(c1[-1].seq, hi + 1))

    foreign, seen = [], set()

    def classify(v, base, use):
        if sf.is_const(v) and v[1] in (0, None, False):
            return
        if v[0] == 'phi':
            classify(v[2], base, use)
            classify(v[3], base, use)
            return
        if v[0] == 'join':
            for a in v[2]:
                classify(a, base, use)
            return
        if v[0] == 'call' and v[1] == ('global', 'int') and len(v[2]) == 1 and not v[3]:
            classify(v[2][0], base, use)
            return
        seen.add(v)
        if v[0] == 'carried':
            # `n = next_cut(buf); while n: …use n…; n = next_cut(buf)`: the value enters every iteration fresh from a call that
            # nothing separates from the use
            if not carried_native(v, base, use):
                foreign.append(f'{v[2]} (carried over from an earlier iteration)')
            return
        if _is_next_cut(v):
            if not v[2] or _strip(v[2][0]) != base:
                foreign.append(f'next_cut on another buffer than the one sliced: {_short(v)}')
                return
            made = [e for e in cut_calls if e.value == v and e.seq < use.seq]
            if not made:
                foreign.append(f'next_cut value used before / without its call: {_short(v)}')
                return
            c = made[-1]
            if loops_of(c) != loops_of(use):
                foreign.append(f'next_cut value from another iteration: {_short(v)}')
            elif mutation_between(c.seq, use.seq):
                foreign.append(f'buffer shortened between next_cut and the use of its value: {_short(v)}')
            return
        foreign.append(_short(v))

    def slices_in(e):
        vals = [e.value] + ([e.extra] if e.kind == 'store' and isinstance(e.extra, tuple) else [])
        return [s for val in vals for s in sf.subterms(val) if s[0] == 'sub' and s[2][0] == 'slice' and on_buffer(s[1])]

    def evaluates_slice(e):
        # does the statement / expression of this event spell a slice itself (or only mention a value that was sliced earlier)?
        return e.node is None or any(isinstance(n, ast.Slice) for n in ast.walk(e.node))

    live = [e for e in evs if not e.inside('deferred')]
    first_use = {}
    for e in live:
        for s in slices_in(e):
            if s not in first_use or (not evaluates_slice(first_use[s]) and evaluates_slice(e)):
                first_use[s] = e
    nslices = 0
    for e in live:
        for s in slices_in(e):
            use = e if evaluates_slice(e) else first_use[s]
            base = _strip(s[1])
            for bound in (s[2][1], s[2][2]):
                if bound != sf.NONE:
                    nslices += 1
                    classify(bound, base, use)
        if e.kind == 'yield':
            y = _strip(e.value)
            if not (y[0] == 'sub' and y[2][0] == 'slice' and on_buffer(y[1])):
                foreign.append(f'yield of something that is not cut off the buffer: {_short(e.value)}')
    if not nslices:
        return None
    return sorted(set(foreign)), direct, len(seen)


def section(ctx):
    asrc = (ctx.REPO / 'replicat' / 'utils' / 'adapters.py').read_text()
    res = analyse_source(asrc)
    if res is None:
        ctx.emit('opaque adapterCutsNotFromNextCut : List String')
        ctx.emit('opaque adapterNextCutOnCurrentBuffer : Bool')
        ctx.emit('def adapterCutAssignments : Nat := 0')
        ctx.notes['adapter.cut_source'] = 'gclmulchunker.__call__: no next_cut call / no slice of its buffer recognised'
        return
    foreign, direct, inspected = res
    ctx.emit('def adapterCutsNotFromNextCut : List String := [' + ', '.join(_lean_str(x) for x in foreign) + ']')
    ctx.emit(f'def adapterNextCutOnCurrentBuffer : Bool := {"true" if direct else "false"}')
    ctx.emit(f'def adapterCutAssignments : Nat := {inspected}')
    if foreign or not direct:
        ctx.notes['adapter.cut_source'] = (f'cut positions not taken from next_cut(buffer, …): {foreign}' if foreign else
                                           'next_cut is not called on the sliced buffer itself')
