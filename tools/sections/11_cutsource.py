"""C11: WHERE the adapter loop takes its cut positions from, read from the AST of `gclmulchunker.__call__`.

C11 ("cuts after a boundary are a function of the content after that boundary") holds for the loop because every cut position is
the value of the native `next_cut(buffer, final)` on the CURRENT buffer (`Chunker.lean::drain`).  A position computed in Python —
from the previous chunk, a remembered length, a counter — makes a cut depend on the history before the boundary (low-entropy
fast paths: "the run of identical data goes on, cut at the forced length again").

Emitted (consumed by `ChunkerSync.lean::adapterRule` and `C11.adapter_cuts_native_only`):

* `adapterCutsNotFromNextCut : List String` — the right-hand sides (source text) that can reach a slice bound of the reassembly
  buffer (`buffer[:pos]`, `del buffer[:pos]`, `buffer = buffer[pos:]`, …) and are NOT a call `<obj>.next_cut(<buffer>, …)`;
  aliases (`pos = p`), conditional expressions, walrus assignments and `int(...)` wrappers are followed, the neutral initialisers
  `0` / `None` / `False` ("no cut") are ignored; an alias cycle (`last = pos … pos = last`) is a position carried over from an
  EARLIER cut, i.e. from an earlier buffer, and is listed.  Empty for the loop this model mirrors.
* `adapterNextCutOnCurrentBuffer : Bool` — every `next_cut` call gets the sliced buffer itself (a plain name, or
  `memoryview(name)` / `bytes(name)` of it) as its first argument, not a part or an older copy of it.
* `adapterCutAssignments : Nat` — how many bindings of the cut variable(s) were inspected (0 would mean: nothing recognised).

No text matching: the buffer is whatever is passed to `next_cut`, the cut variables are whatever names occur in a slice bound of
that buffer.  If there is no `next_cut` call or no slice of its buffer, the facts are emitted `opaque` and the dependent theorem
stops compiling instead of assuming.
"""
import ast
import json

_NEUTRAL = (0, None, False)
_WRAPPERS = {'int', 'bool', 'memoryview', 'bytes', 'bytearray'}


def _names(node):
    return {n.id for n in ast.walk(node) if isinstance(n, ast.Name)}


def _lean_str(s):
    return json.dumps(' '.join(s.split())[:120], ensure_ascii=True)   # JSON escapes (\\", \\\\, \\uXXXX) are Lean string escapes too


def _is_next_cut(node):
    return isinstance(node, ast.Call) and isinstance(node.func, ast.Attribute) and node.func.attr == 'next_cut'


def _bindings(fn, name):
    """values bound to `name` anywhere in fn (nested functions included): [(kind, value node or None)]"""
    out = []
    for n in ast.walk(fn):
        if isinstance(n, ast.Assign):
            for t in n.targets:
                if isinstance(t, ast.Name) and t.id == name:
                    out.append(('assign', n.value))
                elif isinstance(t, (ast.Tuple, ast.List)) and name in _names(t):
                    out.append(('unpack', n.value))
        elif isinstance(n, ast.AnnAssign) and isinstance(n.target, ast.Name) and n.target.id == name and n.value is not None:
            out.append(('assign', n.value))
        elif isinstance(n, ast.AugAssign) and isinstance(n.target, ast.Name) and n.target.id == name:
            out.append(('augmented', n))
        elif isinstance(n, ast.NamedExpr) and n.target.id == name:
            out.append(('assign', n.value))
        elif isinstance(n, (ast.For, ast.AsyncFor, ast.comprehension)) and name in _names(n.target):
            out.append(('loop', n.iter))
        elif isinstance(n, ast.withitem) and n.optional_vars is not None and name in _names(n.optional_vars):
            out.append(('with', n.context_expr))
        elif isinstance(n, (ast.FunctionDef, ast.AsyncFunctionDef, ast.Lambda)):
            a = n.args
            if name in [x.arg for x in a.posonlyargs + a.args + a.kwonlyargs] and n is not fn:
                out.append(('parameter', None))
    return out


def analyse(call):
    """-> (foreign right-hand sides, next_cut on the current buffer?, bindings inspected) or None if not recognised"""
    cuts = [n for n in ast.walk(call) if _is_next_cut(n)]
    if not cuts:
        return None
    bufs, direct = set(), True
    for c in cuts:
        if not c.args:
            return None
        a = c.args[0]
        while isinstance(a, ast.Call) and isinstance(a.func, ast.Name) and a.func.id in ('memoryview', 'bytes') and len(a.args) == 1:
            a = a.args[0]
        if isinstance(a, ast.Name):
            bufs.add(a.id)
        else:
            direct = False
            bufs |= _names(a)
    cutvars = set()
    for n in ast.walk(call):
        if isinstance(n, ast.Subscript) and isinstance(n.slice, ast.Slice) and _names(n.value) & bufs:
            for bound in (n.slice.lower, n.slice.upper):
                if bound is not None:
                    if isinstance(bound, ast.Constant):
                        continue
                    cutvars |= _names(bound) - {'self', 'len'} - bufs
    if not cutvars:
        return None
    foreign, inspected, done = [], 0, set()

    def classify(v, chain):
        if v is None:
            return
        if isinstance(v, ast.Constant) and v.value in _NEUTRAL and type(v.value) in (int, bool, type(None)):
            return
        if isinstance(v, ast.IfExp):
            classify(v.body, chain)
            classify(v.orelse, chain)
            return
        if isinstance(v, ast.NamedExpr):
            classify(v.value, chain)
            return
        if isinstance(v, ast.Call) and isinstance(v.func, ast.Name) and v.func.id in ('int',) and len(v.args) == 1 and not v.keywords:
            classify(v.args[0], chain)
            return
        if isinstance(v, ast.Name):
            if v.id in chain:
                # `last = pos … pos = last`: a position carried over from an EARLIER cut (an earlier buffer), not next_cut on this one
                foreign.append(f'{chain[-1]} = {v.id} (carried over from an earlier cut)')
            else:
                resolve(v.id, chain)
            return
        if _is_next_cut(v):
            return
        foreign.append(ast.unparse(v))

    def resolve(name, chain):
        nonlocal inspected
        if name in done:
            return
        bs = _bindings(call, name)
        if not bs:
            # a name that is never bound inside the function (an attribute holder, a global): not a cut computed by next_cut
            foreign.append(name)
        for kind, v in bs:
            inspected += 1
            if kind == 'assign':
                classify(v, chain + [name])
            elif kind == 'augmented':
                foreign.append(ast.unparse(v))
            else:
                foreign.append(f'{kind}: {ast.unparse(v) if v is not None else name}')
        done.add(name)

    for name in sorted(cutvars):
        resolve(name, [])
    return sorted(set(foreign)), direct, inspected


def section(ctx):
    asrc = (ctx.REPO / 'replicat' / 'utils' / 'adapters.py').read_text()
    call = ctx.find_func(ast.parse(asrc), 'gclmulchunker', '__call__')
    res = analyse(call) if call is not None else None
    if res is None:
        ctx.emit('opaque adapterCutsNotFromNextCut : List String')
        ctx.emit('opaque adapterNextCutOnCurrentBuffer : Bool')
        ctx.emit('def adapterCutAssignments : Nat := 0')
        ctx.notes['adapter.cut_source'] = 'gclmulchunker.__call__: no next_cut call / no slice of its buffer recognised'
        return
    foreign, direct, inspected = res
    ctx.emit('def adapterCutsNotFromNextCut : List String := [' + ', '.join(_lean_str(x) for x in foreign) + ']')
    ctx.emit(f'def adapterNextCutOnCurrentBuffer : Bool := {"true" if direct else "false"}')
    ctx.emit(f'def adapterCutAssignments : Nat := {inspected}')
    if foreign or not direct:
        ctx.notes['adapter.cut_source'] = (f'cut positions not taken from next_cut(buffer, …): {foreign}' if foreign else
                                           'next_cut is not called on the sliced buffer itself')
