"""Extractor plug-in for C12 (retry / rewind): what the model `Retry.lean` reads from the three adapters and `utils.requires_auth`.

Per streaming method (local / S3 / B2 × upload / download) the `try … except: …; raise` around the transfer is looked at:
  *Rewind    : Option Nat   `stream.seek(k)` in the except-branch (none = no such call)
  *CatchAll  : Bool         the branch catches everything (bare / BaseException / Exception) and ends in a bare `raise`
  *Unlink    : Bool         (local upload) the temporary file is unlinked in the branch
  *Truncate  : Bool         (downloads) `stream.truncate(…)` inside the `try`, before the copy
  *Decorated : Bool         the method carries the back-off decorator of its module
plus the S3 digest helper's rewind, the exception classes the decorators catch, the give-up status, the give-up predicate of the
LOCAL decorator tabulated over a universe of OSError classes (`retryLocalGiveupErrnos`, see `local_giveup`), and for B2 which status the
response hook turns into AuthRequired, which status the back-off handler lets through as a plain retry, whether it raises
AuthRequired otherwise, whether it sleeps for Retry-After, and whether `requires_auth` bounds its re-authentication rounds.
Nothing is assumed silently: what is not recognised is emitted as `none` / `false`, and `Retry.Cfg.Sound` (proved by `decide` in
Properties/C12.lean) then fails to compile.
"""
import ast
import os

HTTP_CODES = {'NOT_FOUND': 404, 'BAD_REQUEST': 400, 'FORBIDDEN': 403, 'UNAUTHORIZED': 401, 'TOO_MANY_REQUESTS': 429,
              'SERVICE_UNAVAILABLE': 503, 'INTERNAL_SERVER_ERROR': 500, 'REQUEST_TIMEOUT': 408}


def _lit(node):
    try:
        return ast.literal_eval(node)
    except Exception:
        return None


def _status_const(node, unparse):
    v = _lit(node)
    if isinstance(v, int) and not isinstance(v, bool):
        return v
    s = unparse(node)
    for k, c in HTTP_CODES.items():
        if s.endswith('codes.' + k):
            return c
    return None


def _status_eq(test, unparse):
    """`<x>.status_code == <const>` → int"""
    if isinstance(test, ast.Compare) and len(test.ops) == 1 and isinstance(test.ops[0], ast.Eq) and unparse(test.left).endswith('status_code'):
        return _status_const(test.comparators[0], unparse)
    return None


def _params(fn):
    a = fn.args
    return {x.arg for x in a.posonlyargs + a.args + a.kwonlyargs}


def _raises(node, what, unparse):
    return isinstance(node, ast.Raise) and node.exc is not None and unparse(node.exc).split('(')[0].endswith(what)


def _b(x):
    return 'true' if x else 'false'


def _on(x):
    return 'none' if x is None else f'some {x}'


def handler_info(fn, unparse):
    """the try/except around the transfer of a streaming method"""
    info = {'rewind': None, 'catch_all': False, 'unlink': False, 'truncate': False, 'found': False}
    if fn is None:
        return info
    params = _params(fn)
    best = None
    for node in ast.walk(fn):
        if isinstance(node, ast.Try) and node.handlers:
            best = node      # the innermost / last one: the streaming methods have exactly one
    if best is None:
        return info
    info['found'] = True
    h = best.handlers[0]
    catches = h.type is None or unparse(h.type) in ('BaseException', 'Exception')
    reraises = bool(h.body) and isinstance(h.body[-1], ast.Raise) and h.body[-1].exc is None
    info['catch_all'] = catches and reraises and len(best.handlers) == 1
    for st in h.body:
        for node in ast.walk(st):
            if isinstance(node, ast.Call) and isinstance(node.func, ast.Attribute):
                if node.func.attr == 'seek' and isinstance(node.func.value, ast.Name) and node.func.value.id in params and node.args:
                    k = _lit(node.args[0])
                    whence_ok = len(node.args) == 1 or _lit(node.args[1]) == 0 or unparse(node.args[1]).endswith('SEEK_SET')
                    if isinstance(k, int) and not isinstance(k, bool) and k >= 0 and whence_ok and not node.keywords:
                        info['rewind'] = k
                if node.func.attr == 'unlink':
                    info['unlink'] = True
    for st in best.body:
        for node in ast.walk(st):
            if isinstance(node, ast.Call) and isinstance(node.func, ast.Attribute) and node.func.attr == 'truncate' \
                    and isinstance(node.func.value, ast.Name) and node.func.value.id in params and len(node.args) == 1:
                info['truncate'] = True
    return info


def decorators(fn, unparse):
    return [unparse(d) for d in fn.decorator_list] if fn is not None else []


def assigned_call(tree, name):
    for node in tree.body:
        if isinstance(node, ast.Assign) and len(node.targets) == 1 and isinstance(node.targets[0], ast.Name) and node.targets[0].id == name \
                and isinstance(node.value, ast.Call):
            return node.value
    return None


def giveup_status(tree, call, unparse):
    """status code the `giveup=` predicate of a back-off decorator compares with (through the module-level predicate function)"""
    if call is None:
        return None
    for k in call.keywords:
        if k.arg == 'giveup' and isinstance(k.value, ast.Name):
            for node in tree.body:
                if isinstance(node, ast.FunctionDef) and node.name == k.value.id:
                    for sub in ast.walk(node):
                        c = _status_eq(sub, unparse)
                        if c is not None and 'HTTPStatusError' in unparse(node):
                            return c
    return None


# OSError classes the model distinguishes, by errno (Linux numbering; 0 = an OSError raised without an errno).  Python maps most of
# them to a subclass of OSError (ENOENT → FileNotFoundError, EACCES / EPERM → PermissionError, EEXIST → FileExistsError,
# EINTR → InterruptedError, EAGAIN → BlockingIOError, ETIMEDOUT → TimeoutError, ENOTDIR, EISDIR, EPIPE, ECONNRESET …), the others
# (EIO, ENOSPC, EBUSY, EROFS, ESTALE, EDQUOT, EMFILE) stay plain OSError — a predicate can tell them apart by `errno` only.
OS_UNIVERSE = (0, 1, 2, 4, 5, 11, 13, 16, 17, 20, 21, 24, 28, 30, 32, 104, 110, 116, 122)


def sample_oserror(k):
    """an OSError of errno class `k` as the OS would raise it (Python picks the subclass)"""
    if k == 0:
        return OSError('sample OSError without errno')
    return OSError(k, os.strerror(k), '/some/where')


def local_giveup(tree, call, unparse):
    """`giveup=` of the local back-off decorator → (errnos of OS_UNIVERSE for which it says True, exact?, note).

    exact = the list is the whole truth for EVERY OSError (only when there is no predicate at all).  A predicate is *tabulated*:
    the module-level function (or lambda) it names is compiled on its own — with the module's imports and the module-level
    helper functions / constants it can see — and called on one sample OSError per class.  It must be a pure function of the
    exception; whatever cannot be evaluated is reported as "gives up on everything" (so that the model is never more optimistic
    than the code) with exact = False."""
    import errno as _errno
    node = None
    for k in (call.keywords if call is not None else []):
        if k.arg == 'giveup':
            node = k.value
    if call is None:
        return list(OS_UNIVERSE), False, 'back-off decorator of local.py not found'
    if node is None:
        return [], True, None
    if isinstance(node, ast.Lambda) and isinstance(node.body, ast.Constant) and node.body.value in (False, None, 0):
        return [], True, 'giveup=%s never gives up' % unparse(node)      # backoff's own default, written out
    try:
        ns = {'__name__': 'c12_extracted_local_giveup', 'errno': _errno, 'os': os}
        pieces = []
        for st in tree.body:
            if isinstance(st, (ast.Import, ast.ImportFrom)):
                if isinstance(st, ast.ImportFrom) and st.level:          # relative imports: the predicate must not need them
                    continue
                try:
                    exec(compile(ast.Module(body=[st], type_ignores=[]), 'local.py', 'exec'), ns)
                except Exception:  # noqa: BLE001   (a module that is not installed for the extractor's interpreter)
                    pass
            elif isinstance(st, ast.FunctionDef):
                pieces.append(ast.FunctionDef(name=st.name, args=st.args, body=st.body, decorator_list=[], returns=None,
                                              type_comment=None, **({'type_params': []} if hasattr(st, 'type_params') else {})))
            elif isinstance(st, ast.Assign) and not isinstance(st.value, ast.Call):
                pieces.append(st)                                         # module constants (tuples of errnos / classes …)
        for st in pieces:
            try:
                exec(compile(ast.fix_missing_locations(ast.Module(body=[st], type_ignores=[])), 'local.py', 'exec'), ns)
            except Exception:  # noqa: BLE001
                pass
        pred = eval(compile(ast.fix_missing_locations(ast.Expression(body=node)), 'local.py', 'eval'), ns)
        if not callable(pred):
            raise TypeError('giveup= is not callable')
        table = [k for k in OS_UNIVERSE if bool(pred(sample_oserror(k)))]
        return table, False, 'giveup=%s tabulated over %d OSError classes: gives up on errno %s' % (unparse(node), len(OS_UNIVERSE), table)
    except Exception as e:  # noqa: BLE001
        return list(OS_UNIVERSE), False, 'giveup=%s could not be tabulated (%r): assumed to give up on everything' % (unparse(node), e)


def _mentions_self(node):
    return any(isinstance(x, ast.Name) and x.id == 'self' for x in ast.walk(node))


def _stores_on_self(fn):
    """assignments / deletions / setattr on attributes of `self` inside `fn` → list of attribute names"""
    out = []
    for x in ast.walk(fn):
        if isinstance(x, ast.Attribute) and isinstance(x.ctx, (ast.Store, ast.Del)) and isinstance(x.value, ast.Name) and x.value.id == 'self':
            out.append(x.attr)
        if isinstance(x, ast.Call) and isinstance(x.func, ast.Name) and x.func.id in ('setattr', 'delattr') and x.args \
                and isinstance(x.args[0], ast.Name) and x.args[0].id == 'self':
            out.append('setattr')
        if isinstance(x, (ast.Global, ast.Nonlocal)):
            out.append('global')
    return out


def upload_creds_fresh(fn, unparse):
    """`B2._get_upload_url_token` → (fresh?, note).  fresh = the method has one shape only: it sends a request to b2_get_upload_url
    at the top level of its body (every call), every `return` comes after that request, at the top level, and returns something that
    does not mention `self`; nothing is stored on `self` (or in a global).  Upload credentials have a lifetime (24 h, or until the
    pod rejects them): a pair kept on the object outlives it."""
    if fn is None:
        return False, '_get_upload_url_token not found'
    src_all = unparse(fn)
    if 'b2_get_upload_url' not in src_all:
        return False, 'no request to b2_get_upload_url in _get_upload_url_token'
    req_at = None
    for i, st in enumerate(fn.body):
        if isinstance(st, (ast.Assign, ast.Expr, ast.AnnAssign)) and any(
                isinstance(x, ast.Call) and isinstance(x.func, ast.Attribute) and x.func.attr in ('post', 'get', 'request')
                and '_client' in unparse(x.func) for x in ast.walk(st)):
            req_at = i
            break
    if req_at is None:
        return False, 'the request to b2_get_upload_url is not an unconditional top-level statement of _get_upload_url_token'
    top_returns = {id(st) for st in fn.body[req_at + 1:] if isinstance(st, ast.Return)}
    for x in ast.walk(fn):
        if isinstance(x, ast.Return):
            if id(x) not in top_returns:
                return False, 'a `return` of _get_upload_url_token does not follow the request (line %d: %s)' % (x.lineno, unparse(x)[:60])
            if x.value is None or _mentions_self(x.value):
                return False, 'a `return` of _get_upload_url_token hands out state of the object (line %d: %s)' % (x.lineno, unparse(x)[:60])
    stored = _stores_on_self(fn)
    if stored:
        return False, '_get_upload_url_token keeps state on the object: %s' % sorted(set(stored))
    if not top_returns:
        return False, '_get_upload_url_token has no return after the request'
    return True, None


def calls_method_inside(fn, method, unparse):
    """`fn` (a decorated B2 method) calls `self.<method>()` in its own body and stores nothing on `self`"""
    if fn is None:
        return False
    called = any(isinstance(x, ast.Call) and isinstance(x.func, ast.Attribute) and x.func.attr == method
                 and isinstance(x.func.value, ast.Name) and x.func.value.id == 'self' for x in ast.walk(fn))
    return called and not _stores_on_self(fn)


def section(ctx):
    emit, notes, unparse = ctx.emit, ctx.notes, ctx.unparse

    def emit_handler(prefix, info, unlink=False, truncate=False):
        emit(f'def {prefix}Rewind : Option Nat := {_on(info["rewind"])}')
        emit(f'def {prefix}CatchAll : Bool := {_b(info["catch_all"])}')
        if unlink:
            emit(f'def {prefix}Unlink : Bool := {_b(info["unlink"])}')
        if truncate:
            emit(f'def {prefix}Truncate : Bool := {_b(info["truncate"])}')
        if not info['found']:
            notes['retry:' + prefix] = 'no try/except found'

    # ------------------------------------------------------------------ local.py
    src = (ctx.REPO / 'replicat' / 'backends' / 'local.py').read_text()
    tree = ast.parse(src)
    emit('/-! ### retry / rewind: local backend -/')
    deco_var = None
    for node in tree.body:
        if isinstance(node, ast.Assign) and isinstance(node.value, ast.Call) and unparse(node.value.func).endswith('on_exception') \
                and isinstance(node.targets[0], ast.Name):
            deco_var = node.targets[0].id
    deco_call = assigned_call(tree, deco_var) if deco_var else None
    errnos, exact, note = local_giveup(tree, deco_call, unparse)
    emit(f'def retryOsUniverse : List Nat := [{", ".join(map(str, OS_UNIVERSE))}]   -- OSError classes (errno; 0 = none) the give-up predicate is tabulated over')
    emit(f'def retryLocalGiveupErrnos : List Nat := [{", ".join(map(str, errnos))}]   -- classes for which the local decorator\'s `giveup=` says True')
    emit(f'def retryLocalGiveupExact : Bool := {_b(exact)}   -- true: there is no `giveup=` predicate, the (empty) list holds for every OSError')
    if note:
        notes['retry:local-giveup'] = note
    up = ctx.find_func(tree, 'Local', 'upload_stream')
    down = ctx.find_func(tree, 'Local', 'download_stream')
    emit_handler('retryLocalUp', handler_info(up, unparse), unlink=True)
    emit(f'def retryLocalUpDecorated : Bool := {_b(deco_var is not None and deco_var in decorators(up, unparse))}')
    emit_handler('retryLocalDown', handler_info(down, unparse), truncate=True)
    emit(f'def retryLocalDownDecorated : Bool := {_b(deco_var is not None and deco_var in decorators(down, unparse))}')

    # ------------------------------------------------------------------ s3c.py
    src = (ctx.REPO / 'replicat' / 'backends' / 's3c.py').read_text()
    tree = ast.parse(src)
    emit('/-! ### retry / rewind: S3-compatible backend -/')
    call = assigned_call(tree, 'backoff_on_httperror')
    catches = call is not None and len(call.args) >= 2 and unparse(call.args[1]) == 'httpx.HTTPError'
    emit(f'def retryS3CatchesHTTPError : Bool := {_b(catches)}')
    emit(f'def retryS3GiveupStatus : Option Nat := {_on(giveup_status(tree, call, unparse))}')
    dg = None
    for node in tree.body:
        if isinstance(node, ast.FunctionDef) and node.name == '_get_stream_hexdigest':
            dg = node
    k = None
    if dg is not None:
        params = _params(dg)
        for st in dg.body:           # top level of the helper, i.e. after the read loop
            if isinstance(st, ast.Expr) and isinstance(st.value, ast.Call) and isinstance(st.value.func, ast.Attribute) \
                    and st.value.func.attr == 'seek' and isinstance(st.value.func.value, ast.Name) and st.value.func.value.id in params \
                    and st.value.args and isinstance(_lit(st.value.args[0]), int) and len(st.value.args) == 1:
                k = _lit(st.value.args[0])
    emit(f'def retryS3DigestRewind : Option Nat := {_on(k)}')
    us = ctx.find_func(tree, 'S3Compatible', 'upload_stream')
    digest_outside = us is not None and any(isinstance(n, ast.Call) and unparse(n.func) == '_get_stream_hexdigest' for n in ast.walk(us))
    emit(f'def retryS3DigestOutsideRetry : Bool := {_b(digest_outside and "backoff_on_httperror" not in decorators(us, unparse))}')
    put = ctx.find_func(tree, 'S3Compatible', '_put_object_stream')
    down = ctx.find_func(tree, 'S3Compatible', 'download_stream')
    emit_handler('retryS3Up', handler_info(put, unparse))
    emit(f'def retryS3UpDecorated : Bool := {_b("backoff_on_httperror" in decorators(put, unparse))}')
    emit_handler('retryS3Down', handler_info(down, unparse), truncate=True)
    emit(f'def retryS3DownDecorated : Bool := {_b("backoff_on_httperror" in decorators(down, unparse))}')

    # ------------------------------------------------------------------ b2.py
    src = (ctx.REPO / 'replicat' / 'backends' / 'b2.py').read_text()
    tree = ast.parse(src)
    emit('/-! ### retry / rewind: B2 backend -/')
    call = assigned_call(tree, '_backoff_decorator')
    catches = call is not None and len(call.args) >= 3 and unparse(call.args[2]) == 'httpx.HTTPError'
    emit(f'def retryB2CatchesHTTPError : Bool := {_b(catches)}')
    emit(f'def retryB2GiveupStatus : Option Nat := {_on(giveup_status(tree, call, unparse))}')
    # the response hook: which status becomes AuthRequired
    hook_status = None
    for node in tree.body:
        if isinstance(node, (ast.FunctionDef, ast.AsyncFunctionDef)) and node.name == '_raise_for_status_hook':
            for sub in ast.walk(node):
                if isinstance(sub, ast.If) and any(_raises(x, 'AuthRequired', unparse) for x in sub.body):
                    hook_status = _status_eq(sub.test, unparse)
    emit(f'def retryB2HookAuthStatus : Option Nat := {_on(hook_status)}')
    # the back-off handler
    plain = None
    raises_auth = False
    sleeps_ra = False
    handler_name = '_wait_and_trigger_reauth'
    for node in tree.body:
        if isinstance(node, (ast.FunctionDef, ast.AsyncFunctionDef)) and node.name == handler_name:
            for sub in ast.walk(node):
                if isinstance(sub, ast.If) and sub.body and isinstance(sub.body[0], ast.Return) and _status_eq(sub.test, unparse) is not None:
                    plain = _status_eq(sub.test, unparse)
                    raises_auth = any(_raises(x, 'AuthRequired', unparse) for x in sub.orelse)
                if isinstance(sub, ast.Call) and unparse(sub.func).endswith('sleep') and 'retry_after' in unparse(sub):
                    sleeps_ra = True
    emit(f'def retryB2PlainRetryStatus : Option Nat := {_on(plain)}')
    emit(f'def retryB2HandlerRaisesAuth : Bool := {_b(raises_auth)}')
    emit(f'def retryB2HandlerSleepsRetryAfter : Bool := {_b(sleeps_ra)}')
    reauth_deco = None
    for node in tree.body:
        if isinstance(node, ast.Assign) and isinstance(node.value, ast.Call) and unparse(node.value.func) == '_backoff_decorator' \
                and isinstance(node.targets[0], ast.Name):
            for kw in node.value.keywords:
                if kw.arg == 'on_backoff' and handler_name in unparse(kw.value):
                    reauth_deco = node.targets[0].id
    up = ctx.find_func(tree, 'B2', 'upload_stream')
    down = ctx.find_func(tree, 'B2', 'download_stream')
    for prefix, fn, trunc in (('retryB2Up', up, False), ('retryB2Down', down, True)):
        emit_handler(prefix, handler_info(fn, unparse), truncate=trunc)
        ds = decorators(fn, unparse)
        emit(f'def {prefix}Decorated : Bool := {_b(reauth_deco is not None and reauth_deco in ds)}')
        # `requires_auth` must be the OUTER decorator: AuthRequired leaves the back-off loop and reaches it
        outer = bool(ds) and ds[0].endswith('requires_auth') and reauth_deco in ds[1:] if reauth_deco else False
        emit(f'def {prefix}RequiresAuth : Bool := {_b(outer)}')

    # credentials with a lifetime on a long-lived object (sessions, `ReplicatModel/RetryCred.lean`)
    fresh, why = upload_creds_fresh(ctx.find_func(tree, 'B2', '_get_upload_url_token'), unparse)
    emit(f'def retryB2UploadCredsFresh : Bool := {_b(fresh)}   -- `_get_upload_url_token` asks b2_get_upload_url on every call and returns that answer; nothing is kept on the object')
    if why:
        notes['retry:b2-upload-credentials'] = why
    in_attempt = all(calls_method_inside(ctx.find_func(tree, 'B2', m), '_get_upload_url_token', unparse) for m in ('upload', 'upload_stream'))
    emit(f'def retryB2UploadCredsInAttempt : Bool := {_b(in_attempt)}   -- upload / upload_stream fetch them inside the retried body and keep them in locals')
    session_methods = ('_get_bucket', 'exists', '_get_upload_url_token', 'upload', 'upload_stream', 'download', 'download_stream',
                       '_list_file_names', 'delete')
    all_dec, all_ra = reauth_deco is not None, reauth_deco is not None
    for m in session_methods:
        ds = decorators(ctx.find_func(tree, 'B2', m), unparse)
        all_dec = all_dec and reauth_deco in ds
        all_ra = all_ra and bool(ds) and ds[0].endswith('requires_auth') and reauth_deco in ds[1:]
    emit(f'def retryB2SessionDecorated : Bool := {_b(all_dec)}   -- every B2 method that talks to the service carries the re-authenticating back-off decorator')
    emit(f'def retryB2SessionRequiresAuth : Bool := {_b(all_ra)}   -- … inside `requires_auth`')

    # ------------------------------------------------------------------ utils.requires_auth
    src = (ctx.REPO / 'replicat' / 'utils' / '__init__.py').read_text()
    tree = ast.parse(src)
    ra = None
    for node in tree.body:
        if isinstance(node, ast.FunctionDef) and node.name == 'requires_auth':
            ra = node
    ctx.fp('utils.requires_auth', ra)
    limit = None
    recurses = False
    if ra is not None:
        consts = {n.targets[0].id: _lit(n.value) for n in tree.body
                  if isinstance(n, ast.Assign) and len(n.targets) == 1 and isinstance(n.targets[0], ast.Name)}
        for sub in ast.walk(ra):
            if isinstance(sub, ast.AsyncFunctionDef):
                for x in ast.walk(sub):
                    if isinstance(x, ast.ExceptHandler) and x.type is not None and unparse(x.type).endswith('AuthRequired'):
                        recurses = any(isinstance(y, ast.Call) and 'authenticate' in unparse(y.func) for y in ast.walk(x))
                    if isinstance(x, ast.Name) and x.id in consts and 'REAUTH' in x.id.upper() and isinstance(consts[x.id], int):
                        limit = consts[x.id]
    emit('/-! ### utils.requires_auth (async flavour) -/')
    emit(f'def retryReauthOnAuthRequired : Bool := {_b(recurses)}')
    emit(f'def retryReauthLimit : Option Nat := {_on(limit)}   -- a module constant bounding the re-authentication rounds (none = unbounded recursion)')
