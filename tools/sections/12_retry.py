"""Extractor plug-in for C12 (retry / rewind): what the model `Retry.lean` reads from the three adapters and `utils.requires_auth`.

Per streaming method (local / S3 / B2 × upload / download) the code that runs when the transfer fails is looked at:
  *Rewind    : Option Nat   the stream is at `k` (`stream.seek(k)`) whenever a failed transfer leaves the retried function (none = not so)
  *CatchAll  : Bool         that holds for EVERY exception of the transfer, and the exception goes on to the caller (is not swallowed)
  *Unlink    : Bool         (local upload) the temporary file is unlinked on that way out
  *Truncate  : Bool         (downloads) `stream.truncate(…)` has been called before the sink is written
  *Decorated : Bool         the transfer runs inside a function that carries the back-off decorator of its module
plus the S3 digest helper's rewind, the exception classes the decorators catch, the give-up status, the give-up predicate of the
LOCAL decorator tabulated over a universe of OSError classes (`retryLocalGiveupErrnos`, see `local_giveup`), and for B2 which status the
response hook turns into AuthRequired, which status the back-off handler lets through as a plain retry, whether it raises
AuthRequired otherwise, whether it sleeps for Retry-After, and whether `requires_auth` bounds its re-authentication rounds.
Nothing is assumed silently: what is not recognised is emitted as `none` / `false`, and `Retry.Cfg.Sound` (proved by `decide` in
Properties/C12.lean) then fails to compile.

The recognisers are semantic (they use Parts A–C of `16_s3.py`): the PUBLIC `upload_stream` / `download_stream` are followed into the
helpers the stream is handed to; the retried function is the one on that way which carries a decorator that *evaluates* to
`backoff.on_exception(…)` (through names, module constants, `functools.partial`); an abstract interpretation of the stream's
position along normal and exceptional paths (except / finally clauses, helper calls, any spelling of the handler) gives the rewind
facts; predicates and handlers are evaluated symbolically and compared as normalised conditions (early returns, swapped branches,
De Morgan, `!=`, status constants in any spelling).  Names of locals, private methods, attributes and module constants do not matter.
"""
import ast
import importlib.util
import os
import sys
from pathlib import Path

HTTP_CODES = {'NOT_FOUND': 404, 'BAD_REQUEST': 400, 'FORBIDDEN': 403, 'UNAUTHORIZED': 401, 'TOO_MANY_REQUESTS': 429,
              'SERVICE_UNAVAILABLE': 503, 'INTERNAL_SERVER_ERROR': 500, 'REQUEST_TIMEOUT': 408}


def _lib():
    """Parts A–C (symbolic evaluator, requests, stream flow) live in 16_s3.py"""
    name = 'replicat_sections_16_s3_lib'
    if name in sys.modules:
        return sys.modules[name]
    spec = importlib.util.spec_from_file_location(name, Path(__file__).with_name('16_s3.py'))
    mod = importlib.util.module_from_spec(spec)
    sys.modules[name] = mod
    spec.loader.exec_module(mod)
    return mod


def _lit(node):
    try:
        return ast.literal_eval(node)
    except Exception:
        return None


def _b(x):
    return 'true' if x else 'false'


def _on(x):
    return 'none' if x is None else f'some {x}'


def status_value(t):
    """a status code as a term → int (literal, `httpx.codes.X`, `http.HTTPStatus.X`, `codes.X` imported from httpx)"""
    L = _lib()
    ok, v = L.const_of(t)
    if ok and isinstance(v, int) and not isinstance(v, bool):
        return v
    if t[0] == 'ext':
        parts = t[1].split('.')
        if len(parts) >= 2 and parts[-2] in ('codes', 'HTTPStatus', 'status_codes'):
            import http
            try:
                return int(http.HTTPStatus[parts[-1]])
            except KeyError:
                return HTTP_CODES.get(parts[-1])
    return None


def status_test(c):
    """condition `<x>.status_code == K` (either order, any spelling of K) → (x, K) ; else None"""
    if c[0] != 'eq':
        return None
    for a, b in ((c[1], c[2]), (c[2], c[1])):
        if a[0] == 'attr' and a[2] == 'status_code':
            k = status_value(b)
            if k is not None:
                subj = a[1][1] if a[1][0] == 'attr' and a[1][2] == 'response' else a[1]
                return subj, k
    return None


def is_class(t, name):
    return t[0] == 'ext' and t[1].split('.')[-1] == name


def exception_is(exc, name):
    """the value of a `raise` statement is (an instance of) the class called `name`"""
    if exc is None:
        return False
    if exc[0] == 'call' and isinstance(exc[1], str):
        return exc[1].split('.')[-1] == name
    return is_class(exc, name)


def same_call(a, b):
    return a is not None and b is not None and a[1:] == b[1:]


# ------------------------------------------------------------------------------------------------------- the transfer of one method
def transfer_info(L, sym, mod, cls, public):
    """what happens around the transfer of `stream` started by the public method `public`"""
    info = {'rewind': None, 'catch_all': False, 'unlink': False, 'truncate': False, 'found': False, 'deco': None, 'root': None,
            'entry': set(), 'pre_seeks': 0, 'pre_reads': 0, 'reads_in_root': 0, 'public_deco': None, 'why': None}
    try:
        fl = L.Flow(mod, cls)
        root, tracked, deco = L.retried_root(sym, fl, public)
        info.update(root=root, deco=deco, entry=set(fl.entries.get(root, ())), pre_seeks=fl.seeks_at_entry.get(root, 0),
                    pre_reads=fl.consumes_at_entry.get(root, 0))
        pub = fl.methods[public]
        for d in pub.decorator_list:
            info['public_deco'] = info['public_deco'] or L.on_exception_call(sym, d)
        run = L.Flow(mod, cls)
        o = run.function(root, tracked, {L.FState()})
        info['reads_in_root'] = len({id(n) for _, n, _ in run.consume_nodes})
        if not run.consume_nodes:
            info['why'] = 'the stream is not transferred'
            return info
        handled = {st for st, h in o.exc if h}
        unhandled = {st for st, h in o.exc if not h}
        info['found'] = bool(handled)
        moved = {st.pos for st in handled if st.pos != 'entry'}
        if handled and len(moved) == 1 and isinstance(next(iter(moved)), tuple):
            info['rewind'] = next(iter(moved))[1]
        info['catch_all'] = bool(handled) and not run.swallowed and run.partial_cover is None and all(st.pos == 'entry' for st in unhandled) \
            and all(isinstance(st.pos, tuple) or st.pos == 'entry' for st in handled)
        info['unlink'] = bool(handled) and all(st.unlinked for st in handled)
        writes = [st for _, _, st in run.consume_nodes]
        info['truncate'] = bool(writes) and all(st.truncated for st in writes) and any(n == 1 for n, _ in run.truncates)
    except Exception as e:  # noqa: BLE001
        info['why'] = f'{type(e).__name__}: {e}'[:200]
    return info


# OSError classes the model distinguishes, by errno (Linux numbering; 0 = an OSError raised without an errno).  Python maps most of
# them to a subclass of OSError (ENOENT → FileNotFoundError, EACCES / EPERM → PermissionError, EEXIST → FileExistsError,
# EINTR → InterruptedError, EAGAIN → BlockingIOError, ETIMEDOUT → TimeoutError, ENOTDIR, EISDIR, EPIPE, ECONNRESET …), the others
# (EIO, ENOSPC, EBUSY, EROFS, ESTALE, EDQUOT, EMFILE) stay plain OSError — a predicate can tell them apart by `errno` only.
OS_UNIVERSE = (0, 1, 2, 4, 5, 11, 13, 16, 17, 20, 21, 24, 28, 30, 32, 104, 110, 116, 122)


def sample_oserror(k):
    """an OSError of errno class `k` as the OS would raise it (Python picks the subclass)"""
    if k == 0:
        return OSError('sample OSError without errno')
    return OSError(k, os.strerror(k), '/some/where')


def local_giveup(tree, found, node, unparse):
    """`giveup=` of the local back-off decorator → (errnos of OS_UNIVERSE for which it says True, exact?, note).
    `found` = the decorator was found; `node` = the expression given as `giveup=` (None: there is none).

    exact = the list is the whole truth for EVERY OSError (only when there is no predicate at all).  A predicate is *tabulated*:
    the module-level function (or lambda) it names is compiled on its own — with the module's imports and the module-level
    helper functions / constants it can see — and called on one sample OSError per class.  It must be a pure function of the
    exception; whatever cannot be evaluated is reported as "gives up on everything" (so that the model is never more optimistic
    than the code) with exact = False."""
    import errno as _errno
    if not found:
        return list(OS_UNIVERSE), False, 'back-off decorator of local.py not found'
    if node is None:
        return [], True, None
    if isinstance(node, ast.Lambda) and isinstance(node.body, ast.Constant) and node.body.value in (False, None, 0):
        return [], True, 'giveup=%s never gives up' % unparse(node)      # backoff's own default, written out
    try:
        ns = {'__name__': 'c12_extracted_local_giveup', 'errno': _errno, 'os': os}
        pieces = []
        for st in tree.body:
            if isinstance(st, (ast.Import, ast.ImportFrom)):
                if isinstance(st, ast.ImportFrom) and st.level:          # relative imports: the predicate must not need them
                    continue
                try:
                    exec(compile(ast.Module(body=[st], type_ignores=[]), 'local.py', 'exec'), ns)
                except Exception:  # noqa: BLE001   (a module that is not installed for the extractor's interpreter)
                    pass
            elif isinstance(st, ast.FunctionDef):
                pieces.append(ast.FunctionDef(name=st.name, args=st.args, body=st.body, decorator_list=[], returns=None,
                                              type_comment=None, **({'type_params': []} if hasattr(st, 'type_params') else {})))
            elif isinstance(st, ast.Assign) and not isinstance(st.value, ast.Call):
                pieces.append(st)                                         # module constants (tuples of errnos / classes …)
        for st in pieces:
            try:
                exec(compile(ast.fix_missing_locations(ast.Module(body=[st], type_ignores=[])), 'local.py', 'exec'), ns)
            except Exception:  # noqa: BLE001
                pass
        pred = eval(compile(ast.fix_missing_locations(ast.Expression(body=node)), 'local.py', 'eval'), ns)
        if not callable(pred):
            raise TypeError('giveup= is not callable')
        table = [k for k in OS_UNIVERSE if bool(pred(sample_oserror(k)))]
        return table, False, 'giveup=%s tabulated over %d OSError classes: gives up on errno %s' % (unparse(node), len(OS_UNIVERSE), table)
    except Exception as e:  # noqa: BLE001
        return list(OS_UNIVERSE), False, 'giveup=%s could not be tabulated (%r): assumed to give up on everything' % (unparse(node), e)


def giveup_node(deco):
    """the `giveup=` argument of a resolved `backoff.on_exception(…)` as an expression that can be evaluated in the module"""
    if deco is None:
        return None
    for k, v in deco[2]:
        if k == 'giveup':
            if v[0] == 'func':
                return ast.Name(id=v[1].name, ctx=ast.Load())
            if v[0] == 'lambda':
                return v[1]
            ok, c = _lib().const_of(v)
            return ast.Constant(value=c) if ok else ast.Name(id='<unresolved giveup>', ctx=ast.Load())
    return None


def giveup_status(L, sym, deco):
    """the status for which the `giveup=` predicate of a back-off decorator says True: the predicate is evaluated symbolically and
    must be equivalent to `isinstance(e, HTTPStatusError) and e.response.status_code == K` → K"""
    if deco is None:
        return None
    pred = dict(deco[2]).get('giveup')
    if pred is None:
        return None
    try:
        e = ('param', 'e')
        outs, _ = sym.outcomes(pred, [e])
        cases = []
        for conds, kind, val in outs:
            if kind != 'ret':
                return None
            cases.append(L.conj(list(conds) + [L.as_cond(val)]))
        truth = L.disj(cases)
        ks = set()

        def find(c):
            if isinstance(c, tuple):
                t = status_test(c) if c and c[0] == 'eq' else None
                if t is not None and t[0] == e:
                    ks.add((t[1], c))
                for x in c:
                    find(x)
        find(truth)
        if len(ks) != 1:
            return None
        k, test = next(iter(ks))
        insts = [c for c in (truth[1] if truth[0] == 'and' else (truth,)) if c[0] == 'isinst' and c[1] == e and is_class(c[2], 'HTTPStatusError')]
        if len(insts) != 1 or truth != L.conj([insts[0], test]):
            return None
        return k
    except Exception:  # noqa: BLE001
        return None


def catches(deco, name):
    """the resolved `backoff.on_exception(wait_gen, exception, …)` retries exactly the class called `name`"""
    if deco is None:
        return False
    args, kw = deco[1], dict(deco[2])
    exc = args[1] if len(args) >= 2 else kw.get('exception')
    if exc is None:
        return False
    if exc[0] == 'tuple' and len(exc[1]) == 1:
        exc = exc[1][0]
    return is_class(exc, name) and (name != 'HTTPError' or exc[1].startswith('httpx.'))


def hook_auth_status(L, sym):
    """B2: the status the response hook registered at the HTTP client turns into AuthRequired"""
    try:
        clients = [v for v in sym.init_attrs().values() if L.is_client(v)]
        if len(clients) != 1:
            return None
        hooks = []
        for k, v in clients[0][3]:
            if k == 'event_hooks' and v[0] == 'dict':
                for e in v[1]:
                    if e[0] == 'kv' and L.const_of(e[1]) == (True, 'response') and e[2][0] in ('list', 'tuple'):
                        hooks += list(e[2][1])
        found = set()
        for h in hooks:
            resp = ('param', 'response')
            outs, trace = sym.outcomes(h, [resp])
            for conds, kind, exc in outs:
                if kind != 'raise' or not exception_is(exc, 'AuthRequired'):
                    continue
                guards = [c for c in conds if c[0] == 'exc']
                others = [c for c in conds if c[0] != 'exc']
                # inside the handler of the HTTPStatusError that `<response>.raise_for_status()` raised, for exactly one status
                if len(guards) != 1 or not is_class(guards[0][2], 'HTTPStatusError') or len(others) != 1:
                    return None
                t = status_test(others[0])
                if t is None or not (t[0] == resp or (t[0][0] == 'exception' and t[0][1] == guards[0][1])):
                    return None
                # … raised by `<response>.raise_for_status()`, called for every answer (or for every answer outside 2xx)
                not_success = L.neg(('truthy', ('attr', resp, 'is_success')))
                if not any(x[0] == 'meth' and x[1] == resp and x[2] == 'raise_for_status' and all(c == not_success for c in g) for g, x in trace):
                    return None
                found.add(t[1])
        return next(iter(found)) if len(found) == 1 else None
    except Exception:  # noqa: BLE001
        return None


def backoff_handler_info(L, sym, deco):
    """B2: what the `on_backoff=` handler of the decorator does with the exception that is being retried →
    (status it lets through as a plain retry, raises AuthRequired for every other status?, sleeps for Retry-After?)"""
    plain, raises_auth, sleeps = None, False, False
    if deco is None:
        return plain, raises_auth, sleeps
    hs = dict(deco[2]).get('on_backoff')
    if hs is None:
        return plain, raises_auth, sleeps
    handlers = list(hs[1]) if hs[0] in ('list', 'tuple') else [hs]
    try:
        for h in handlers:
            outs, trace = sym.outcomes(h, [('param', 'details')])
            auth = [(c, e) for c, k, e in outs if k == 'raise' and exception_is(e, 'AuthRequired')]
            if not auth or any(k == 'raise' and not exception_is(e, 'AuthRequired') for _, k, e in outs):
                continue
            # subject: the exception being retried, tested with isinstance(…, HTTPStatusError)
            insts = {c for conds, _ in auth for c in conds if c[0] == 'isinst' and is_class(c[2], 'HTTPStatusError')}
            if len(insts) != 1:
                return None, False, False
            inst = next(iter(insts))
            ks = set()
            ok = True
            for conds, kind, val in outs:
                rest = [c for c in conds if c != inst and c[0] != 'exc' and not (c[0] == 'not' and c[1][0] == 'exc')]
                if L.neg(inst) in conds:
                    ok = ok and kind == 'ret'              # not an HTTP status error: nothing to decide
                    continue
                if inst not in conds or len(rest) != 1:
                    ok = False
                    continue
                c = rest[0]
                positive = c[0] != 'not'
                t = status_test(c if positive else c[1])
                if t is None or t[0] != inst[1]:
                    ok = False
                    continue
                ks.add(t[1])
                ok = ok and ((kind == 'ret') if positive else (kind == 'raise'))
            if ok and len(ks) == 1:
                plain, raises_auth = next(iter(ks)), True
            for g, t in trace:
                if t[0] == 'call' and isinstance(t[1], str) and t[1].split('.')[-1] == 'sleep' and inst in g:
                    def mentions(x):
                        if x == L.lift('retry-after'):
                            return True
                        return isinstance(x, tuple) and any(mentions(y) for y in x)
                    if any(mentions(a) for a in t[2]):
                        sleeps = True
            break
    except Exception:  # noqa: BLE001
        return None, False, False
    return plain, raises_auth, sleeps


def _mentions_self(node):
    return any(isinstance(x, ast.Name) and x.id == 'self' for x in ast.walk(node))


def _stores_on_self(fn):
    """assignments / deletions / setattr on attributes of `self` inside `fn` → list of attribute names"""
    out = []
    for x in ast.walk(fn):
        if isinstance(x, ast.Attribute) and isinstance(x.ctx, (ast.Store, ast.Del)) and isinstance(x.value, ast.Name) and x.value.id == 'self':
            out.append(x.attr)
        if isinstance(x, ast.Call) and isinstance(x.func, ast.Name) and x.func.id in ('setattr', 'delattr') and x.args \
                and isinstance(x.args[0], ast.Name) and x.args[0].id == 'self':
            out.append('setattr')
        if isinstance(x, (ast.Global, ast.Nonlocal)):
            out.append('global')
    return out


def client_attrs(L, sym):
    """names of the attributes of `self` that hold the HTTP client"""
    return {k for k, v in sym.init_attrs().items() if L.is_client(v)}


def uses_client(fn, attrs):
    """the function sends a request through the HTTP client itself"""
    for x in ast.walk(fn):
        if isinstance(x, ast.Call) and isinstance(x.func, ast.Attribute) and x.func.attr in ('post', 'get', 'head', 'put', 'delete', 'request', 'stream', 'send', 'patch') \
                and isinstance(x.func.value, ast.Attribute) and x.func.value.attr in attrs and isinstance(x.func.value.value, ast.Name) and x.func.value.value.id == 'self':
            return True
    return False


def upload_creds_fresh(fn, unparse, attrs=('_client',)):
    """the B2 method that asks b2_get_upload_url → (fresh?, note).  fresh = the method has one shape only: it sends a request to
    b2_get_upload_url at the top level of its body (every call), every `return` comes after that request, at the top level, and returns
    something that does not mention `self`; nothing is stored on `self` (or in a global).  Upload credentials have a lifetime (24 h, or
    until the pod rejects them): a pair kept on the object outlives it."""
    if fn is None:
        return False, 'the method that requests b2_get_upload_url was not found'
    req_at = None
    for i, st in enumerate(fn.body):
        if isinstance(st, (ast.Assign, ast.Expr, ast.AnnAssign)) and any(
                isinstance(x, ast.Call) and isinstance(x.func, ast.Attribute) and x.func.attr in ('post', 'get', 'request')
                and isinstance(x.func.value, ast.Attribute) and x.func.value.attr in attrs for x in ast.walk(st)):
            req_at = i
            break
    if req_at is None:
        return False, 'the request to b2_get_upload_url is not an unconditional top-level statement of %s' % fn.name
    top_returns = {id(st) for st in fn.body[req_at + 1:] if isinstance(st, ast.Return)}
    for x in ast.walk(fn):
        if isinstance(x, ast.Return):
            if id(x) not in top_returns:
                return False, 'a `return` of %s does not follow the request (line %d: %s)' % (fn.name, x.lineno, unparse(x)[:60])
            if x.value is None or _mentions_self(x.value):
                return False, 'a `return` of %s hands out state of the object (line %d: %s)' % (fn.name, x.lineno, unparse(x)[:60])
    stored = _stores_on_self(fn)
    if stored:
        return False, '%s keeps state on the object: %s' % (fn.name, sorted(set(stored)))
    if not top_returns:
        return False, '%s has no return after the request' % fn.name
    return True, None


def calls_method_inside(fn, method, unparse):
    """`fn` (a decorated B2 method) calls `self.<method>()` in its own body and stores nothing on `self`"""
    if fn is None or method is None:
        return False
    called = any(isinstance(x, ast.Call) and isinstance(x.func, ast.Attribute) and x.func.attr == method
                 and isinstance(x.func.value, ast.Name) and x.func.value.id == 'self' for x in ast.walk(fn))
    return called and not _stores_on_self(fn)


def requires_auth_outermost(L, sym, fn, deco):
    """`requires_auth` is the OUTER decorator and the given back-off decorator comes inside it: AuthRequired leaves the back-off loop
    and reaches it"""
    if fn is None or deco is None or not fn.decorator_list:
        return False
    if sym.dotted_of_decorator(fn.decorator_list[0]) != 'replicat.utils.requires_auth':
        return False
    return any(same_call(L.on_exception_call(sym, d), deco) for d in fn.decorator_list[1:])


def section(ctx):
    emit, notes, unparse = ctx.emit, ctx.notes, ctx.unparse
    L = _lib()

    def emit_handler(prefix, info, unlink=False, truncate=False):
        emit(f'def {prefix}Rewind : Option Nat := {_on(info["rewind"])}')
        emit(f'def {prefix}CatchAll : Bool := {_b(info["catch_all"])}')
        if unlink:
            emit(f'def {prefix}Unlink : Bool := {_b(info["unlink"])}')
        if truncate:
            emit(f'def {prefix}Truncate : Bool := {_b(info["truncate"])}')
        if not info['found']:
            notes['retry:' + prefix] = 'no exception of the transfer passes through an except / finally clause' + (f' ({info["why"]})' if info['why'] else '')

    def adapter(fname):
        src = (ctx.REPO / 'replicat' / 'backends' / fname).read_text()
        mod = L.Mod(src)
        try:
            cls = L.adapter_class(mod)
        except Exception:  # noqa: BLE001
            cls = None
        return src, mod, cls, L.Sym(mod, cls)

    def module_decorator(sym, mod, legacy):
        """the back-off decorator the module defines: the value of the name the base extractor reads `max_tries` from, when it denotes
        (a partial application of) backoff.on_exception"""
        if legacy in mod.assigns:
            return L.on_exception_call(sym, ast.Name(id=legacy, ctx=ast.Load())), sym.deref(sym.module_name(legacy), L.St())
        return None, None

    def consistent(deco, legacy_call, legacy_value):
        """the decorator on the retried function is the module's one (or a completed partial application of it)"""
        if deco is None:
            return False
        if legacy_call is not None:
            return same_call(deco, legacy_call)
        if legacy_value is not None and legacy_value[0] == 'partial' and legacy_value[1] == ('ext', 'backoff.on_exception'):
            pre_args, pre_kw = tuple(legacy_value[2]), dict(legacy_value[3])
            kw = dict(deco[2])
            return tuple(deco[1][:len(pre_args)]) == pre_args and all(kw.get(k) == v for k, v in pre_kw.items())
        return legacy_value is None or legacy_value[0] == 'unknown'

    # ------------------------------------------------------------------ local.py
    src, mod, cls, sym = adapter('local.py')
    tree = mod.tree
    emit('/-! ### retry / rewind: local backend -/')
    up = transfer_info(L, sym, mod, cls, 'upload_stream')
    down = transfer_info(L, sym, mod, cls, 'download_stream')
    legacy_call, legacy_value = module_decorator(sym, mod, 'backoff_on_oserror')
    deco = up['deco'] or down['deco'] or legacy_call
    errnos, exact, note = local_giveup(tree, deco is not None, giveup_node(deco), unparse)
    emit(f'def retryOsUniverse : List Nat := [{", ".join(map(str, OS_UNIVERSE))}]   -- OSError classes (errno; 0 = none) the give-up predicate is tabulated over')
    emit(f'def retryLocalGiveupErrnos : List Nat := [{", ".join(map(str, errnos))}]   -- classes for which the local decorator\'s `giveup=` says True')
    emit(f'def retryLocalGiveupExact : Bool := {_b(exact)}   -- true: there is no `giveup=` predicate, the (empty) list holds for every OSError')
    if note:
        notes['retry:local-giveup'] = note
    emit_handler('retryLocalUp', up, unlink=True)
    emit(f'def retryLocalUpDecorated : Bool := {_b(same_call(up["deco"], deco) and consistent(up["deco"], legacy_call, legacy_value))}')
    emit_handler('retryLocalDown', down, truncate=True)
    emit(f'def retryLocalDownDecorated : Bool := {_b(same_call(down["deco"], deco) and consistent(down["deco"], legacy_call, legacy_value))}')

    # ------------------------------------------------------------------ s3c.py
    src, mod, cls, sym = adapter('s3c.py')
    emit('/-! ### retry / rewind: S3-compatible backend -/')
    up = transfer_info(L, sym, mod, cls, 'upload_stream')
    down = transfer_info(L, sym, mod, cls, 'download_stream')
    legacy_call, legacy_value = module_decorator(sym, mod, 'backoff_on_httperror')
    deco = up['deco'] or down['deco'] or legacy_call
    emit(f'def retryS3CatchesHTTPError : Bool := {_b(catches(deco, "HTTPError"))}')
    emit(f'def retryS3GiveupStatus : Option Nat := {_on(giveup_status(L, sym, deco))}')
    # where the digest phase (everything `upload_stream` does with the stream before the retried function is entered) leaves the stream
    k = None
    pos = {st.pos for st in up['entry']}
    if up['root'] is not None and up['pre_reads'] and len(pos) == 1 and isinstance(next(iter(pos)), tuple):
        k = next(iter(pos))[1]
    emit(f'def retryS3DigestRewind : Option Nat := {_on(k)}')
    digest_outside = up['deco'] is not None and up['public_deco'] is None and up['pre_reads'] > 0 and up['reads_in_root'] == 1 \
        and up['root'] is not (cls and {s.name: s for s in cls.body if isinstance(s, (ast.FunctionDef, ast.AsyncFunctionDef))}.get('upload_stream'))
    emit(f'def retryS3DigestOutsideRetry : Bool := {_b(digest_outside)}')
    emit_handler('retryS3Up', up)
    emit(f'def retryS3UpDecorated : Bool := {_b(same_call(up["deco"], deco) and consistent(up["deco"], legacy_call, legacy_value))}')
    emit_handler('retryS3Down', down, truncate=True)
    emit(f'def retryS3DownDecorated : Bool := {_b(same_call(down["deco"], deco) and consistent(down["deco"], legacy_call, legacy_value))}')

    # ------------------------------------------------------------------ b2.py
    src, mod, cls, sym = adapter('b2.py')
    tree = mod.tree
    emit('/-! ### retry / rewind: B2 backend -/')
    up = transfer_info(L, sym, mod, cls, 'upload_stream')
    down = transfer_info(L, sym, mod, cls, 'download_stream')
    legacy_call, legacy_value = module_decorator(sym, mod, '_backoff_decorator')
    deco = up['deco'] or down['deco']
    emit(f'def retryB2CatchesHTTPError : Bool := {_b(catches(deco, "HTTPError"))}')
    emit(f'def retryB2GiveupStatus : Option Nat := {_on(giveup_status(L, sym, deco))}')
    # the response hook: which status becomes AuthRequired
    emit(f'def retryB2HookAuthStatus : Option Nat := {_on(hook_auth_status(L, sym))}')
    # the back-off handler
    plain, raises_auth, sleeps_ra = backoff_handler_info(L, sym, deco)
    emit(f'def retryB2PlainRetryStatus : Option Nat := {_on(plain)}')
    emit(f'def retryB2HandlerRaisesAuth : Bool := {_b(raises_auth)}')
    emit(f'def retryB2HandlerSleepsRetryAfter : Bool := {_b(sleeps_ra)}')
    # the re-authenticating back-off decorator = the one whose handler hands the failure over to `requires_auth`
    reauth_deco = deco if raises_auth and consistent(deco, legacy_call, legacy_value) else None
    methods = {s.name: s for s in (cls.body if cls is not None else []) if isinstance(s, (ast.FunctionDef, ast.AsyncFunctionDef))}
    for prefix, info, fn, trunc in (('retryB2Up', up, methods.get('upload_stream'), False), ('retryB2Down', down, methods.get('download_stream'), True)):
        emit_handler(prefix, info, truncate=trunc)
        emit(f'def {prefix}Decorated : Bool := {_b(reauth_deco is not None and same_call(info["deco"], reauth_deco))}')
        emit(f'def {prefix}RequiresAuth : Bool := {_b(info["root"] is fn and requires_auth_outermost(L, sym, fn, reauth_deco))}')

    # credentials with a lifetime on a long-lived object (sessions, `ReplicatModel/RetryCred.lean`)
    attrs = client_attrs(L, sym) or {'_client'}
    token_methods = [f for f in methods.values() if uses_client(f, attrs) and any(isinstance(x, ast.Constant) and isinstance(x.value, str) and 'b2_get_upload_url' in x.value for x in ast.walk(f))]
    token = token_methods[0] if len(token_methods) == 1 else None
    fresh, why = upload_creds_fresh(token, unparse, attrs)
    emit(f'def retryB2UploadCredsFresh : Bool := {_b(fresh)}   -- `_get_upload_url_token` asks b2_get_upload_url on every call and returns that answer; nothing is kept on the object')
    if why:
        notes['retry:b2-upload-credentials'] = why
    in_attempt = all(calls_method_inside(methods.get(m), token.name if token is not None else None, unparse) for m in ('upload', 'upload_stream'))
    emit(f'def retryB2UploadCredsInAttempt : Bool := {_b(in_attempt)}   -- upload / upload_stream fetch them inside the retried body and keep them in locals')
    # every method that sends a request of the session itself (authenticate is what `requires_auth` calls; close ends the session)
    session_methods = [f for n, f in methods.items() if uses_client(f, attrs) and n not in ('authenticate', 'close', '__init__')]
    all_dec = reauth_deco is not None and bool(session_methods)
    all_ra = all_dec
    for f in session_methods:
        all_dec = all_dec and any(same_call(L.on_exception_call(sym, d), reauth_deco) for d in f.decorator_list)
        all_ra = all_ra and requires_auth_outermost(L, sym, f, reauth_deco)
    emit(f'def retryB2SessionDecorated : Bool := {_b(all_dec)}   -- every B2 method that talks to the service carries the re-authenticating back-off decorator')
    emit(f'def retryB2SessionRequiresAuth : Bool := {_b(all_ra)}   -- … inside `requires_auth`')

    # ------------------------------------------------------------------ utils.requires_auth
    src = (ctx.REPO / 'replicat' / 'utils' / '__init__.py').read_text()
    umod = L.Mod(src, package='replicat.utils')
    tree = umod.tree
    ra = umod.funcs.get('requires_auth')
    ctx.fp('utils.requires_auth', ra)
    limit = None
    recurses = False
    if ra is not None:
        usym = L.Sym(umod)
        for sub in ast.walk(ra):
            if not isinstance(sub, ast.AsyncFunctionDef):
                continue
            nested = {n.name: n for n in ast.walk(sub) if isinstance(n, (ast.FunctionDef, ast.AsyncFunctionDef)) and n is not sub}

            def reach(nodes, depth=0):
                """the nodes and the bodies of the module-level / nested helpers they call"""
                out = []
                for x in nodes:
                    for y in ast.walk(x):
                        out.append(y)
                        if isinstance(y, ast.Call) and isinstance(y.func, ast.Name) and depth < 3:
                            h = nested.get(y.func.id) or (umod.funcs.get(y.func.id) if y.func.id != sub.name and y.func.id != ra.name else None)
                            if h is not None and h is not sub:
                                out += reach(h.body, depth + 1)
                return out
            self_name = sub.args.args[0].arg if sub.args.args else None
            for x in ast.walk(sub):
                if isinstance(x, ast.ExceptHandler) and x.type is not None and usym.dotted_of_decorator(x.type) is not None \
                        and usym.dotted_of_decorator(x.type).split('.')[-1] == 'AuthRequired':
                    inside = reach(x.body)
                    auth = any(isinstance(y, ast.Call) and isinstance(y.func, ast.Attribute) and y.func.attr == 'authenticate'
                               and isinstance(y.func.value, ast.Name) and y.func.value.id == self_name for y in inside)
                    func_params = {p.arg for p in ra.args.args}
                    again = any(isinstance(y, ast.Call) and isinstance(y.func, ast.Name) and y.func.id in ({sub.name} | func_params) for y in inside)
                    in_loop = any(isinstance(w, (ast.While, ast.For)) and any(z is x for z in ast.walk(w)) for w in ast.walk(sub)) and \
                        not any(isinstance(y, (ast.Return, ast.Raise, ast.Break)) for y in x.body)
                    recurses = auth and (again or in_loop)
            # a bound on the rounds: an integer module constant (or literal default) that the wrapper compares a counter with
            for x in ast.walk(sub):
                if isinstance(x, ast.Compare):
                    for y in [x.left] + list(x.comparators):
                        if isinstance(y, ast.Name) and y.id in umod.assigns and len(umod.assigns[y.id]) == 1 and umod.assigns[y.id][0] is not None:
                            v = _lit(umod.assigns[y.id][0])
                            if isinstance(v, int) and not isinstance(v, bool):
                                limit = v
    emit('/-! ### utils.requires_auth (async flavour) -/')
    emit(f'def retryReauthOnAuthRequired : Bool := {_b(recurses)}')
    emit(f'def retryReauthLimit : Option Nat := {_on(limit)}   -- a module constant bounding the re-authentication rounds (none = unbounded recursion)')
