"""C08: the PARSING side of the location format (`parse_chunk_location`, `parse_snapshot_location`), read from the source.

The building side (`CHUNK_PREFIX`, `SNAPSHOT_PREFIX`, the `tag[:a] / tag[a:b] / tag[b:]` slicing) is extracted by the main
translator (`Gen.chunkPrefix`, `Gen.snapshotPrefix`, `Gen.chunkLocSplit`, `Gen.snapLocSplit`).  Here: the separator given to
`rpartition`, the separator and `maxsplit` of `rsplit`, and the indices of the parts that are concatenated into the tag.
`ReplicatModel/Format.lean` is parameterised by these; `location_roundtrip` is proved about whatever they currently say.
A shape that is not recognised yields `opaque` constants: the round-trip lemmas then stop compiling (reported), the model still builds.

Recognition is SEMANTIC (`tools/symflow.py`): the function is executed symbolically on its location argument and the RESULT is
inspected — independent of variable names, of intermediate variables / tuple unpacking, of helper functions the work is moved to,
of how the guard is spelled (`if not ok: raise` / `if ok: … else: raise` / a checking helper) and of `+` vs f-string concatenation:

    every normal return is  LocationParts(name = L.rpartition(c)[2],  tag = P[i1] + P[i2] + …)   with  P = L.rpartition(c)[0].rsplit(d, k)
    and is reached only under  L.startswith(<the class's prefix constant>);  otherwise a ValueError is raised.
"""
import ast

import symflow as sf
from symflow import is_const, method_call


def _own(e):
    return not any(c[0] in ('inline', 'deferred') for c in e.ctx)


def _flatten_concat(v):
    """`a + b + c` / f'{a}{b}{c}' → [a, b, c]"""
    if v[0] == 'binop' and v[1] == 'Add':
        return _flatten_concat(v[2]) + _flatten_concat(v[3])
    if v[0] == 'concat':
        out = []
        for p in v[1]:
            out.extend(_flatten_concat(p))
        return out
    return [v]


def _fields(mod, cls_name):
    cls = mod.classes.get(cls_name)
    if cls is None:
        return None
    return [st.target.id for st in cls.body if isinstance(st, ast.AnnAssign) and isinstance(st.target, ast.Name)]


def _parse_shape(mod, fname, prefix_attr):
    """→ (rpartition sep, rsplit sep, maxsplit, [indices]) or None"""
    interp = sf.Interp(mod, 'Repository')
    events, _ = interp.run(fname)
    if not events:
        return None
    loc = ('arg', 0)
    try:
        prefix = sf.const(ast.literal_eval(sf.class_assigns(mod.classes['Repository'])[prefix_attr]))
    except Exception:  # noqa: BLE001
        return None
    starts = ('call', ('attr', loc, 'startswith'), (prefix,), ())
    rets = [e for e in events if e.kind == 'return' and _own(e)]
    raises = [e for e in events if e.kind == 'raise' and (starts, False) in e.guard]
    if not rets or not any(e.value[0] == 'call' and e.value[1] == ('global', 'ValueError') for e in raises):
        return None
    shapes = set()
    for r in rets:
        if (starts, True) not in r.guard:
            return None
        v = r.value
        if v[0] != 'call' or v[1] not in (('class', 'LocationParts'),) and not (v[1][0] == 'global' and v[1][1].split('.')[-1] == 'LocationParts'):
            return None
        kw = dict(v[3])
        fields = _fields(mod, 'LocationParts') or ['name', 'tag']
        for f, a in zip(fields, v[2]):
            kw.setdefault(f, a)
        if set(kw) != {'name', 'tag'}:
            return None
        name, tag = kw['name'], kw['tag']
        # name = L.rpartition(c)[2]
        if not (name[0] == 'sub' and name[2] == ('const', 2)):
            return None
        rp = method_call(name[1], ('rpartition',))
        if rp is None or rp[0] != loc or len(rp[2]) != 1 or rp[3] or not is_const(rp[2][0], str) or len(rp[2][0][1]) != 1:
            return None
        head = ('sub', name[1], ('const', 0))
        idx = []
        splits = set()
        for part in _flatten_concat(tag):
            if not (part[0] == 'sub' and is_const(part[2], int) and part[2][1] >= 0):
                return None
            rs = method_call(part[1], ('rsplit',))
            if rs is None or rs[0] != head or rs[3]:
                return None
            a = rs[2]
            if not (len(a) == 2 and is_const(a[0], str) and len(a[0][1]) == 1 and is_const(a[1], int)):
                return None
            splits.add((a[0][1], a[1][1]))
            idx.append(part[2][1])
        if len(splits) != 1 or not idx:
            return None
        dsep, k = next(iter(splits))
        shapes.add((rp[2][0][1], dsep, k, tuple(idx)))
    if len(shapes) != 1:
        return None
    nsep, dsep, k, idx = next(iter(shapes))
    return nsep, dsep, k, list(idx)


def _build_sep(mod, fname):
    """the constant between the tag remainder and the name in the last component the builder joins:
    `posixpath.join(…, <tag[n:]> + SEP + <name>)` → SEP (one character) or None"""
    interp = sf.Interp(mod, 'Repository')
    events, ret = interp.run(fname)
    if not events or ret is None:
        return None
    g = sf.global_call(ret, ('posixpath.join', 'os.path.join'))
    if g is None or not g[1]:
        return None
    parts = _flatten_concat(g[1][-1])
    name, tag = ('arg', 'name'), ('arg', 'tag')
    if len(parts) == 3 and parts[0][0] == 'sub' and parts[0][1] == tag and parts[0][2][0] == 'slice' and parts[0][2][2] == sf.NONE \
            and is_const(parts[1], str) and len(parts[1][1]) == 1 and parts[2] == name:
        return parts[1][1]
    return None


def section(ctx):
    src = (ctx.REPO / 'replicat' / 'repository.py').read_text()
    mod = sf.Module(src)
    for lean, fname, attr in (('chunk', 'parse_chunk_location', 'CHUNK_PREFIX'), ('snap', 'parse_snapshot_location', 'SNAPSHOT_PREFIX')):
        shape = None
        try:
            shape = _parse_shape(mod, fname, attr)
        except Exception as e:  # noqa: BLE001
            ctx.notes['format.' + fname] = f'failed: {e!r}'
        if shape is None:
            ctx.notes.setdefault('format.' + fname, 'shape not recognised')
            ctx.emit(f'opaque {lean}ParseNameSep : Char')
            ctx.emit(f'opaque {lean}ParseDirSep : Char')
            ctx.emit(f'opaque {lean}ParseSplits : Nat')
            ctx.emit(f'opaque {lean}ParseIdx : List Nat')
        else:
            nsep, dsep, n, idx = shape
            ctx.emit(f"def {lean}ParseNameSep : Char := '{nsep}'")
            ctx.emit(f"def {lean}ParseDirSep : Char := '{dsep}'")
            ctx.emit(f'def {lean}ParseSplits : Nat := {n}')
            ctx.emit(f'def {lean}ParseIdx : List Nat := [{", ".join(map(str, idx))}]')
    # the separator between tag remainder and name on the building side (f'{tag[k:]}-{name}')
    for lean, fname in (('chunk', 'get_chunk_location'), ('snap', 'get_snapshot_location')):
        sep = None
        try:
            sep = _build_sep(mod, fname)
        except Exception as e:  # noqa: BLE001
            ctx.notes['format.' + fname] = f'failed: {e!r}'
        if sep is not None and sep not in ("'", '\\'):
            ctx.emit(f"def {lean}BuildNameSep : Char := '{sep}'")
        else:
            ctx.notes['format.' + fname] = 'name separator not recognised'
            ctx.emit(f'opaque {lean}BuildNameSep : Char')
