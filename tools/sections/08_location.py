"""C08: the PARSING side of the location format (`parse_chunk_location`, `parse_snapshot_location`), read from the AST.

The building side (`CHUNK_PREFIX`, `SNAPSHOT_PREFIX`, the `tag[:a] / tag[a:b] / tag[b:]` slicing) is extracted by the main
translator (`Gen.chunkPrefix`, `Gen.snapshotPrefix`, `Gen.chunkLocSplit`, `Gen.snapLocSplit`).  Here: the separator given to
`rpartition`, the separator and `maxsplit` of `rsplit`, and the indices of the parts that are concatenated into the tag.
`ReplicatModel/Format.lean` is parameterised by these; `location_roundtrip` is proved about whatever they currently say.
A shape that is not recognised yields `opaque` constants: the round-trip lemmas then stop compiling (reported), the model still builds.
"""
import ast
import re


def _parse_shape(ctx, fn, prefix_attr):
    """→ (rpartition sep, rsplit sep, maxsplit, [indices]) or None.  Structural (AST) recognition, independent of variable names,
    comments and docstrings:
        if not <loc>.startswith(self.<PREFIX>): raise ValueError(...)
        <h>, _, <n> = <loc>.rpartition('<c>')
        <p> = <h>.rsplit('<d>', <k>)
        return LocationParts(name=<n>, tag=<p>[i1] + <p>[i2] + ...)"""
    if fn is None:
        return None
    body = [s for s in fn.body if not (isinstance(s, ast.Expr) and isinstance(getattr(s, 'value', None), ast.Constant))]
    if len(body) != 4:
        return None
    guard, part, split, ret = body
    loc = fn.args.posonlyargs[1].arg if len(fn.args.posonlyargs) > 1 else (fn.args.args[1].arg if len(fn.args.args) > 1 else None)
    if loc is None:
        return None
    if not (isinstance(guard, ast.If) and ctx.unparse(guard.test) == f'not {loc}.startswith(self.{prefix_attr})' and not guard.orelse
            and len(guard.body) == 1 and isinstance(guard.body[0], ast.Raise) and ctx.unparse(guard.body[0].exc).startswith('ValueError(')):
        return None
    if not (isinstance(part, ast.Assign) and len(part.targets) == 1 and isinstance(part.targets[0], ast.Tuple) and len(part.targets[0].elts) == 3
            and all(isinstance(e, ast.Name) for e in part.targets[0].elts)):
        return None
    h, _, n = (e.id for e in part.targets[0].elts)
    c = part.value
    if not (isinstance(c, ast.Call) and isinstance(c.func, ast.Attribute) and c.func.attr == 'rpartition' and ctx.unparse(c.func.value) == loc
            and len(c.args) == 1 and not c.keywords and isinstance(c.args[0], ast.Constant) and isinstance(c.args[0].value, str) and len(c.args[0].value) == 1):
        return None
    nsep = c.args[0].value
    if not (isinstance(split, ast.Assign) and len(split.targets) == 1 and isinstance(split.targets[0], ast.Name)):
        return None
    p = split.targets[0].id
    c = split.value
    if not (isinstance(c, ast.Call) and isinstance(c.func, ast.Attribute) and c.func.attr == 'rsplit' and ctx.unparse(c.func.value) == h
            and len(c.args) == 2 and not c.keywords and isinstance(c.args[0], ast.Constant) and isinstance(c.args[0].value, str) and len(c.args[0].value) == 1
            and isinstance(c.args[1], ast.Constant) and isinstance(c.args[1].value, int)):
        return None
    dsep, k = c.args[0].value, c.args[1].value
    if not (isinstance(ret, ast.Return) and isinstance(ret.value, ast.Call) and ctx.unparse(ret.value.func) == 'LocationParts' and not ret.value.args):
        return None
    kws = {kw.arg: kw.value for kw in ret.value.keywords}
    if set(kws) != {'name', 'tag'} or ctx.unparse(kws['name']) != n:
        return None
    idx = []

    def walk(e):
        if isinstance(e, ast.BinOp) and isinstance(e.op, ast.Add):
            return walk(e.left) and walk(e.right)
        if (isinstance(e, ast.Subscript) and isinstance(e.value, ast.Name) and e.value.id == p and isinstance(e.slice, ast.Constant)
                and isinstance(e.slice.value, int) and e.slice.value >= 0):
            idx.append(e.slice.value)
            return True
        return False
    if not walk(kws['tag']):
        return None
    return nsep, dsep, k, idx


def section(ctx):
    src = (ctx.REPO / 'replicat' / 'repository.py').read_text()
    tree = ast.parse(src)
    for lean, fname, attr in (('chunk', 'parse_chunk_location', 'CHUNK_PREFIX'), ('snap', 'parse_snapshot_location', 'SNAPSHOT_PREFIX')):
        fn = ctx.find_func(tree, 'Repository', fname)
        shape = None
        try:
            shape = _parse_shape(ctx, fn, attr)
        except Exception as e:  # noqa: BLE001
            ctx.notes['format.' + fname] = f'failed: {e!r}'
        if shape is None:
            ctx.notes.setdefault('format.' + fname, 'shape not recognised')
            ctx.emit(f'opaque {lean}ParseNameSep : Char')
            ctx.emit(f'opaque {lean}ParseDirSep : Char')
            ctx.emit(f'opaque {lean}ParseSplits : Nat')
            ctx.emit(f'opaque {lean}ParseIdx : List Nat')
        else:
            nsep, dsep, n, idx = shape
            ctx.emit(f"def {lean}ParseNameSep : Char := '{nsep}'")
            ctx.emit(f"def {lean}ParseDirSep : Char := '{dsep}'")
            ctx.emit(f'def {lean}ParseSplits : Nat := {n}')
            ctx.emit(f'def {lean}ParseIdx : List Nat := [{", ".join(map(str, idx))}]')
    # the separator between tag remainder and name on the building side (f'{tag[k:]}-{name}')
    for lean, fname in (('chunk', 'get_chunk_location'), ('snap', 'get_snapshot_location')):
        fn = ctx.find_func(tree, 'Repository', fname)
        txt = ctx.unparse(fn.body[-1]) if fn is not None else ''
        m = re.search(r"f'\{tag\[\d+:\]\}(.)\{name\}'\)$", txt)
        if m and txt.startswith('return posixpath.join('):
            ctx.emit(f"def {lean}BuildNameSep : Char := '{m.group(1)}'")
        else:
            ctx.notes['format.' + fname] = 'name separator not recognised'
            ctx.emit(f'opaque {lean}BuildNameSep : Char')
