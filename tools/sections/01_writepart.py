"""C01: the path of one chunk reference to the bytes of the restored file, read from the AST of replicat/repository.py.

`restore_file_exact` says that every byte of a restored file comes from the parts named by its references.  The model's
`writePart` WRITES every part it is handed; that is the code's behaviour iff

* `_write_file_part` is a straight line: after the file is opened, the operations on it are `seek(0, SEEK_END)`,
  `truncate(…)`, `seek(offset)`, `write(data)` in that order with NO control flow in between (no `if`/`return`/`raise`/loop/`try`
  that could make the write depend on the data, the offset or the old content), `data` / `offset` are not re-bound, and
* every reference reaches it: `_write_chunk_ref` calls `_write_file_part` exactly once, outside any `if`/`try`/loop, with the
  slice `contents[start:start + chunk_size]` at `stream_start`; `_download_chunk` submits `_write_chunk_ref` for every `ref in refs`
  outside any `if`.

Emitted:
  `inductive WOp`                       — the vocabulary (seekEnd, truncate, seekOffset, writeData, branch, other)
  `def writePartOps : List WOp`          — the operations of `_write_file_part` from the open to the end, in program order;
                                           `branch` = a statement that may change the control flow, `other` = a statement on the
                                           file / its arguments that is not one of the four (e.g. re-binding `data`)
  `def everyRefReachesWritePart : Bool`  — the second bullet
`Layout.lean::runW` interprets the list; `C01.write_part_unconditional` proves it equal to `writePart` for whatever the branch
conditions are — which can only be proved when there is no `branch`/`other` in the list.
"""
import ast

FILE_METHODS = {'seek', 'truncate', 'write'}
CONTROL = (ast.If, ast.Return, ast.Raise, ast.For, ast.While, ast.Try, ast.Break, ast.Continue, ast.Match, ast.Assert,
           ast.AsyncFor, ast.With, ast.AsyncWith)
if hasattr(ast, 'TryStar'):
    CONTROL = CONTROL + (ast.TryStar,)


def _is_logging(ctx, st):
    return (isinstance(st, ast.Expr) and isinstance(st.value, ast.Call)
            and ctx.unparse(st.value.func).split('.')[0] in ('logger', 'logging'))


def _file_call(st):
    """(file variable, method, call node) when the statement is `f.m(…)` or `x = f.m(…)` with m a file method"""
    v = st.value if isinstance(st, (ast.Expr, ast.Assign, ast.AnnAssign)) else None
    if isinstance(v, ast.Call) and isinstance(v.func, ast.Attribute) and isinstance(v.func.value, ast.Name) and v.func.attr in FILE_METHODS:
        return v.func.value.id, v.func.attr, v
    return None


def _classify(ctx, st, fvar, argnames, state):
    """one statement of the body that works on the open file -> list of op names"""
    if _is_logging(ctx, st) or isinstance(st, ast.Pass) or (isinstance(st, ast.Expr) and isinstance(st.value, ast.Constant)):
        return []
    if isinstance(st, CONTROL):
        # an `if`/`try`/loop/`return` between the operations: the write may depend on something
        return ['branch']
    fc = _file_call(st)
    if fc is not None and fc[0] == fvar:
        _, meth, call = fc
        args = [ctx.unparse(a) for a in call.args]
        if meth == 'seek' and len(args) == 2 and args[0] == '0' and args[1] in ('io.SEEK_END', 'os.SEEK_END', '2', 'SEEK_END') and not call.keywords:
            if isinstance(st, ast.Assign) and len(st.targets) == 1 and isinstance(st.targets[0], ast.Name):
                state['file_end'] = st.targets[0].id
            return ['seekEnd']
        if meth == 'truncate' and len(args) == 1 and not call.keywords:
            return ['truncate']
        if meth == 'seek' and not call.keywords and (args == [argnames[1]] or (len(args) == 2 and args[0] == argnames[1] and args[1] in ('io.SEEK_SET', 'os.SEEK_SET', '0', 'SEEK_SET'))):
            return ['seekOffset']
        if meth == 'write' and args == [argnames[0]] and not call.keywords:
            return ['writeData']
        return ['other']
    # anything else that touches the file, the data or the offset (re-binding, slicing, a helper call that gets them)
    names = {n.id for n in ast.walk(st) if isinstance(n, ast.Name)}
    if names & ({fvar} | set(argnames)):
        return ['other']
    # a statement that mentions none of them cannot change what is written (e.g. a counter)
    if any(isinstance(n, (ast.Yield, ast.YieldFrom, ast.Await)) for n in ast.walk(st)):
        return ['branch']
    return []


def write_part_ops(ctx, fn):
    """-> (ops, note)"""
    params = [a.arg for a in fn.args.args]
    if len(params) != 4 or fn.args.vararg or fn.args.kwarg or fn.args.kwonlyargs:
        return None, f'signature not recognised: {params}'
    argnames = (params[2], params[3])      # data, offset
    # the variable the opened file is bound to: the `with <name>:` whose body holds the operations
    ops = []
    state = {}
    seen_with = False
    for st in fn.body:
        if _is_logging(ctx, st):
            continue
        it = st.items[0] if isinstance(st, ast.With) and len(st.items) == 1 else None
        if it is not None and ((it.optional_vars is None and isinstance(it.context_expr, ast.Name)) or isinstance(it.optional_vars, ast.Name)):
            if seen_with:
                ops.append('branch')
                continue
            seen_with = True
            fvar = it.context_expr.id if it.optional_vars is None else it.optional_vars.id      # `with file:` / `with … as file:`
            for inner in st.body:
                ops += _classify(ctx, inner, fvar, argnames, state)
            continue
        if not seen_with:
            # the open: `try: file = path.open('r+b') except FileNotFoundError: …; file = path.open('wb')` or a plain assignment
            if isinstance(st, (ast.Try, ast.Assign)):
                names = {n.id for n in ast.walk(st) if isinstance(n, ast.Name)}
                if names & set(argnames):
                    ops.append('other')
                continue
            ops.append('branch' if isinstance(st, CONTROL) else 'other')
        else:
            ops += _classify(ctx, st, '\0', argnames, state)
    if not seen_with:
        return None, 'no `with <file>:` block found'
    return ops, ''


def every_ref_reaches(ctx, rs):
    wcr = ctx.find_func(rs, '_write_chunk_ref')
    dc = ctx.find_func(rs, '_download_chunk')
    if wcr is None or dc is None:
        return False, 'restore._write_chunk_ref / _download_chunk not found'

    def parents(root):
        par = {}
        for n in ast.walk(root):
            for ch in ast.iter_child_nodes(n):
                par[ch] = n
        return par

    def guarded(node, par, root):
        """is the node under an if / try / loop / nested function inside root (a `with` block is fine)"""
        n = par.get(node)
        while n is not None and n is not root:
            if isinstance(n, (ast.If, ast.Try, ast.For, ast.While, ast.IfExp, ast.FunctionDef, ast.Lambda, ast.BoolOp, ast.Match)):
                return True
            n = par.get(n)
        return False

    par = parents(wcr)
    calls = [n for n in ast.walk(wcr) if isinstance(n, ast.Call) and ctx.unparse(n.func) == 'self._write_file_part']
    if len(calls) != 1:
        return False, f'_write_chunk_ref calls _write_file_part {len(calls)} times'
    call = calls[0]
    if guarded(call, par, wcr):
        return False, '_write_file_part is called under a condition in _write_chunk_ref'
    # no early exit before the call
    for n in ast.walk(wcr):
        if isinstance(n, (ast.Return, ast.Raise, ast.Continue, ast.Break)) and n.lineno < call.lineno:
            return False, '_write_chunk_ref may leave before the call'
    unpack = [ctx.unparse(n) for n in wcr.body if isinstance(n, ast.Assign)]
    args = [ctx.unparse(a) for a in call.args]
    if 'file_path, chunk_size, stream_start, start = ref' not in unpack or len(args) != 3 or \
            args[1].replace(' ', '') != 'contents[start:start+chunk_size]' or args[2] != 'stream_start':
        return False, f'arguments of _write_file_part not recognised: {args}'
    # _download_chunk: for ref in refs: writer.submit(_write_chunk_ref, ref, view) — unconditionally
    par = parents(dc)
    subs = [n for n in ast.walk(dc) if isinstance(n, ast.Call) and any(ctx.unparse(a) == '_write_chunk_ref' for a in n.args)
            or (isinstance(n, ast.Call) and ctx.unparse(n.func) == '_write_chunk_ref')]
    if len(subs) != 1:
        return False, f'_write_chunk_ref is used {len(subs)} times in _download_chunk'
    n = par.get(subs[0])
    loop = None
    while n is not None and n is not dc:
        if isinstance(n, ast.For) and loop is None and ctx.unparse(n.iter) == 'refs' and ctx.unparse(n.target) == 'ref':
            loop = n
        elif isinstance(n, (ast.If, ast.Try, ast.While, ast.IfExp, ast.For, ast.BoolOp, ast.FunctionDef, ast.Lambda, ast.Match)):
            return False, 'the submission of _write_chunk_ref is conditional'
        n = par.get(n)
    if loop is None:
        return False, 'no `for ref in refs` loop around the submission'
    if any(isinstance(x, (ast.Continue, ast.Break, ast.Return)) for x in ast.walk(loop)):
        return False, 'the loop over refs may skip references'
    return True, ''


def section(ctx):
    src = (ctx.REPO / 'replicat' / 'repository.py').read_text()
    tree = ast.parse(src)
    ctx.emit('/-- operations of `Repository._write_file_part` on the opened file, in program order (tools/sections/01_writepart.py) -/')
    ctx.emit('inductive WOp where')
    ctx.emit('  | seekEnd | truncate | seekOffset | writeData | branch | other')
    ctx.emit('deriving DecidableEq, Repr')
    wf = ctx.find_func(tree, 'Repository', '_write_file_part')
    ops, note = (None, '_write_file_part not found') if wf is None else write_part_ops(ctx, wf)
    if ops is None:
        ctx.notes['write_file_part.ops'] = note
        ctx.emit('opaque writePartOps : List WOp')
    else:
        ctx.emit('def writePartOps : List WOp := [' + ', '.join('.' + o for o in ops) + ']')
        if ops != ['seekEnd', 'truncate', 'seekOffset', 'writeData']:
            ctx.notes['write_file_part.ops'] = f'not the straight line seekEnd, truncate, seekOffset, writeData: {ops}'
    rs = ctx.find_func(tree, 'Repository', 'restore')
    ok, why = (False, 'restore not found') if rs is None else every_ref_reaches(ctx, rs)
    if not ok:
        ctx.notes['restore.every_ref_reaches_write_part'] = why
    ctx.emit(f'def everyRefReachesWritePart : Bool := {"true" if ok else "false"}')
