"""C01: the path of one chunk reference to the bytes of the restored file, read from the AST of replicat/repository.py.

`restore_file_exact` says that every byte of a restored file comes from the parts named by its references.  The model's
`writePart` WRITES every part it is handed; that is the code's behaviour iff

* `_write_file_part` is a straight line: after the file is opened, the operations on it are `seek(0, SEEK_END)`,
  `truncate(…)`, `seek(offset)`, `write(data)` in that order with NO control flow in between (no `if`/`return`/`raise`/loop/`try`
  that could make the write depend on the data, the offset or the old content), `data` / `offset` are not re-bound, and
* every reference reaches it: `_write_chunk_ref` calls `_write_file_part` exactly once, outside any `if`/`try`/loop, with the
  slice `contents[start:start + chunk_size]` at `stream_start`; `_download_chunk` submits `_write_chunk_ref` for every `ref in refs`
  outside any `if`.

Emitted:
  `inductive WOp`                       — the vocabulary (seekEnd, truncate, seekOffset, writeData, branch, other)
  `def writePartOps : List WOp`          — the operations of `_write_file_part` from the open to the end, in program order;
                                           `branch` = a statement that may change the control flow, `other` = a statement on the
                                           file / its arguments that is not one of the four (e.g. re-binding `data`)
  `def everyRefReachesWritePart : Bool`  — the second bullet
`Layout.lean::runW` interprets the list; `C01.write_part_unconditional` proves it equal to `writePart` for whatever the branch
conditions are — which can only be proved when there is no `branch`/`other` in the list.
"""
import ast

import symflow as sf

FILE_METHODS = {'seek', 'truncate', 'write'}
CONTROL = (ast.If, ast.Return, ast.Raise, ast.For, ast.While, ast.Try, ast.Break, ast.Continue, ast.Match, ast.Assert,
           ast.AsyncFor, ast.With, ast.AsyncWith)
if hasattr(ast, 'TryStar'):
    CONTROL = CONTROL + (ast.TryStar,)


def _is_logging(ctx, st):
    return (isinstance(st, ast.Expr) and isinstance(st.value, ast.Call)
            and ctx.unparse(st.value.func).split('.')[0] in ('logger', 'logging'))


def _file_call(st):
    """(file variable, method, call node) when the statement is `f.m(…)` or `x = f.m(…)` with m a file method"""
    v = st.value if isinstance(st, (ast.Expr, ast.Assign, ast.AnnAssign)) else None
    if isinstance(v, ast.Call) and isinstance(v.func, ast.Attribute) and isinstance(v.func.value, ast.Name) and v.func.attr in FILE_METHODS:
        return v.func.value.id, v.func.attr, v
    return None


def _classify(ctx, st, fvar, argnames, state):
    """one statement of the body that works on the open file -> list of op names"""
    if _is_logging(ctx, st) or isinstance(st, ast.Pass) or (isinstance(st, ast.Expr) and isinstance(st.value, ast.Constant)):
        return []
    if isinstance(st, CONTROL):
        # an `if`/`try`/loop/`return` between the operations: the write may depend on something
        return ['branch']
    fc = _file_call(st)
    if fc is not None and fc[0] == fvar:
        _, meth, call = fc
        args = [ctx.unparse(a) for a in call.args]
        if meth == 'seek' and len(args) == 2 and args[0] == '0' and args[1] in ('io.SEEK_END', 'os.SEEK_END', '2', 'SEEK_END') and not call.keywords:
            if isinstance(st, ast.Assign) and len(st.targets) == 1 and isinstance(st.targets[0], ast.Name):
                state['file_end'] = st.targets[0].id
            return ['seekEnd']
        if meth == 'truncate' and len(args) == 1 and not call.keywords:
            return ['truncate']
        if meth == 'seek' and not call.keywords and (args == [argnames[1]] or (len(args) == 2 and args[0] == argnames[1] and args[1] in ('io.SEEK_SET', 'os.SEEK_SET', '0', 'SEEK_SET'))):
            return ['seekOffset']
        if meth == 'write' and args == [argnames[0]] and not call.keywords:
            return ['writeData']
        return ['other']
    # anything else that touches the file, the data or the offset (re-binding, slicing, a helper call that gets them)
    names = {n.id for n in ast.walk(st) if isinstance(n, ast.Name)}
    if names & ({fvar} | set(argnames)):
        return ['other']
    # a statement that mentions none of them cannot change what is written (e.g. a counter)
    if any(isinstance(n, (ast.Yield, ast.YieldFrom, ast.Await)) for n in ast.walk(st)):
        return ['branch']
    return []


def write_part_ops(ctx, fn):
    """-> (ops, note)"""
    params = [a.arg for a in fn.args.args]
    if len(params) != 4 or fn.args.vararg or fn.args.kwarg or fn.args.kwonlyargs:
        return None, f'signature not recognised: {params}'
    argnames = (params[2], params[3])      # data, offset
    # the variable the opened file is bound to: the `with <name>:` whose body holds the operations
    ops = []
    state = {}
    seen_with = False
    for st in fn.body:
        if _is_logging(ctx, st):
            continue
        it = st.items[0] if isinstance(st, ast.With) and len(st.items) == 1 else None
        if it is not None and ((it.optional_vars is None and isinstance(it.context_expr, ast.Name)) or isinstance(it.optional_vars, ast.Name)):
            if seen_with:
                ops.append('branch')
                continue
            seen_with = True
            fvar = it.context_expr.id if it.optional_vars is None else it.optional_vars.id      # `with file:` / `with … as file:`
            for inner in st.body:
                ops += _classify(ctx, inner, fvar, argnames, state)
            continue
        if not seen_with:
            # the open: `try: file = path.open('r+b') except FileNotFoundError: …; file = path.open('wb')` or a plain assignment
            if isinstance(st, (ast.Try, ast.Assign)):
                names = {n.id for n in ast.walk(st) if isinstance(n, ast.Name)}
                if names & set(argnames):
                    ops.append('other')
                continue
            ops.append('branch' if isinstance(st, CONTROL) else 'other')
        else:
            ops += _classify(ctx, st, '\0', argnames, state)
    if not seen_with:
        return None, 'no `with <file>:` block found'
    return ops, ''


class _Interp(sf.Interp):
    """symflow interpreter that also remembers the guard under which a comprehension / `map` is entered"""

    def __init__(self, *a, **kw):
        super().__init__(*a, **kw)
        self.entered_under = {}

    def _comp(self, e, env, elt_fn):
        g = frozenset(x for x, _ in self.guard)
        r = super()._comp(e, env, elt_fn)
        self.entered_under[r[3]] = g
        return r

    def _map(self, f, it, node):
        g = frozenset(x for x, _ in self.guard)
        r = super()._map(f, it, node)
        self.entered_under[r[3]] = g
        return r


_TRANSPARENT = ('deferred', 'inline', 'with', 'try-body', 'try-else', 'finally')
_SEEK_SET = (sf.const(0), ('global', 'io.SEEK_SET'), ('global', 'os.SEEK_SET'))


def _is_open_call(t):
    return t[0] == 'call' and ((t[1][0] == 'attr' and t[1][2] == 'open') or (t[1][0] == 'global' and t[1][1] in ('open', 'io.open', 'os.fdopen')))


def _is_file(t):
    return sf.contains(t, _is_open_call)


def _strip_view(t):
    while t[0] == 'call' and t[1][0] == 'global' and t[1][1] in ('memoryview', 'bytes', 'bytearray') and len(t[2]) == 1 and not t[3]:
        t = t[2][0]
    return t


def _component(t):
    """`ref[n]` / the n-th name of `a, b, c, d = ref`  ->  (ref term, n)"""
    if t[0] == 'unpack':
        return t[1], t[2]
    if t[0] == 'sub' and sf.is_const(t[2], int) and t[2][1] >= 0:
        return t[1], t[2][1]
    return None


def _strip_passthrough(t):
    while t[0] == 'call' and t[1][0] == 'global' and t[1][1] in sf.PASS_THROUGH_ITER and len(t[2]) >= 1:
        t = t[2][0]
    return t


def file_writes(evs):
    """the `file.write(data)` events of a run whose data is not a constant: [(event, file term, data term)]"""
    out = []
    for e in evs:
        if e.kind == 'call' and e.callee[0] == 'attr' and e.callee[2] == 'write' and len(e.args) == 1 and _is_file(e.callee[1]) \
                and not sf.is_const(e.args[0]):
            out.append((e, e.callee[1], e.args[0]))
    return out


def every_ref_reaches(interp, evs):
    """Over the symbolic execution of `restore` (helpers, nested functions, functions handed to executors all inlined): every element
    `ref` of the list of references a chunk loader gets reaches ONE `file.write` — under no condition beyond those under which the loop
    over the references is entered, in no further loop / exception handler — and what is written is `contents[ref[s] : ref[s] + ref[n]]`
    at the position `file.seek(ref[o])`, where (s, n, o) are the slots the restore plan fills with (start in the chunk, length,
    position in the file).  -> (ok, why, name of the function that holds the write)"""
    writes = file_writes(evs)
    if not writes:
        return False, 'no write of referenced data to an opened file found in restore', None
    per_loop = {}
    layout = None
    holder = None
    for w, fterm, data in writes:
        d = _strip_view(data)
        if not (d[0] == 'sub' and d[2][0] == 'slice' and d[2][3] == sf.NONE):
            return False, f'written data is not a slice of the chunk contents: {sf.show(data)[:80]}', None
        contents, lo, hi = d[1], d[2][1], d[2][2]
        cs = _component(lo)
        if cs is None or cs[0][0] != 'elem':
            return False, f'start of the written slice is not a slot of the reference: {sf.show(lo)[:80]}', None
        ref, s_i = cs
        cn = None
        if hi[0] == 'binop' and hi[1] == 'Add':
            other = hi[3] if hi[2] == lo else (hi[2] if hi[3] == lo else None)
            cn = _component(other) if other is not None else None
        if cn is None or cn[0] != ref:
            return False, f'end of the written slice is not start + a slot of the reference: {sf.show(hi)[:80]}', None
        n_i = cn[1]
        if sf.mentions(contents, ref) or sf.is_const(contents):
            return False, 'the sliced contents depend on the reference', None
        # the position: the last seek on this file before the write, in the same frame
        seeks = [e for e in evs if e.kind == 'call' and e.callee == ('attr', fterm, 'seek') and e.seq < w.seq and e.ctx == w.ctx]
        if not seeks:
            return False, 'no seek before the write', None
        sk = seeks[-1]
        if not (len(sk.args) == 1 or (len(sk.args) == 2 and sk.args[1] in _SEEK_SET)) or sk.kwargs:
            return False, f'the last seek before the write is not absolute: {sf.show(sk.value)[:80]}', None
        co = _component(sk.args[0])
        if co is None or co[0] != ref:
            return False, f'the write position is not a slot of the reference: {sf.show(sk.args[0])[:80]}', None
        o_i = co[1]
        if len({s_i, n_i, o_i}) != 3:
            return False, 'start / length / position are not three different slots of the reference', None
        if layout is not None and layout != (s_i, n_i, o_i):
            return False, 'two writes read the reference differently', None
        layout = (s_i, n_i, o_i)
        # the loop over the references, and nothing conditional between it and the write
        k = len(w.ctx) - 1
        while k >= 0 and w.ctx[k][0] in _TRANSPARENT:
            k -= 1
        if k < 0 or w.ctx[k][0] not in ('for', 'comp'):
            return False, f'the write is inside a {w.ctx[k][0] if k >= 0 else "function that is not applied to every reference"}', None
        tag, lid = w.ctx[k][0], w.ctx[k][1]
        loop = interp.loops.get(lid)
        if loop is not None:
            if loop.kind not in ('for',) or _strip_passthrough(loop.iter) != ref[1]:
                return False, 'the enclosing loop does not run over the references of the written slice', None
            outer = loop.outer_guard
        elif lid in interp.entered_under:
            outer = interp.entered_under[lid]
        else:
            return False, 'enclosing iteration not understood', None
        if sf.contains(ref[1], lambda t: t[0] in ('slice', 'phi') or (t[0] == 'comp' and t[2])):
            return False, 'only a part of the references is iterated', None
        extra = w.guard - outer
        if extra:
            return False, 'a reference reaches the write only under ' + sf.show_guard(extra)[:120], None
        per_loop[lid] = per_loop.get(lid, 0) + 1
        inl = [c for c in w.ctx if c[0] == 'inline' and len(c) >= 3]
        holder = inl[-1][2] if inl else None
    if any(v != 1 for v in per_loop.values()):
        return False, 'a reference is written more than once', None
    # the slots as the plan fills them: the 4-tuple appended per reference
    s_i, n_i, o_i = layout
    plans = [e.args[0][1] for e in evs if e.kind == 'call' and e.callee[0] == 'attr' and e.callee[2] == 'append' and len(e.args) == 1
             and e.args[0][0] == 'tuple' and len(e.args[0][1]) > max(layout) and len(e.args[0][1]) >= 4]
    if not plans:
        if layout != (3, 1, 2):
            return False, f'slots {layout} of the reference, and the place where the plan builds references was not found', None
        return True, '', holder
    for t in plans:
        length, start, pos = t[n_i], t[s_i], t[o_i]
        if not (length[0] == 'binop' and length[1] == 'Sub' and length[3] == start):
            return False, f'slot {n_i} of a reference is not (end - slot {s_i}): {sf.show(length)[:80]}', None
        lp = interp.loops.get(pos[1]) if pos[0] == 'carried' else None
        nxt = lp.next.get(pos[2]) if lp is not None else None
        if lp is None or lp.init.get(pos[2]) != sf.const(0) or nxt not in (('binop', 'Add', pos, length), ('binop', 'Add', length, pos)):
            return False, f'slot {o_i} of a reference is not the running sum of the lengths', None
    return True, '', holder


def section(ctx):
    src = (ctx.REPO / 'replicat' / 'repository.py').read_text()
    tree = ast.parse(src)
    ctx.emit('/-- operations of `Repository._write_file_part` on the opened file, in program order (tools/sections/01_writepart.py) -/')
    ctx.emit('inductive WOp where')
    ctx.emit('  | seekEnd | truncate | seekOffset | writeData | branch | other')
    ctx.emit('deriving DecidableEq, Repr')
    # symbolic execution of restore: where do the references end up?
    interp, evs = None, None
    try:
        mod = sf.Module(src)
        if 'Repository' in mod.classes:
            interp = _Interp(mod, 'Repository')
            evs, _ = interp.run('restore')
    except (sf.TooBig, RecursionError):
        evs = None
    ok, why, holder = (False, 'restore not found / too large', None) if evs is None else every_ref_reaches(interp, evs)
    # the function that performs the write (whatever it is called), for the operation list
    wf = ctx.find_func(tree, 'Repository', holder) if holder else None
    if wf is None:
        wf = ctx.find_func(tree, 'Repository', '_write_file_part')
    ops, note = (None, '_write_file_part not found') if wf is None else write_part_ops(ctx, wf)
    if ops is None:
        ctx.notes['write_file_part.ops'] = note
        ctx.emit('opaque writePartOps : List WOp')
    else:
        ctx.emit('def writePartOps : List WOp := [' + ', '.join('.' + o for o in ops) + ']')
        if ops != ['seekEnd', 'truncate', 'seekOffset', 'writeData']:
            ctx.notes['write_file_part.ops'] = f'not the straight line seekEnd, truncate, seekOffset, writeData: {ops}'
    if not ok:
        ctx.notes['restore.every_ref_reaches_write_part'] = why
    ctx.emit(f'def everyRefReachesWritePart : Bool := {"true" if ok else "false"}')
