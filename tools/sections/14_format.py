"""C04 / C05 / C14: the verification guards, the naming / key-derivation scheme and the serialisation hints the symbolic model
(`ReplicatModel/Sym.lean`) is parameterised by, read from replicat/repository.py, replicat/utils/adapters.py and
replicat/utils/__init__.py.

The facts are SEMANTIC: `tools/symflow.py` enumerates the control-flow paths of the functions concerned (locals substituted away,
private helpers / nested functions / properties inlined, conditions normalised, one path per outcome of every test) and
`tools/replicat_facts.py` asks, on those paths, which value reaches which call after which comparison.  Renaming locals or private
helpers, extracting or inlining a helper, swapping if/else branches, early returns, conditional expressions, hoisting a value into a
local, extra logging … leave the facts unchanged; removing the structure a theorem relies on (a guard that no longer precedes the use,
a key derived from something else, a name that is not the MAC of the digest) makes the fact `false` / `opaque`, and the theorems
in Properties/C04|C05|C14.lean that discharge it by `decide` stop compiling (= broken proof obligation, reported by the check; the
direct oracles then look for a failing input).  Code that cannot be analysed yields `false` / `opaque` plus a note, never `true`.
"""
import sys
from pathlib import Path

sys.path.insert(0, str(Path(__file__).resolve().parent.parent))
import replicat_facts as rf  # noqa: E402
import symflow_fmt as symflow  # noqa: E402


def _b(x):
    return 'true' if x else 'false'


def _strs(xs):
    return '[' + ', '.join('"%s"' % k for k in xs) + ']'


def _run(notes, key, fn, an, default):
    """an analysis never takes the extractor down: a crash is a note and all its facts are false"""
    try:
        r = fn(an)
    except Exception as e:  # noqa: BLE001
        notes[key] = f'analysis failed: {e!r}'
        return dict(default)
    if r.get('why'):
        notes[key] = r['why']
    return r


def section(ctx):
    an = symflow.analyzer_for(ctx.REPO)
    rtree = an.mods['repository'].tree
    atree = an.mods['adapters'].tree
    utree = an.mods['utils'].tree
    notes = ctx.notes
    for name, path in (('repository.Repository.restore._download_chunk', ('Repository', 'restore', '_download_chunk')),
                       ('repository.Repository.snapshot._chunk_producer', ('Repository', 'snapshot', '_chunk_producer')),
                       ('repository.Repository._chunk_digest_to_location_parts', ('Repository', '_chunk_digest_to_location_parts')),
                       ('repository.Repository._snapshot_digest_to_location_parts', ('Repository', '_snapshot_digest_to_location_parts')),
                       ('repository.Repository._load_snapshots._download_snapshot', ('Repository', '_load_snapshots', '_download_snapshot')),
                       ('repository.Repository._download_snapshot_threadsafe', ('Repository', '_download_snapshot_threadsafe')),
                       ('repository.Repository._encrypt_snapshot_body', ('Repository', '_encrypt_snapshot_body')),
                       ('repository.Repository._decrypt_snapshot_body', ('Repository', '_decrypt_snapshot_body')),
                       ('repository.Repository.init', ('Repository', 'init')),
                       ('repository.Repository._add_key', ('Repository', '_add_key')),
                       ('repository.Repository.restore_metadata', ('Repository', 'restore_metadata'))):
        ctx.fp(name, ctx.find_func(rtree, *path))
    ctx.fp('adapters.AEADCipherAdapterMixin.encrypt', ctx.find_func(atree, 'AEADCipherAdapterMixin', 'encrypt'))
    ctx.fp('utils.type_hint', ctx.find_func(utree, 'type_hint'))
    ctx.fp('utils.type_reverse', ctx.find_func(utree, 'type_reverse'))

    # ---------------------------------------------------------------- restore: the chunk loader
    # (found as THE function under `restore` that calls backend.download_stream, whatever it is called and however it is split)
    ld = _run(notes, 'restore.chunk_loader', rf.chunk_loader, an, dict(found=False, verified=False, key_from_digest=False, loc={}))
    # ---------------------------------------------------------------- snapshot: producer / worker / the uploaded snapshot object
    q = _run(notes, 'snapshot.chunk_queue', rf.snapshot_queue, an,
             dict(found=False, write_key_from_digest=False, name_depth=None, tag_depth=None, plain_name_is_digest=False, loc={}))
    up = _run(notes, 'snapshot.upload', rf.snapshot_upload, an,
              dict(stored_under_own_digest=False, name_is_digest=False, tag_depth=None, plain_tag_is_digest=False, body_scheme=False))
    # the loader looks where the producer stores: same function of the digest, for an encrypted and for a plain repository
    loc_same = bool(ld.get('found') and q.get('found')) and all(
        len(ld['loc'].get(pol, ())) == 1 and ld['loc'].get(pol) == q['loc'].get(pol) for pol in (True, False))
    if not loc_same:
        notes['restore.chunk_location'] = 'the chunk loader does not download from the location the producer stores at (as functions of the digest)'
    ctx.emit(f'def chunkDigestVerified : Bool := {_b(ld.get("verified"))}')
    ctx.emit(f'def chunkReadKeyFromDigest : Bool := {_b(ld.get("key_from_digest"))}')
    ctx.emit(f'def chunkReadLocFromDigest : Bool := {_b(loc_same)}')
    ctx.emit(f'def chunkWriteKeyFromDigest : Bool := {_b(q.get("write_key_from_digest"))}')
    if q.get('name_depth') is None or q.get('tag_depth') is None:
        notes['chunk.names'] = 'naming scheme of chunks (name / tag = MAC^k(digest)) not recognised'
        ctx.emit('opaque chunkNameMacDepth : Nat')
        ctx.emit('opaque chunkTagMacDepth : Nat')
    else:
        ctx.emit(f'def chunkNameMacDepth : Nat := {q["name_depth"]}')
        ctx.emit(f'def chunkTagMacDepth : Nat := {q["tag_depth"]}')
    ctx.emit(f'def chunkPlainNameIsDigest : Bool := {_b(q.get("plain_name_is_digest"))}')
    if up.get('tag_depth') is None:
        notes['snapshot.names'] = 'naming scheme of snapshots (tag = MAC^k(digest of the uploaded bytes)) not recognised'
        ctx.emit('opaque snapTagMacDepth : Nat')
    else:
        ctx.emit(f'def snapTagMacDepth : Nat := {up["tag_depth"]}')
    ctx.emit(f'def snapNameIsDigest : Bool := {_b(up.get("name_is_digest"))}')
    ctx.emit(f'def snapPlainTagIsDigest : Bool := {_b(up.get("plain_tag_is_digest"))}')
    ctx.emit(f'def snapStoredUnderOwnDigest : Bool := {_b(up.get("stored_under_own_digest"))}')

    # ---------------------------------------------------------------- snapshot loading: tag check, digest check, body
    sl = _run(notes, 'load.snapshot', rf.snapshot_loader, an,
              dict(tag_checked=False, digest_verified=False, expected_is_name=False, body_read=False, foreign_tolerated=False))
    ctx.emit(f'def snapTagChecked : Bool := {_b(sl.get("tag_checked"))}')
    ctx.emit(f'def snapExpectedDigestIsName : Bool := {_b(sl.get("expected_is_name"))}')
    ctx.emit(f'def snapDigestVerified : Bool := {_b(sl.get("digest_verified"))}')
    ctx.emit(f'def snapBodyWriteScheme : Bool := {_b(up.get("body_scheme"))}')
    ctx.emit(f'def snapBodyReadScheme : Bool := {_b(sl.get("body_read"))}')
    ctx.emit(f'def snapForeignDataTolerated : Bool := {_b(sl.get("foreign_tolerated"))}')

    # ---------------------------------------------------------------- key files
    kf = _run(notes, 'key.files', rf.key_files, an,
              dict(private_encrypted_before_emit=False, config_upload_only=False, userkey_is_kdf=False, private_keys=[]))
    ctx.emit(f'def privateEncryptedBeforeEmit : Bool := {_b(kf.get("private_encrypted_before_emit"))}')
    ctx.emit(f'def configUploadIsConfigOnly : Bool := {_b(kf.get("config_upload_only"))}')
    ctx.emit(f'def userKeyIsKdfOfPassword : Bool := {_b(kf.get("userkey_is_kdf"))}')
    ctx.emit('def privateSectionKeys : List String := ' + _strs(kf.get('private_keys') or []))

    # ---------------------------------------------------------------- adapters: nonce per encryption; shared sub-key derivation; MAC
    nn = _run(notes, 'aead.nonce', rf.aead_nonce, an, dict(nonce_fresh=False))
    ctx.emit(f'def nonceFreshPerEncrypt : Bool := {_b(nn.get("nonce_fresh"))}')
    pp = _run(notes, 'props.primitives', rf.props_primitives, an, dict(subkey_scheme=False, mac_scheme=False))
    ctx.emit(f'def sharedSubkeyScheme : Bool := {_b(pp.get("subkey_scheme"))}')
    ctx.emit(f'def macScheme : Bool := {_b(pp.get("mac_scheme"))}')

    # ---------------------------------------------------------------- metadata fallback (pre-1.3 snapshots)
    md = _run(notes, 'metadata.fallback', rf.metadata_fallback, an, dict(ns_keys=[], legacy_keys=[], fallback=False))
    ctx.emit('def metaNsKeys : List String := ' + _strs(md.get('ns_keys') or []))
    ctx.emit('def metaLegacyKeys : List String := ' + _strs(md.get('legacy_keys') or []))
    ctx.emit(f'def metaFallbackOnKeyError : Bool := {_b(md.get("fallback"))}')

    # ---------------------------------------------------------------- JSON byte-string hint
    jh = _run(notes, 'json.hint', rf.json_hints, an, dict(hint_key=None, standard_b64=False, single_key=False, uses_hints=False))
    if not isinstance(jh.get('hint_key'), str) or '"' in jh['hint_key'] or '\\' in jh['hint_key']:
        ctx.emit('opaque bytesHintKey : String')
    else:
        ctx.emit(f'def bytesHintKey : String := "{jh["hint_key"]}"')
    ctx.emit(f'def bytesHintStandardB64 : Bool := {_b(jh.get("standard_b64"))}')
    ctx.emit(f'def typeReverseRequiresSingleKey : Bool := {_b(jh.get("single_key"))}')
    ctx.emit(f'def serializeUsesHints : Bool := {_b(jh.get("uses_hints"))}')

    # ---------------------------------------------------------------- snapshot producer: the record of the file being read
    # (C14 `inflight_*`): between reading a block and handing it to the chunker the record's `stream_end` is advanced by the length
    # of the block, so that `_chunk_done` — which runs concurrently, while later blocks of the same file are still to be read — never
    # sees a record that ends before the bytes the chunk was cut from.
    sfl = _run(notes, 'stream_files.stream_end', rf.stream_files, an, dict(advanced=False))
    ctx.emit(f'def streamEndAdvancedInReadLoop : Bool := {_b(sfl.get("advanced"))}')
