"""C04 / C05 / C14: the verification guards, the naming / key-derivation scheme and the serialisation hints the symbolic model
(`ReplicatModel/Sym.lean`) is parameterised by, read from the AST of replicat/repository.py, replicat/utils/adapters.py and
replicat/utils/__init__.py.

Every flag is `true` only when the exact shape the model mirrors is found (variable names are free, the data flow is not);
anything else yields `false` together with a note, and the theorems in Properties/C04|C05|C14.lean that discharge the flag by
`decide` stop compiling (= broken proof obligation, reported by the check; the direct oracles then look for a failing input).
"""
import ast


def _calls(node, suffix):
    return [n for n in ast.walk(node) if isinstance(n, ast.Call) and ast.unparse(n.func).endswith(suffix)]


def _hash_arg(node):
    """`<x>.hash_digest(<arg>)` → unparse(arg)"""
    if isinstance(node, ast.Call) and ast.unparse(node.func).endswith('.hash_digest') and len(node.args) == 1 and not node.keywords:
        return ast.unparse(node.args[0])
    return None


def _raises(body):
    return any(isinstance(n, ast.Raise) for st in body for n in ast.walk(st))


def _returns_none(body):
    return any(isinstance(n, ast.Return) and (n.value is None or ast.unparse(n.value) == 'None') for st in body for n in ast.walk(st))


def _neq_guards(func):
    """all `if A != B: …` (also `if not A == B`) inside func → list of (unparse A, unparse B, node A, node B, if-node)"""
    out = []
    for n in ast.walk(func):
        if not isinstance(n, ast.If):
            continue
        tests = [n.test]
        if isinstance(n.test, ast.BoolOp) and isinstance(n.test.op, ast.And):
            tests = list(n.test.values)
        for t in tests:
            neg = False
            if isinstance(t, ast.UnaryOp) and isinstance(t.op, ast.Not):
                t, neg = t.operand, True
            if isinstance(t, ast.Compare) and len(t.ops) == 1 and len(t.comparators) == 1:
                if (isinstance(t.ops[0], ast.NotEq) and not neg) or (isinstance(t.ops[0], ast.Eq) and neg):
                    n._conjuncts = len(tests)
                    out.append((t.left, t.comparators[0], n))
    return out


def _assigned(func):
    """simple `name = value` assignments inside func: name → list of value nodes"""
    d = {}
    for n in ast.walk(func):
        if isinstance(n, ast.Assign) and len(n.targets) == 1 and isinstance(n.targets[0], ast.Name):
            d.setdefault(n.targets[0].id, []).append(n.value)
        if isinstance(n, ast.NamedExpr) and isinstance(n.target, ast.Name):
            d.setdefault(n.target.id, []).append(n.value)
    return d


def _b(x):
    return 'true' if x else 'false'


def section(ctx):
    rsrc = (ctx.REPO / 'replicat' / 'repository.py').read_text()
    rtree = ast.parse(rsrc)
    asrc = (ctx.REPO / 'replicat' / 'utils' / 'adapters.py').read_text()
    atree = ast.parse(asrc)
    usrc = (ctx.REPO / 'replicat' / 'utils' / '__init__.py').read_text()
    utree = ast.parse(usrc)
    notes = ctx.notes

    # ---------------------------------------------------------------- restore: chunk verification
    dl = ctx.find_func(rtree, 'Repository', 'restore', '_download_chunk')
    ctx.fp('repository.Repository.restore._download_chunk', dl)
    chunk_verified = chunk_key_ctx = chunk_loc_from_digest = False
    if dl is not None:
        params = [a.arg for a in dl.args.args]
        dname = params[0] if params else 'digest'
        asg = _assigned(dl)
        # what is handed to the writers
        written_vars = set()
        for c in _calls(dl, '.submit'):
            for a in c.args[1:]:
                written_vars.add(ast.unparse(a))
        # follow `x = memoryview(y)` one step
        src_vars = set(written_vars)
        for v in list(written_vars):
            for val in asg.get(v, []):
                if isinstance(val, ast.Call) and ast.unparse(val.func) in ('memoryview', 'bytes') and len(val.args) == 1:
                    src_vars.add(ast.unparse(val.args[0]))
        for left, right, ifn in _neq_guards(dl):
            for a, b in ((left, right), (right, left)):
                h = _hash_arg(a)
                if h is not None and ast.unparse(b) == dname and h in src_vars and _raises(ifn.body) and ifn._conjuncts == 1:
                    chunk_verified = True
        # decrypt key = derive_shared_subkey(<digest param>)
        decs = _calls(dl, '.decrypt')
        chunk_key_ctx = bool(decs) and all(
            len(c.args) == 2 and isinstance(c.args[1], ast.Call) and ast.unparse(c.args[1].func).endswith('.derive_shared_subkey')
            and [ast.unparse(x) for x in c.args[1].args] == [dname] for c in decs)
        locs = asg.get('location', [])
        chunk_loc_from_digest = bool(locs) and all(ast.unparse(v) == f'self._chunk_digest_to_location({dname})' for v in locs)
        if not chunk_verified:
            notes['restore.chunk_verify'] = 'no `if hash_digest(<what is written>) != <expected digest>: raise` found in _download_chunk'
        if not chunk_key_ctx:
            notes['restore.chunk_key'] = 'chunk decryption key is not derive_shared_subkey(<expected digest>)'
    else:
        notes['restore._download_chunk'] = 'not found'
    ctx.emit(f'def chunkDigestVerified : Bool := {_b(chunk_verified)}')
    ctx.emit(f'def chunkReadKeyFromDigest : Bool := {_b(chunk_key_ctx)}')
    ctx.emit(f'def chunkReadLocFromDigest : Bool := {_b(chunk_loc_from_digest)}')

    # ---------------------------------------------------------------- snapshot: chunk encryption key
    cp = ctx.find_func(rtree, 'Repository', 'snapshot', '_chunk_producer')
    ctx.fp('repository.Repository.snapshot._chunk_producer', cp)
    write_key_ok = False
    if cp is not None:
        asg = _assigned(cp)
        dvals = [ast.unparse(v) for v in asg.get('digest', [])]
        loop_var = None
        for n in ast.walk(cp):
            if isinstance(n, ast.For) and isinstance(n.target, ast.Name):
                loop_var = n.target.id
                break
        encs = _calls(cp, '.encrypt')
        write_key_ok = (dvals == [f'self.props.hash_digest({loop_var})'] and len(encs) == 1 and len(encs[0].args) == 2
                        and ast.unparse(encs[0].args[0]) == loop_var
                        and ast.unparse(encs[0].args[1]) == 'self.props.derive_shared_subkey(digest)')
        locs = [ast.unparse(k.value) for c in _calls(cp, '_SnapshotChunk') for k in c.keywords if k.arg == 'location']
        write_key_ok = write_key_ok and locs == ['self._chunk_digest_to_location(digest)']
        if not write_key_ok:
            notes['snapshot.chunk_key'] = 'chunk is not encrypted under derive_shared_subkey(hash_digest(chunk)) / stored at the digest location'
    ctx.emit(f'def chunkWriteKeyFromDigest : Bool := {_b(write_key_ok)}')

    # ---------------------------------------------------------------- names: MAC depths
    def mac_depth(func, var, src):
        """how many `self.props.mac(` layers separate `var` from `src` in the encrypted branch of func"""
        asg = {}
        for n in ast.walk(func):
            if isinstance(n, ast.If) and ast.unparse(n.test) == 'self.props.encrypted':
                for st in n.body:
                    if isinstance(st, ast.Assign) and len(st.targets) == 1 and isinstance(st.targets[0], ast.Name):
                        asg[st.targets[0].id] = st.value
            if isinstance(n, ast.Assign) and isinstance(n.value, ast.IfExp) and ast.unparse(n.value.test) == 'self.props.encrypted' \
                    and len(n.targets) == 1 and isinstance(n.targets[0], ast.Name):
                asg[n.targets[0].id] = n.value.body
        depth = 0
        cur = ast.Name(id=var)
        for _ in range(8):
            if isinstance(cur, ast.Name) and cur.id == src:
                return depth
            if isinstance(cur, ast.Name) and cur.id in asg:
                cur = asg[cur.id]
                continue
            if isinstance(cur, ast.Call) and ast.unparse(cur.func) == 'self.props.mac' and len(cur.args) == 1:
                depth += 1
                cur = cur.args[0]
                continue
            return None
        return None

    def plain_is_digest(func, var, src):
        """unencrypted branch: var is `src` itself"""
        for n in ast.walk(func):
            if isinstance(n, ast.If) and ast.unparse(n.test) == 'self.props.encrypted':
                for st in n.orelse:
                    if isinstance(st, ast.Assign):
                        names = []
                        for t in st.targets:
                            names.append(ast.unparse(t))
                        if var in names and ast.unparse(st.value) == src:
                            return True
            if isinstance(n, ast.Assign) and isinstance(n.value, ast.IfExp) and ast.unparse(n.value.test) == 'self.props.encrypted' \
                    and ast.unparse(n.targets[0]) == var and ast.unparse(n.value.orelse) == src:
                return True
        return False

    cl = ctx.find_func(rtree, 'Repository', '_chunk_digest_to_location_parts')
    ctx.fp('repository.Repository._chunk_digest_to_location_parts', cl)
    name_depth = tag_depth = None
    plain_ok = False
    if cl is not None:
        src = cl.args.posonlyargs[1].arg if len(cl.args.posonlyargs) > 1 else (cl.args.args[1].arg if len(cl.args.args) > 1 else 'digest')
        rets = [n.value for n in ast.walk(cl) if isinstance(n, ast.Return) and isinstance(n.value, ast.Call)]
        if len(rets) == 1:
            kws = {k.arg: k.value for k in rets[0].keywords}
            def hexvar(v):
                if isinstance(v, ast.Call) and isinstance(v.func, ast.Attribute) and v.func.attr == 'hex' and isinstance(v.func.value, ast.Name) and not v.args:
                    return v.func.value.id
                return None
            nv, tv = hexvar(kws.get('name')), hexvar(kws.get('tag'))
            if nv and tv:
                name_depth, tag_depth = mac_depth(cl, nv, src), mac_depth(cl, tv, src)
                plain_ok = (plain_is_digest(cl, nv, src) and plain_is_digest(cl, tv, src)) or \
                    any(isinstance(n, ast.Assign) and len(n.targets) == 2 and {ast.unparse(t) for t in n.targets} == {nv, tv} and ast.unparse(n.value) == src
                        for n in ast.walk(cl))
    if name_depth is None or tag_depth is None:
        notes['chunk.names'] = 'naming scheme of _chunk_digest_to_location_parts not recognised'
        ctx.emit('opaque chunkNameMacDepth : Nat')
        ctx.emit('opaque chunkTagMacDepth : Nat')
    else:
        ctx.emit(f'def chunkNameMacDepth : Nat := {name_depth}')
        ctx.emit(f'def chunkTagMacDepth : Nat := {tag_depth}')
    ctx.emit(f'def chunkPlainNameIsDigest : Bool := {_b(plain_ok)}')

    sl = ctx.find_func(rtree, 'Repository', '_snapshot_digest_to_location_parts')
    ctx.fp('repository.Repository._snapshot_digest_to_location_parts', sl)
    snap_tag_depth = None
    snap_name_is_digest = snap_plain = False
    if sl is not None:
        src = sl.args.posonlyargs[1].arg if len(sl.args.posonlyargs) > 1 else (sl.args.args[1].arg if len(sl.args.args) > 1 else 'digest')
        rets = [n.value for n in ast.walk(sl) if isinstance(n, ast.Return) and isinstance(n.value, ast.Call)]
        if len(rets) == 1:
            kws = {k.arg: k.value for k in rets[0].keywords}
            snap_name_is_digest = 'name' in kws and ast.unparse(kws['name']) == f'{src}.hex()'
            tv = kws.get('tag')
            if isinstance(tv, ast.Call) and isinstance(tv.func, ast.Attribute) and tv.func.attr == 'hex' and isinstance(tv.func.value, ast.Name):
                snap_tag_depth = mac_depth(sl, tv.func.value.id, src)
                snap_plain = plain_is_digest(sl, tv.func.value.id, src)
    if snap_tag_depth is None:
        notes['snapshot.names'] = 'naming scheme of _snapshot_digest_to_location_parts not recognised'
        ctx.emit('opaque snapTagMacDepth : Nat')
    else:
        ctx.emit(f'def snapTagMacDepth : Nat := {snap_tag_depth}')
    ctx.emit(f'def snapNameIsDigest : Bool := {_b(snap_name_is_digest)}')
    ctx.emit(f'def snapPlainTagIsDigest : Bool := {_b(snap_plain)}')

    # the snapshot that is uploaded: digest of the serialized (encrypted) body → name/tag → location
    sn = ctx.find_func(rtree, 'Repository', 'snapshot')
    up_ok = False
    if sn is not None:
        asg = _assigned(sn)
        ser = [ast.unparse(v) for v in asg.get('serialized_snapshot', [])]
        dg = [ast.unparse(v) for v in asg.get('digest', []) if 'serialized_snapshot' in ast.unparse(v)]
        up = [c for c in _calls(sn, '._upload_data') if len(c.args) == 2 and ast.unparse(c.args[1]) == 'serialized_snapshot']
        up_ok = (ser == ['self._encrypt_snapshot_body(snapshot_body)'] and dg == ['self.props.hash_digest(serialized_snapshot)']
                 and len(up) == 1 and ast.unparse(up[0].args[0]) == 'location'
                 and [ast.unparse(v) for v in asg.get('location', []) if 'get_snapshot_location' in ast.unparse(v)] == ['self.get_snapshot_location(name=name, tag=tag)'])
        if not up_ok:
            notes['snapshot.upload'] = 'snapshot object is not uploaded at the location derived from hash_digest(serialized body)'
    ctx.emit(f'def snapStoredUnderOwnDigest : Bool := {_b(up_ok)}')

    # ---------------------------------------------------------------- snapshot loading: tag check, digest check
    ld = ctx.find_func(rtree, 'Repository', '_load_snapshots', '_download_snapshot')
    ctx.fp('repository.Repository._load_snapshots._download_snapshot', ld)
    tag_checked = name_expected = False
    if ld is not None:
        asg = _assigned(ld)
        dvals = [ast.unparse(v) for v in asg.get('digest', [])]
        for left, right, ifn in _neq_guards(ld):
            pair = {ast.unparse(left), ast.unparse(right)}
            conj = [ast.unparse(v) for v in ifn.test.values] if isinstance(ifn.test, ast.BoolOp) and isinstance(ifn.test.op, ast.And) else []
            if pair == {'self.props.mac(digest)', 'bytes.fromhex(tag)'} and _returns_none(ifn.body) \
                    and len(conj) == 2 and 'self.props.encrypted' in conj:
                tag_checked = True
        rets = [n.value for n in ast.walk(ld) if isinstance(n, ast.Return) and n.value is not None]
        name_expected = dvals == ['bytes.fromhex(name)'] and any(
            isinstance(r, ast.Call) and ast.unparse(r.func).endswith('._download_snapshot_threadsafe') and len(r.args) >= 2 and ast.unparse(r.args[1]) == 'digest'
            for r in rets)
        if not tag_checked:
            notes['load.tag'] = 'tag check `encrypted and mac(digest) != fromhex(tag): return` not found'
        if not name_expected:
            notes['load.name'] = 'expected digest is not bytes.fromhex(name)'
    ctx.emit(f'def snapTagChecked : Bool := {_b(tag_checked)}')
    ctx.emit(f'def snapExpectedDigestIsName : Bool := {_b(name_expected)}')

    ds = ctx.find_func(rtree, 'Repository', '_download_snapshot_threadsafe')
    ctx.fp('repository.Repository._download_snapshot_threadsafe', ds)
    snap_verified = snap_verified_var = False
    if ds is not None:
        params = [a.arg for a in ds.args.args]
        exp = params[2] if len(params) > 2 else 'expected_digest'
        dec_args = [ast.unparse(c.args[0]) for c in _calls(ds, '._decrypt_snapshot_body') if c.args]
        # the guard must sit on the download path: in the same block as (and after) the `_download_threadsafe` assignment
        blocks = [ds.body] + [n.body for n in ast.walk(ds) if isinstance(n, (ast.If, ast.With, ast.Try))] + \
                 [n.orelse for n in ast.walk(ds) if isinstance(n, (ast.If, ast.Try))]
        for blk in blocks:
            pos = None
            for i, st in enumerate(blk):
                if isinstance(st, ast.Assign) and isinstance(st.value, ast.Call) and ast.unparse(st.value.func).endswith('._download_threadsafe'):
                    pos, var = i, ast.unparse(st.targets[0])
            if pos is None:
                continue
            for st in blk[pos + 1:]:
                if not isinstance(st, ast.If):
                    continue
                for left, right, ifn in _neq_guards(ast.Module(body=[st], type_ignores=[])):
                    if ifn is not st:
                        continue
                    for a, b in ((left, right), (right, left)):
                        h = _hash_arg(a)
                        if h == var and ast.unparse(b) == exp and _raises(ifn.body) and dec_args == [h] and ifn._conjuncts == 1:
                            snap_verified = True
        if not snap_verified:
            notes['load.digest'] = 'no `if hash_digest(<downloaded contents>) != <expected digest>: raise` guarding what is decrypted'
    ctx.emit(f'def snapDigestVerified : Bool := {_b(snap_verified)}')

    # ---------------------------------------------------------------- snapshot body layout
    eb = ctx.find_func(rtree, 'Repository', '_encrypt_snapshot_body')
    ctx.fp('repository.Repository._encrypt_snapshot_body', eb)
    body_w = False
    if eb is not None:
        asg = _assigned(eb)
        pv = [ast.unparse(v) for v in asg.get('encrypted_private_data', [])]
        body = asg.get('encrypted_body', [])
        d = next((v for v in body if isinstance(v, ast.Dict)), None)
        if d is not None and pv == ["self.props.encrypt(self.serialize(snapshot_body['data']), self.props.userkey)"]:
            items = {ast.literal_eval(k): ast.unparse(v) for k, v in zip(d.keys, d.values)}
            body_w = (set(items) == {'chunks', 'data'} and items['data'] == 'encrypted_private_data'
                      and items['chunks'] == "self.props.encrypt(self.serialize(snapshot_body['chunks']), self.props.derive_shared_subkey(self.props.hash_digest(encrypted_private_data)))")
        rets = [ast.unparse(n.value) for n in ast.walk(eb) if isinstance(n, ast.Return) and n.value is not None]
        body_w = body_w and rets == ['self.serialize(encrypted_body)']
        if not body_w:
            notes['snapshot.body'] = '_encrypt_snapshot_body: layout {chunks: enc(subkey(hash(enc data)), table), data: enc(userkey, data)} not recognised'
    ctx.emit(f'def snapBodyWriteScheme : Bool := {_b(body_w)}')

    db = ctx.find_func(rtree, 'Repository', '_decrypt_snapshot_body')
    ctx.fp('repository.Repository._decrypt_snapshot_body', db)
    body_r = tolerant = False
    if db is not None:
        decs = [ast.unparse(c) for c in _calls(db, '.decrypt')]
        body_r = ("self.props.decrypt(body['chunks'], self.props.derive_shared_subkey(self.props.hash_digest(body['data'])))" in decs
                  and "self.props.decrypt(body['data'], self.props.userkey)" in decs and len(decs) == 2)
        for n in ast.walk(db):
            if isinstance(n, ast.Try) and len(n.handlers) == 1 and ast.unparse(n.handlers[0].type or ast.Name(id='')) == 'exceptions.DecryptionError':
                tb = ' '.join(ast.unparse(s) for s in n.body)
                hb = ' '.join(ast.unparse(s) for s in n.handlers[0].body)
                if "self.props.decrypt(body['data'], self.props.userkey)" in tb and hb == "body['data'] = None":
                    tolerant = True
        if not body_r:
            notes['snapshot.body_read'] = '_decrypt_snapshot_body: key scheme not recognised'
    ctx.emit(f'def snapBodyReadScheme : Bool := {_b(body_r)}')
    ctx.emit(f'def snapForeignDataTolerated : Bool := {_b(tolerant)}')

    # ---------------------------------------------------------------- key files: private section encrypted before it is emitted
    def private_encrypted_before_emit(func, keyexpr):
        if func is None:
            return False
        enc_line = None
        emit_lines = []
        for n in ast.walk(func):
            if isinstance(n, ast.Assign) and ast.unparse(n.targets[0]) == "key['private']" and isinstance(n.value, ast.Call) \
                    and ast.unparse(n.value.func).endswith('.encrypt') and len(n.value.args) == 2 \
                    and ast.unparse(n.value.args[0]) == "self.serialize(key['private'])" and ast.unparse(n.value.args[1]) == keyexpr:
                enc_line = n.lineno
            if isinstance(n, ast.Call):
                u = ast.unparse(n)
                if (u.startswith('json.dumps(key') or u == 'self.serialize(key)'):
                    emit_lines.append(n.lineno)
        return enc_line is not None and bool(emit_lines) and all(ln > enc_line for ln in emit_lines)

    init = ctx.find_func(rtree, 'Repository', 'init')
    addk = ctx.find_func(rtree, 'Repository', '_add_key')
    ctx.fp('repository.Repository.init', init)
    ctx.fp('repository.Repository._add_key', addk)
    p1 = private_encrypted_before_emit(init, 'props.userkey')
    p2 = private_encrypted_before_emit(addk, "key_props['userkey']")
    if not (p1 and p2):
        notes['key.private'] = f'private section not encrypted under the user key before the key is emitted (init={p1}, add_key={p2})'
    ctx.emit(f'def privateEncryptedBeforeEmit : Bool := {_b(p1 and p2)}')
    # config upload is the serialized config only
    cfg_ok = init is not None and [ast.unparse(c) for c in _calls(init, '._upload_data')] == ["self._upload_data('config', self.serialize(config))"]
    ctx.emit(f'def configUploadIsConfigOnly : Bool := {_b(cfg_ok)}')
    ik = ctx.find_func(rtree, 'Repository', '_instantiate_key')
    uk_ok = False
    if ik is not None:
        asg = _assigned(ik)
        uk_ok = [ast.unparse(v) for v in asg.get('userkey', [])] == ["kdf_type(**kdf_args).derive(password, params=key['kdf_params'])"]
    ctx.emit(f'def userKeyIsKdfOfPassword : Bool := {_b(uk_ok)}')
    mk = ctx.find_func(rtree, 'Repository', '_make_key')
    priv_keys = []
    if mk is not None:
        for n in ast.walk(mk):
            if isinstance(n, ast.Assign) and ast.unparse(n.targets[0]) == 'private' and isinstance(n.value, ast.Dict):
                priv_keys = [ast.literal_eval(k) for k in n.value.keys]
    ctx.emit('def privateSectionKeys : List String := [' + ', '.join('"%s"' % k for k in priv_keys) + ']')

    # ---------------------------------------------------------------- adapters: nonce per encryption; shared sub-key derivation
    enc = ctx.find_func(atree, 'AEADCipherAdapterMixin', 'encrypt')
    ctx.fp('adapters.AEADCipherAdapterMixin.encrypt', enc)
    nonce_ok = False
    if enc is not None:
        asg = _assigned(enc)
        nv = [ast.unparse(v) for v in asg.get('nonce', [])]
        rets = [ast.unparse(n.value) for n in ast.walk(enc) if isinstance(n, ast.Return) and n.value is not None]
        nonce_ok = nv == ['os.urandom(self._nonce_bytes)'] and rets == ['nonce + cipher.encrypt(nonce, data, None)']
        if not nonce_ok:
            notes['aead.nonce'] = 'AEAD encrypt does not draw a fresh os.urandom nonce per call / does not prepend it'
    ctx.emit(f'def nonceFreshPerEncrypt : Bool := {_b(nonce_ok)}')
    dsk = ctx.find_func(rtree, 'RepositoryProps', 'derive_shared_subkey')
    sub_ok = False
    if dsk is not None:
        rets = [n.value for n in ast.walk(dsk) if isinstance(n, ast.Return) and isinstance(n.value, ast.Call)]
        if len(rets) == 1 and ast.unparse(rets[0].func) == 'self.shared_kdf.derive':
            a = [ast.unparse(x) for x in rets[0].args]
            kw = {k.arg: ast.unparse(k.value) for k in rets[0].keywords}
            param = dsk.args.args[1].arg
            sub_ok = a == ["self.private['shared_key']"] and kw == {'context': param, 'params': "self.private['shared_kdf_params']"}
    ctx.emit(f'def sharedSubkeyScheme : Bool := {_b(sub_ok)}')
    mc = ctx.find_func(rtree, 'RepositoryProps', 'mac')
    mac_ok = False
    if mc is not None:
        rets = [ast.unparse(n.value) for n in ast.walk(mc) if isinstance(n, ast.Return) and n.value is not None]
        mac_ok = rets == ["self.authenticator.mac(data, params=self.private['mac_params'])"]
    ctx.emit(f'def macScheme : Bool := {_b(mac_ok)}')

    # ---------------------------------------------------------------- metadata fallback (pre-1.3 snapshots)
    rm = ctx.find_func(rtree, 'Repository', 'restore_metadata')
    ctx.fp('repository.Repository.restore_metadata', rm)
    ns_keys, legacy_keys, fb = [], [], False
    if rm is not None:
        mname = rm.args.args[2].arg if len(rm.args.args) > 2 else (rm.args.posonlyargs[2].arg if len(rm.args.posonlyargs) > 2 else 'metadata')
        for n in ast.walk(rm):
            if isinstance(n, ast.Try) and len(n.handlers) == 1 and ast.unparse(n.handlers[0].type or ast.Name(id='')) == 'KeyError' and n.orelse:
                subs = [s for st in n.body for s in ast.walk(st) if isinstance(s, ast.Subscript) and ast.unparse(s.value) == mname]
                ns_keys = [ast.literal_eval(s.slice) for s in subs]
                hsubs = [s for st in n.handlers[0].body for s in ast.walk(st) if isinstance(s, ast.Subscript) and ast.unparse(s.value) == mname]
                legacy_keys = [ast.literal_eval(s.slice) for s in hsubs]
                h_ut = [c for st in n.handlers[0].body for c in _calls(st, 'os.utime')]
                e_ut = [c for st in n.orelse for c in _calls(st, 'os.utime')]
                fb = (len(h_ut) == 1 and [k.arg for k in h_ut[0].keywords] == ['times'] and len(e_ut) == 1 and [k.arg for k in e_ut[0].keywords] == ['ns']
                      and ast.unparse(e_ut[0].keywords[0].value) in {ast.unparse(t) for st in n.body if isinstance(st, ast.Assign) for t in st.targets})
    if not fb:
        notes['metadata.fallback'] = 'restore_metadata: try ns keys / except KeyError → times=(legacy keys) / else ns=… not recognised'
    ctx.emit('def metaNsKeys : List String := [' + ', '.join('"%s"' % k for k in ns_keys) + ']')
    ctx.emit('def metaLegacyKeys : List String := [' + ', '.join('"%s"' % k for k in legacy_keys) + ']')
    ctx.emit(f'def metaFallbackOnKeyError : Bool := {_b(fb)}')

    # ---------------------------------------------------------------- JSON byte-string hint
    th = ctx.find_func(utree, 'type_hint')
    tr = ctx.find_func(utree, 'type_reverse')
    ctx.fp('utils.type_hint', th)
    ctx.fp('utils.type_reverse', tr)
    hint_key = None
    enc_std = dec_std = single = False
    if th is not None:
        for n in ast.walk(th):
            if isinstance(n, ast.Return) and isinstance(n.value, ast.Dict) and len(n.value.keys) == 1:
                hint_key = ast.literal_eval(n.value.keys[0])
                enc_std = 'base64.standard_b64encode(' in ast.unparse(n.value.values[0])
    rev_key = None
    if tr is not None:
        for n in ast.walk(tr):
            if isinstance(n, ast.If) and ast.unparse(n.test).replace(' ', '') in ('len(object)!=1', 'notlen(object)==1'):
                single = any(isinstance(s, ast.Return) and ast.unparse(s.value) == 'object' for s in n.body)
            if isinstance(n, ast.Subscript) and ast.unparse(n.value) == 'object':
                rev_key = ast.literal_eval(n.slice)
            if isinstance(n, ast.Return) and isinstance(n.value, ast.Call) and ast.unparse(n.value.func) == 'base64.standard_b64decode':
                dec_std = True
    if hint_key is None or hint_key != rev_key:
        notes['json.hint'] = f'type_hint key {hint_key!r} / type_reverse key {rev_key!r}'
        ctx.emit('opaque bytesHintKey : String')
    else:
        ctx.emit(f'def bytesHintKey : String := "{hint_key}"')
    ctx.emit(f'def bytesHintStandardB64 : Bool := {_b(enc_std and dec_std)}')
    ctx.emit(f'def typeReverseRequiresSingleKey : Bool := {_b(single)}')
    ser = ctx.find_func(rtree, 'Repository', 'serialize')
    de = ctx.find_func(rtree, 'Repository', 'deserialize')
    hooks = (ser is not None and 'default=self.default_serialization_hook' in ast.unparse(ser)
             and de is not None and 'object_hook=self.object_deserialization_hook' in ast.unparse(de))
    ctx.emit(f'def serializeUsesHints : Bool := {_b(hooks)}')

    # ---------------------------------------------------------------- snapshot producer: the record of the file being read
    # (C14 `inflight_*`): inside the read loop of `_stream_files` the record's `stream_end` is advanced by the length of the block
    # that was read BEFORE that block is handed to the chunker, so that `_chunk_done` — which runs concurrently, while later blocks
    # of the same file are still to be read — never sees a record that ends before the bytes the chunk was cut from.
    sf = ctx.find_func(rtree, 'Repository', 'snapshot', '_stream_files')
    adv, why = _stream_end_advanced(sf)
    if not adv:
        notes['stream_files.stream_end'] = why
    ctx.emit(f'def streamEndAdvancedInReadLoop : Bool := {_b(adv)}')


def _stream_end_advanced(sf):
    """→ (recognised, note).  Shape looked for (names are free, statement order and data flow are not):

        <rec> = _SnapshotFile(..., stream_start=<pos>, stream_end=<pos>)          # record starts empty at the stream position
        while <blk> := <f>.read(<n>):     |  for <blk> in iter(lambda: <f>.read(<n>), b''):  |  while True: <blk> = <f>.read(<n>); if not <blk>: break
            <pos> += len(<blk>)
            <rec>.stream_end += len(<blk>)     |  <rec>.stream_end = <rec>.stream_end + len(<blk>)  |  <rec>.stream_end = <pos>  (after <pos> was advanced)
            ...
            yield <blk>
    """
    if sf is None:
        return False, '_stream_files not found'
    loops = []
    for n in ast.walk(sf):
        if isinstance(n, (ast.While, ast.For)):
            src = ast.unparse(n.test if isinstance(n, ast.While) else n.iter)
            body_reads = any(isinstance(c, ast.Call) and isinstance(c.func, ast.Attribute) and c.func.attr == 'read' for st in n.body for c in ast.walk(st))
            if '.read' in src or (isinstance(n, ast.While) and body_reads):
                loops.append(n)
    if len(loops) != 1:
        return False, f'{len(loops)} read loops in _stream_files'
    loop = loops[0]
    blk = None
    if isinstance(loop, ast.While) and isinstance(loop.test, ast.NamedExpr):
        blk = loop.test.target.id
    elif isinstance(loop, ast.For) and isinstance(loop.target, ast.Name):
        blk = loop.target.id
    else:
        for st in loop.body:
            if isinstance(st, ast.Assign) and len(st.targets) == 1 and isinstance(st.targets[0], ast.Name) and '.read(' in ast.unparse(st.value):
                blk = st.targets[0].id
    if blk is None:
        return False, 'block variable of the read loop not recognised'
    ln = f'len({blk})'
    yields = [i for i, st in enumerate(loop.body) if isinstance(st, ast.Expr) and isinstance(st.value, ast.Yield) and st.value.value is not None
              and ast.unparse(st.value.value) == blk]
    if len(yields) != 1:
        return False, 'the read loop does not yield the block exactly once at its top level'
    advanced_pos = set()     # stream-position expressions already advanced by len(block) in this iteration
    ok = False
    for st in loop.body[:yields[0]]:
        if isinstance(st, ast.AugAssign) and isinstance(st.op, ast.Add) and ast.unparse(st.value) == ln:
            tgt = ast.unparse(st.target)
            if isinstance(st.target, ast.Attribute) and st.target.attr == 'stream_end':
                ok = True
            else:
                advanced_pos.add(tgt)
        elif isinstance(st, ast.Assign) and len(st.targets) == 1 and isinstance(st.targets[0], ast.Attribute) and st.targets[0].attr == 'stream_end':
            tgt, val = ast.unparse(st.targets[0]), ast.unparse(st.value)
            if val in (f'{tgt} + {ln}', f'{ln} + {tgt}') or val in advanced_pos:
                ok = True
    if not ok:
        return False, 'stream_end of the file record is not advanced by len(block) inside the read loop before the block is yielded'
    # the record must start empty at the current stream position
    starts = [c for c in ast.walk(sf) if isinstance(c, ast.Call) and ast.unparse(c.func).endswith('_SnapshotFile')]
    if len(starts) != 1:
        return False, 'record construction not recognised'
    kw = {k.arg: ast.unparse(k.value) for k in starts[0].keywords}
    if 'stream_start' not in kw or kw.get('stream_start') != kw.get('stream_end'):
        return False, 'the record does not start with stream_end == stream_start'
    return True, ''
