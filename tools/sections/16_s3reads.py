"""Extractor plug-in for C16 (read loops over the uploaded stream): reads replicat/backends/s3c.py, replicat/backends/base.py and
replicat/utils/__init__.py of the CURRENT tree.

`upload_stream` reads the caller's stream twice: `_get_stream_hexdigest` (the declared and signed `x-amz-content-sha256`) and
`utils.aiter_chunks` → `utils.iter_chunks` (the body of the PUT).  A stream's `read(n)` returns UP TO n bytes (io.RawIOBase.read:
raw / unbuffered streams, pipes, sockets, network file systems, wrappers that cap the transfer size), so what a loop consumes
depends on WHEN IT STOPS.  Emitted (namespace `Replicat.Gen`):

* `s3DigestStopRule`, `s3BodyStopRule : Nat` — 0 = the loop ends at the first EMPTY read (`iter(lambda: f.read(n), b'')`,
  `while chunk := f.read(n)`, `while True: … if not chunk: break`), 1 = the loop consumes a read and ends when it was SHORTER than
  requested (`if len(chunk) < n: break`).  Anything else: `opaque` (the theorems that unfold it stop compiling);
* `s3DigestReadSize : Nat` — the size the digest loop asks for (evaluated; `hasher.block_size` taken from hashlib);
* `s3StreamSizeConstants : List Nat` — every size-like integer of the code path (integer literals of s3c.py ≥ 2, the evaluated digest
  read size, `DEFAULT_STREAM_CHUNK_SIZE`, the `chunk_size` defaults of `iter_chunks` / `aiter_chunks`): the harness builds streams
  whose sizes lie around each of them and around their multiples.

`facts(repo)` is also imported by the harness (harness/impl/c16_streams.py), so that generator and model read the same source.
"""
import ast
import hashlib
from pathlib import Path

EMPTY, SHORT = 0, 1


def _find(tree, name):
    for n in ast.walk(tree):
        if isinstance(n, (ast.FunctionDef, ast.AsyncFunctionDef)) and n.name == name:
            return n
    return None


def _is_read_call(node, stream):
    """`<stream>.read(<size>)` → the size expression (None when it is not such a call)"""
    if (isinstance(node, ast.Call) and isinstance(node.func, ast.Attribute) and node.func.attr == 'read'
            and isinstance(node.func.value, ast.Name) and node.func.value.id == stream and len(node.args) == 1 and not node.keywords):
        return node.args[0]
    return None


def _is_empty_bytes(node):
    return isinstance(node, ast.Constant) and node.value == b''


def _iter_sentinel(node, stream):
    """`iter(lambda: <stream>.read(n), b'')` → n"""
    if (isinstance(node, ast.Call) and isinstance(node.func, ast.Name) and node.func.id == 'iter' and len(node.args) == 2
            and not node.keywords and isinstance(node.args[0], ast.Lambda) and not node.args[0].args.args):
        size = _is_read_call(node.args[0].body, stream)
        if size is not None:
            if not _is_empty_bytes(node.args[1]):
                raise ValueError('sentinel of iter() is not b\'\'')
            return size
    return None


def _exit_kind(test, var, size_src):
    """classifies the test of `if <test>: break` inside a read loop"""
    u = ast.unparse(test)
    empties = {f'not {var}', f'{var} == b\'\'', f'len({var}) == 0', f'not len({var})', f'b\'\' == {var}', f'len({var}) < 1'}
    shorts = {f'len({var}) < {size_src}', f'len({var}) != {size_src}', f'{size_src} > len({var})', f'{size_src} != len({var})'}
    if u in empties:
        return EMPTY
    if u in shorts:
        return SHORT
    raise ValueError(f'exit condition of the read loop not recognised: {u}')


def _breaks(stmts, var, size_src):
    """the `if …: break` exits among `stmts` (top level of the loop body), with their index; other control flow is refused"""
    out = []
    for k, st in enumerate(stmts):
        if isinstance(st, ast.If) and len(st.body) == 1 and isinstance(st.body[0], ast.Break) and not st.orelse:
            out.append((k, _exit_kind(st.test, var, size_src)))
        else:
            for n in ast.walk(st):
                if isinstance(n, (ast.Break, ast.Continue, ast.Return, ast.Raise, ast.Try)):
                    raise ValueError('control flow inside the read loop not recognised: ' + ast.unparse(st)[:80])
    return out


def _consumer_index(stmts, var, consumer):
    """index of the statement that consumes the chunk (`hasher.update(chunk)` / `yield chunk`); must be unconditional"""
    for k, st in enumerate(stmts):
        if isinstance(st, ast.Expr):
            v = st.value
            if consumer == 'update' and isinstance(v, ast.Call) and isinstance(v.func, ast.Attribute) and v.func.attr == 'update' \
                    and len(v.args) == 1 and isinstance(v.args[0], ast.Name) and v.args[0].id == var:
                return k
            if consumer == 'yield' and isinstance(v, ast.Yield) and isinstance(v.value, ast.Name) and v.value.id == var:
                return k
    raise ValueError(f'the loop does not {consumer} every chunk unconditionally')


def _rule_of(exits, consumed_at):
    """stop rule of a loop whose natural end is the empty read (or has none): exits before the consumer that test emptiness are
    the empty-read rule; an exit AFTER the consumer that tests shortness is the short-read rule; a shortness test before the
    consumer would drop data — not modelled"""
    rule = EMPTY
    for k, kind in exits:
        if kind == SHORT:
            if k < consumed_at:
                raise ValueError('the loop leaves on a short read before consuming it')
            rule = SHORT
    return rule


def loop_facts(fn, stream, consumer):
    """(stop rule, source of the requested size) of the read loop over `<stream>` in function node `fn`.
    consumer: 'update' (a hasher), 'yield' (a generator), 'iter' (the function returns the iterator itself)."""
    found = []
    for node in ast.walk(fn):
        # for chunk in iter(lambda: stream.read(n), b''): …
        if isinstance(node, ast.For) and isinstance(node.target, ast.Name):
            size = _iter_sentinel(node.iter, stream)
            if size is not None:
                var, src = node.target.id, ast.unparse(size)
                if node.orelse:
                    raise ValueError('for … else in the read loop')
                at = _consumer_index(node.body, var, consumer)
                found.append((_rule_of(_breaks(node.body, var, src), at), src))
        # while chunk := stream.read(n): …      /     while (chunk := stream.read(n)) != b'': …
        elif isinstance(node, ast.While):
            t = node.test
            if isinstance(t, ast.Compare) and len(t.ops) == 1 and isinstance(t.ops[0], ast.NotEq) and _is_empty_bytes(t.comparators[0]):
                t = t.left
            if isinstance(t, ast.NamedExpr) and _is_read_call(t.value, stream) is not None:
                var, src = t.target.id, ast.unparse(_is_read_call(t.value, stream))
                if node.orelse:
                    raise ValueError('while … else in the read loop')
                at = _consumer_index(node.body, var, consumer)
                found.append((_rule_of(_breaks(node.body, var, src), at), src))
            # while True: chunk = stream.read(n); …; if <exit>: break
            elif isinstance(t, ast.Constant) and t.value is True:
                reads = [(k, st) for k, st in enumerate(node.body) if isinstance(st, ast.Assign) and len(st.targets) == 1
                         and isinstance(st.targets[0], ast.Name) and _is_read_call(st.value, stream) is not None]
                if not reads:
                    continue
                if len(reads) != 1 or reads[0][0] != 0:
                    raise ValueError('the read is not the first statement of the loop')
                var, src = reads[0][1].targets[0].id, ast.unparse(_is_read_call(reads[0][1].value, stream))
                at = _consumer_index(node.body, var, consumer)
                exits = _breaks(node.body[1:], var, src)
                exits = [(k + 1, kind) for k, kind in exits]
                if not exits:
                    raise ValueError('endless read loop')
                # without an emptiness exit before the consumer the loop still ends on the empty read only if some exit covers it:
                # `len(chunk) < n` does (0 < n)
                if not any(kind == EMPTY and k < at for k, kind in exits) and not any(kind == SHORT for k, kind in exits):
                    raise ValueError('no exit of the read loop covers the empty read')
                found.append((_rule_of(exits, at), src))
    if consumer == 'iter':
        for node in ast.walk(fn):
            if isinstance(node, ast.Return) and node.value is not None:
                size = _iter_sentinel(node.value, stream)
                if size is not None:
                    found.append((EMPTY, ast.unparse(size)))
    if len(found) != 1:
        raise ValueError(f'{len(found)} read loops over `{stream}` recognised in {fn.name}')
    # no other read of the stream in the function
    n_reads = sum(1 for n in ast.walk(fn) if isinstance(n, ast.Call) and isinstance(n.func, ast.Attribute) and n.func.attr in ('read', 'readinto', 'readall', 'read1')
                  and isinstance(n.func.value, ast.Name) and n.func.value.id == stream)
    if n_reads != 1:
        raise ValueError(f'{n_reads} reads of `{stream}` in {fn.name}')
    return found[0]


def _eval_int(expr_src, env):
    """evaluates an integer expression over names in `env` (attribute chains written with dots)"""
    node = ast.parse(expr_src, mode='eval').body

    def ev(n):
        if isinstance(n, ast.Constant) and isinstance(n.value, int) and not isinstance(n.value, bool):
            return n.value
        if isinstance(n, (ast.Name, ast.Attribute)):
            key = ast.unparse(n)
            if key in env:
                return env[key]
            raise ValueError(f'unknown name {key}')
        if isinstance(n, ast.BinOp):
            a, b = ev(n.left), ev(n.right)
            if isinstance(n.op, ast.Mult):
                return a * b
            if isinstance(n.op, ast.Add):
                return a + b
            if isinstance(n.op, ast.Sub):
                return a - b
            if isinstance(n.op, ast.FloorDiv) and b != 0:
                return a // b
            if isinstance(n.op, ast.LShift):
                return a << b
            if isinstance(n.op, ast.Pow) and 0 <= b < 64:
                return a ** b
        raise ValueError('size expression not recognised: ' + expr_src)
    return ev(node)


def digest_facts(tree):
    """(stop rule, evaluated read size) of `_get_stream_hexdigest(stream)`"""
    fn = _find(tree, '_get_stream_hexdigest')
    if fn is None:
        raise LookupError('_get_stream_hexdigest')
    stream = fn.args.args[0].arg
    rule, size_src = loop_facts(fn, stream, 'update')
    env = {}
    for st in fn.body:           # straight-line assignments before the loop
        if isinstance(st, ast.Assign) and len(st.targets) == 1 and isinstance(st.targets[0], ast.Name):
            name, v = st.targets[0].id, st.value
            if isinstance(v, ast.Call) and isinstance(v.func, ast.Attribute) and isinstance(v.func.value, ast.Name) and v.func.value.id == 'hashlib' \
                    and not v.args and not v.keywords and v.func.attr in hashlib.algorithms_available:
                h = hashlib.new(v.func.attr)
                env[f'{name}.block_size'], env[f'{name}.digest_size'] = h.block_size, h.digest_size
            else:
                try:
                    env[name] = _eval_int(ast.unparse(v), env)
                except ValueError:
                    pass
    size = _eval_int(size_src, env)
    if size <= 0:
        raise ValueError(f'digest read size {size}')
    return rule, size


def body_facts(utils_tree, s3c_tree):
    """stop rule of the body iterator `_put_object_stream` hands to httpx: `utils.aiter_chunks(stream, chunk_size=…)`"""
    put = _find(s3c_tree, '_put_object_stream')
    if put is None:
        raise LookupError('_put_object_stream')
    calls = [n for n in ast.walk(put) if isinstance(n, ast.keyword) and n.arg == 'content']
    if len(calls) != 1:
        raise ValueError('content= of the streamed PUT not found')
    c = calls[0].value
    if not (isinstance(c, ast.Call) and ast.unparse(c.func) in ('utils.aiter_chunks', 'aiter_chunks') and len(c.args) == 1 and ast.unparse(c.args[0]) == 'stream'
            and [k.arg for k in c.keywords] == ['chunk_size'] and ast.unparse(c.keywords[0].value) == 'chunk_size'):
        raise ValueError('content= is not utils.aiter_chunks(stream, chunk_size=chunk_size): ' + ast.unparse(c))
    a = _find(utils_tree, 'aiter_chunks')
    if a is None:
        raise LookupError('aiter_chunks')
    fparam = a.args.args[0].arg
    src = '\n'.join(ast.unparse(s) for s in a.body)
    if src == f'async for chunk in async_gen_wrapper(iter_chunks({fparam}, chunk_size=chunk_size)):\n    yield chunk':
        w = _find(utils_tree, 'async_gen_wrapper')
        wsrc = '\n'.join(ast.unparse(s) for s in w.body if not (isinstance(s, ast.Expr) and isinstance(s.value, ast.Constant))) if w is not None else None
        wparam = w.args.args[0].arg if w is not None else None
        if wsrc not in (f'for value in {wparam}:\n    yield value\n    await asyncio.sleep(0)', f'for value in {wparam}:\n    yield value'):
            raise ValueError('async_gen_wrapper does not pass every value on')
        it = _find(utils_tree, 'iter_chunks')
        if it is None:
            raise LookupError('iter_chunks')
        try:
            rule, size_src = loop_facts(it, it.args.args[0].arg, 'iter')
        except ValueError:
            rule, size_src = loop_facts(it, it.args.args[0].arg, 'yield')
    else:
        rule, size_src = loop_facts(a, fparam, 'yield')
    if size_src != 'chunk_size':
        raise ValueError('the body iterator does not ask for chunk_size bytes: ' + size_src)
    return rule


def _default_of(fn, name):
    args = fn.args.args
    for a, d in zip(args[len(args) - len(fn.args.defaults):], fn.args.defaults):
        if a.arg == name and isinstance(d, ast.Constant) and isinstance(d.value, int):
            return d.value
    return None


def facts(repo):
    """everything this plug-in emits, as a dict (values None / exception text where not recognised)"""
    repo = Path(repo)
    s3c = ast.parse((repo / 'replicat' / 'backends' / 's3c.py').read_text())
    base = ast.parse((repo / 'replicat' / 'backends' / 'base.py').read_text())
    utils = ast.parse((repo / 'replicat' / 'utils' / '__init__.py').read_text())
    out = {'notes': {}}
    try:
        out['digest_stop_rule'], out['digest_read_size'] = digest_facts(s3c)
    except Exception as e:  # noqa: BLE001
        out['digest_stop_rule'] = out['digest_read_size'] = None
        out['notes']['digest loop'] = f'not recognised: {e!r}'[:300]
    try:
        out['body_stop_rule'] = body_facts(utils, s3c)
    except Exception as e:  # noqa: BLE001
        out['body_stop_rule'] = None
        out['notes']['body iterator'] = f'not recognised: {e!r}'[:300]
    consts = set()
    for n in ast.walk(s3c):
        if isinstance(n, ast.Constant) and isinstance(n.value, int) and not isinstance(n.value, bool) and n.value >= 2:
            consts.add(n.value)
    if out['digest_read_size']:
        consts.add(out['digest_read_size'])
    for st in base.body:
        if isinstance(st, ast.Assign) and len(st.targets) == 1 and isinstance(st.targets[0], ast.Name) and st.targets[0].id == 'DEFAULT_STREAM_CHUNK_SIZE' \
                and isinstance(st.value, ast.Constant) and isinstance(st.value.value, int):
            consts.add(st.value.value)
    for nm in ('iter_chunks', 'aiter_chunks'):
        f = _find(utils, nm)
        d = _default_of(f, 'chunk_size') if f is not None else None
        if d:
            consts.add(d)
    out['size_constants'] = sorted(c for c in consts if c <= 1 << 26)
    return out


def section(ctx):
    f = facts(ctx.REPO)
    for k, v in f['notes'].items():
        ctx.notes[f's3reads.{k}'] = v

    def item(name, ty, val):
        if val is None:
            ctx.emit(f'opaque {name} : {ty}')
        else:
            ctx.emit(f'def {name} : {ty} := {val}')
    item('s3DigestStopRule', 'Nat', f['digest_stop_rule'])
    item('s3DigestReadSize', 'Nat', f['digest_read_size'])
    item('s3BodyStopRule', 'Nat', f['body_stop_rule'])
    ctx.emit('def s3StreamSizeConstants : List Nat := [' + ', '.join(str(c) for c in f['size_constants']) + ']')
