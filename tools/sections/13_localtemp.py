"""Extractor plug-in for C13, overlapping calls on one local backend object: WHERE THE TEMPORARY'S NAME COMES FROM.
Model: `ReplicatModel/LocalConc.lean`; theorems `concurrent_uploads_linearizable` … in Properties/C13.lean.

`Local.upload` / `Local.upload_stream` write into a temporary next to the destination and rename it over the destination.  Several
calls of one object run at the same time (the Repository's thread pool), so the rename is an atomic replacement only if no two calls
in flight share a temporary.  Emitted, read structurally from the current source:

* `localTempUniquePerCall : Bool` — for BOTH upload methods, the path that is renamed over the destination (`X.replace(…)`,
  `os.replace(X, …)`, `os.rename(X, …)`) is traced back through local bindings, tuple unpacking of helper-method results and the
  helpers' return values; `true` iff the expressions it is built from contain a call that yields a fresh name on every call
  (`NamedTemporaryFile`, `mkstemp`, `mkdtemp`, `mktemp`, `TemporaryDirectory`, `uuid1`/`uuid4`, `token_hex` / `token_urlsafe` /
  `token_bytes`, `urandom`, `getrandbits`, `_get_candidate_names`, `next(<counter>)`).  A name built from the destination, the process id,
  the thread id or the time alone is NOT unique per call (`false`).  Nothing traceable ⇒ `opaque`.
* `localTempNameSource : String` — the recognised source (for the evidence), `"deterministic"` or `"?"`.
* `localTempStemLen : Nat` — how many characters of the destination's base name go into the temporary's name (`destination.name[:240]`);
  no such slice on the traced expressions ⇒ `opaque`.  The harness derives its long-name classes from it, `temp_name_fits` consumes it.
* `localTempRandomLen : Nat` — characters `tempfile` adds between prefix and suffix (8 in CPython: `_RandomNameSequence`), from the
  interpreter's own `tempfile` source when the name comes from `tempfile`, else 0.
"""
import ast

FRESH = {'NamedTemporaryFile', 'mkstemp', 'mkdtemp', 'mktemp', 'TemporaryDirectory', 'uuid1', 'uuid4', 'token_hex', 'token_urlsafe',
         'token_bytes', 'urandom', 'getrandbits', '_get_candidate_names'}
TEMPFILE = {'NamedTemporaryFile', 'mkstemp', 'mkdtemp', 'mktemp', 'TemporaryDirectory', '_get_candidate_names'}


def _methods(cls):
    return {f.name: f for f in cls.body if isinstance(f, (ast.FunctionDef, ast.AsyncFunctionDef))}


def _callee(call):
    f = call.func
    return f.attr if isinstance(f, ast.Attribute) else f.id if isinstance(f, ast.Name) else None


def _bound_values(fn, name):
    """[(value expression, index or None)] bound to local `name` in fn: assignments (also tuple unpacking: the index), walrus, with … as"""
    out = []
    for n in ast.walk(fn):
        if isinstance(n, ast.Assign):
            for t in n.targets:
                if isinstance(t, ast.Name) and t.id == name:
                    out.append((n.value, None))
                elif isinstance(t, (ast.Tuple, ast.List)):
                    for i, e in enumerate(t.elts):
                        if isinstance(e, ast.Name) and e.id == name:
                            out.append((n.value, i))
        elif isinstance(n, ast.AnnAssign) and isinstance(n.target, ast.Name) and n.target.id == name and n.value is not None:
            out.append((n.value, None))
        elif isinstance(n, ast.NamedExpr) and isinstance(n.target, ast.Name) and n.target.id == name:
            out.append((n.value, None))
        elif isinstance(n, (ast.With, ast.AsyncWith)):
            for it in n.items:
                if isinstance(it.optional_vars, ast.Name) and it.optional_vars.id == name:
                    out.append((it.context_expr, None))
    return out


class _Trace:
    def __init__(self, methods):
        self.m = methods
        self.calls = []          # callee names met
        self.slices = []         # integer upper bounds of `<…>.name[:N]` / `<name>[:N]` slices met
        self.exprs = 0
        self.seen = set()

    def expr(self, fn, e, depth=0):
        if depth > 12 or e is None:
            return
        self.exprs += 1
        for n in ast.walk(e):
            if isinstance(n, ast.Call):
                c = _callee(n)
                if c is not None:
                    self.calls.append(c)
                if c == 'next' and n.args:
                    self.calls.append('next(counter)')
                # a helper method of the class: its return values
                if isinstance(n.func, ast.Attribute) and isinstance(n.func.value, ast.Name) and n.func.value.id == 'self' and n.func.attr in self.m:
                    self.method(self.m[n.func.attr], None, depth + 1)
            elif isinstance(n, ast.Subscript) and isinstance(n.slice, ast.Slice) and n.slice.lower is None and n.slice.step is None \
                    and isinstance(n.slice.upper, ast.Constant) and isinstance(n.slice.upper.value, int):
                self.slices.append(n.slice.upper.value)
            elif isinstance(n, ast.Name) and isinstance(n.ctx, ast.Load):
                self.name(fn, n.id, depth + 1)

    def name(self, fn, ident, depth):
        key = (fn.name, ident)
        if key in self.seen or depth > 12:
            return
        self.seen.add(key)
        for value, idx in _bound_values(fn, ident):
            v = value
            while isinstance(v, ast.Await):
                v = v.value
            if idx is not None and isinstance(v, ast.Call) and isinstance(v.func, ast.Attribute) and isinstance(v.func.value, ast.Name) \
                    and v.func.value.id == 'self' and v.func.attr in self.m:
                self.method(self.m[v.func.attr], idx, depth + 1)
            elif idx is not None and isinstance(v, (ast.Tuple, ast.List)) and idx < len(v.elts):
                self.expr(fn, v.elts[idx], depth + 1)
            else:
                self.expr(fn, v, depth + 1)

    def method(self, fn, idx, depth):
        key = (fn.name, '<return>', idx)
        if key in self.seen or depth > 12:
            return
        self.seen.add(key)
        for n in ast.walk(fn):
            if isinstance(n, ast.Return) and n.value is not None:
                v = n.value
                if idx is not None and isinstance(v, (ast.Tuple, ast.List)) and idx < len(v.elts):
                    self.expr(fn, v.elts[idx], depth + 1)
                else:
                    self.expr(fn, v, depth + 1)


def _renamed_paths(fn):
    """the expressions renamed over something inside fn: receiver of `.replace(x)` / `.rename(x)` with ONE argument (str.replace takes two),
    first argument of `os.replace` / `os.rename` / `shutil.move`"""
    out = []
    for n in ast.walk(fn):
        if not isinstance(n, ast.Call) or not isinstance(n.func, ast.Attribute):
            continue
        recv, attr = n.func.value, n.func.attr
        if attr in ('replace', 'rename') and isinstance(recv, ast.Name) and recv.id in ('os', 'shutil') and n.args:
            out.append(n.args[0])
        elif attr == 'move' and isinstance(recv, ast.Name) and recv.id == 'shutil' and n.args:
            out.append(n.args[0])
        elif attr in ('replace', 'rename') and len(n.args) == 1 and not n.keywords:
            out.append(recv)
    return out


def section(ctx):
    emit, notes = ctx.emit, ctx.notes
    tree = ast.parse((ctx.REPO / 'replicat' / 'backends' / 'local.py').read_text())
    cls = ctx.find_func(tree, 'Local')
    methods = _methods(cls) if isinstance(cls, ast.ClassDef) else {}
    verdicts, sources, stems = [], [], []
    from_tempfile = True
    for mname in ('upload', 'upload_stream'):
        fn = methods.get(mname)
        if fn is None:
            verdicts.append(None)
            continue
        paths = _renamed_paths(fn)
        if not paths:
            verdicts.append(None)
            continue
        tr = _Trace(methods)
        for p in paths:
            tr.expr(fn, p)
        if tr.exprs <= len(paths) and not tr.calls:         # nothing behind the name could be traced
            verdicts.append(None)
            continue
        fresh = [c for c in tr.calls if c in FRESH or c == 'next(counter)']
        verdicts.append(bool(fresh))
        sources.append(fresh[0] if fresh else 'deterministic')
        from_tempfile = from_tempfile and bool(fresh) and fresh[0] in TEMPFILE
        stems.append(sorted(set(tr.slices)))
    emit('/-! ### local backend: the temporary of an upload (C13, overlapping calls) -/')
    if any(v is None for v in verdicts) or not verdicts:
        notes['localtemp:localTempUniquePerCall'] = 'the renamed path of upload / upload_stream could not be traced'
        emit('opaque localTempUniquePerCall : Bool')
        emit('def localTempNameSource : String := "?"')
    else:
        unique = all(verdicts)
        if not unique:
            notes['localtemp:localTempUniquePerCall'] = 'the temporary\'s name has no per-call component (sources: %s)' % ', '.join(sources)
        emit(f'def localTempUniquePerCall : Bool := {"true" if unique else "false"}')
        emit('def localTempNameSource : String := "%s"' % (sources[0] if len(set(sources)) == 1 else '/'.join(sources)))
    stem = None
    if stems and all(len(s) == 1 for s in stems) and len({s[0] for s in stems}) == 1:
        stem = stems[0][0]
    if stem is None:
        notes['localtemp:localTempStemLen'] = 'no single `[:N]` slice on the way to the temporary\'s name (%r)' % (stems,)
        emit('opaque localTempStemLen : Nat')
    else:
        emit(f'def localTempStemLen : Nat := {stem}')
    rnd = 0
    if from_tempfile and verdicts and all(verdicts):
        try:
            import tempfile
            seq = tempfile._RandomNameSequence()
            rnd = len(next(seq))
        except Exception:  # noqa: BLE001
            rnd = 8
    emit(f'def localTempRandomLen : Nat := {rnd}')
