"""Extractor plug-in for C13, the B2 repository LOCATION (`-r b2:<bucket name>` or `-r b2:<bucket id>`): which string of the
bucket the adapter puts where.  Model: `ReplicatModel/B2Location.lean`; theorems `b2_location_spelling` … in Properties/C13.lean.

The B2 service addresses a bucket by NAME in download-by-name URLs (`…/file/<bucketName>/<fileName>`) and by ID in the
JSON API calls (`"bucketId": …`).  The adapter is given ONE string (name or id), looks the bucket up (`b2_list_buckets`, or the
`allowed` part of the authorisation when the key is restricted to one bucket) and keeps a record `(id, name)`.  Emitted
(all read from the current source SEMANTICALLY: every method of the class is executed symbolically — `tools/symflow.py` — so local
aliases, renamed variables / attributes / helpers, values built in helper methods or handed over as parameters, walrus / plain
assignments and swapped comparisons do not matter):

* `b2DownloadBucketRef : String` — what fills the bucket slot of every `/file/<…>/` URL of the class:
  `"resolved.name"` / `"resolved.id"` (a field of the looked-up record) or `"identifier"` (the connection string as given);
* `b2ApiBucketRef : String` — the same for the value of every `'bucketId'` key of a request body;
* `b2ListMatchFields`, `b2AllowedMatchFields : List String` — the JSON fields of a reported bucket the connection string is
  compared with in `_get_bucket` / `authenticate` (sorted);
* `b2BucketRecordOk : Bool` — every record is built as `(id = <…>['bucketId'], name = <…>['bucketName'])`.

Anything not recognised (no such URL, different slots filled differently, an expression that cannot be traced) becomes `opaque`:
the model still builds, the theorems that discharge the value by `decide` stop compiling.
"""
import json

import symflow as sf
from symflow import SELF, is_const, method_call, subterms, strip_wrappers


def _field(v):
    """the JSON key a value was read from: `<…>['bucketId']` / `<…>.get('bucketId')` → 'bucketId'"""
    if v[0] == 'sub' and is_const(v[2], str):
        return v[2][1]
    m = method_call(v, ('get',))
    if m is not None and m[2] and is_const(m[2][0], str):
        return m[2][0][1]
    if v[0] == 'phi':
        a, b = _field(v[2]), _field(v[3])
        return a if a == b else None
    return None


class _Facts:
    def __init__(self, mod):
        self.it = sf.Interp(mod, 'B2')
        names = list(self.it.methods)
        self.runs = {}
        for n in names:
            ev, _ = self.it.run(n)
            self.runs[n] = list(ev or [])
        # helpers that other methods inline are judged where they are used (their parameters are bound there)
        inlined = {c[2] for ev in self.runs.values() for e in ev for c in e.ctx if c[0] == 'inline' and len(c) > 2}
        self.entry = {n: ev for n, ev in self.runs.items() if n not in inlined or n in ('authenticate',)}
        self.ident_attrs = set()
        for e in self.runs.get('__init__', []):
            if e.kind == 'store' and e.value[0] == 'attr' and e.value[1] == SELF and isinstance(e.extra, tuple) \
                    and strip_wrappers(e.extra, ('str',)) == ('arg', 0):
                self.ident_attrs.add(e.value[2])
        self.bucket_attrs, self.records = set(), []
        for n, ev in self.runs.items():
            for e in ev:
                if e.kind == 'store' and e.value[0] == 'attr' and e.value[1] == SELF and isinstance(e.extra, tuple) and e.extra[0] == 'call' \
                        and {'id', 'name'} <= set(dict(e.extra[3])):
                    self.bucket_attrs.add(e.value[2])
                    self.records.append(e.extra)

    def is_bucket(self, v):
        if v[0] == 'attr' and v[1] == SELF and v[2] in self.bucket_attrs:
            return True
        if v[0] == 'phi':
            return self.is_bucket(v[2]) and self.is_bucket(v[3])
        if v[0] == 'join':
            return all(self.is_bucket(x) for x in v[2])
        return False

    def ref(self, v):
        """'resolved.name' | 'resolved.id' | 'identifier' | None"""
        v = strip_wrappers(v, ('str',))
        if v[0] == 'attr' and v[1] == SELF and v[2] in self.ident_attrs:
            return 'identifier'
        if v[0] == 'attr' and v[2] in ('name', 'id') and self.is_bucket(v[1]):
            return 'resolved.' + v[2]
        if v[0] == 'phi':
            a, b = self.ref(v[2]), self.ref(v[3])
            return a if a == b else None
        return None

    def _terms(self, e):
        yield e.value
        if isinstance(e.extra, tuple):
            yield e.extra

    def download_slots(self):
        """[(method, classification of what follows a literal '…/file/' in a formatted string)]"""
        out = []
        for n, ev in sorted(self.entry.items()):
            seen = set()
            for e in ev:
                for t0 in self._terms(e):
                    for t in subterms(t0):
                        if t[0] == 'concat' and t not in seen:
                            seen.add(t)
                            for a, b in zip(t[1], t[1][1:]):
                                if is_const(a, str) and a[1].endswith('/file/') and not is_const(b):
                                    out.append((n, self.ref(b)))
        return out

    def api_bucket_ids(self):
        """[(method, classification of the value of a 'bucketId' key of a dict the method builds or fills)]"""
        out = []
        for n, ev in sorted(self.entry.items()):
            seen = set()
            for e in ev:
                if e.kind == 'store' and e.value[0] == 'sub' and e.value[2] == ('const', 'bucketId') and isinstance(e.extra, tuple):
                    out.append((n, self.ref(e.extra)))
                for t0 in self._terms(e):
                    for t in subterms(t0):
                        if t[0] == 'dict' and t not in seen:
                            seen.add(t)
                            for k, v in t[1]:
                                if k == ('const', 'bucketId'):
                                    out.append((n, self.ref(v)))
        return out

    def match_fields(self, method):
        """fields of a reported bucket the connection string is compared with in the method (`ident in {a, b}`, `ident == a or …`)"""
        ev = self.runs.get(method)
        if not ev:
            return None
        out, seen = set(), False

        def atom(a):
            nonlocal seen
            if not isinstance(a, tuple) or not a:
                return
            if a[0] == 'or' and isinstance(a[1], frozenset):
                for x, _ in a[1]:
                    atom(x)
            elif a[0] == 'in' and self.ref(a[1]) == 'identifier' and a[2][0] in ('set', 'tuple', 'list'):
                seen = True
                for el in a[2][1]:
                    out.add(_field(el))
            elif a[0] == 'eq':
                for x, y in ((a[1], a[2]), (a[2], a[1])):
                    if self.ref(x) == 'identifier':
                        seen = True
                        out.add(_field(y))
            elif a[0] in ('and', 'not'):
                for x in (a[1] if a[0] == 'and' else (a[1],)):
                    atom(x)
        for e in ev:
            for a, _ in e.guard:
                atom(a)
        if not seen or None in out:
            return None
        return sorted(out)

    def getters(self):
        """methods that hand out the bucket record"""
        return sorted(n for n, ev in self.runs.items() if n != '__init__' and any(
            e.kind == 'return' and not any(c[0] == 'inline' for c in e.ctx) and self.is_bucket(e.value) for e in ev))

    def record_ok(self):
        ok = bool(self.records)
        for call in self.records:
            kw = dict(call[3])
            if _field(kw['id']) != 'bucketId' or _field(kw['name']) != 'bucketName':
                ok = False
        return ok


def section(ctx):
    emit, notes = ctx.emit, ctx.notes
    mod = sf.Module((ctx.REPO / 'replicat' / 'backends' / 'b2.py').read_text())
    emit('/-! ### B2 backend: the repository location (bucket name or bucket id) -/')

    def s(x):
        return json.dumps(x, ensure_ascii=False)

    def opt(name, typ, value, render, why='not recognised'):
        if value is None:
            notes['b2loc:' + name] = why
            emit(f'opaque {name} : {typ}')
        else:
            emit(f'def {name} : {typ} := {render(value)}')

    facts = None
    got = {}
    if 'B2' in mod.classes:
        try:
            facts = _Facts(mod)
            getters = facts.getters()
            got = {'dl': facts.download_slots(), 'api': facts.api_bucket_ids(),
                   'list': facts.match_fields(getters[0]) if getters else None, 'allowed': facts.match_fields('authenticate'),
                   'record': facts.record_ok()}
        except Exception as e:  # noqa: BLE001
            notes['b2loc'] = f'symbolic execution failed: {e!r}'
            facts = None
    if facts is None:
        for name, typ in (('b2DownloadBucketRef', 'String'), ('b2ApiBucketRef', 'String'), ('b2ListMatchFields', 'List String'),
                          ('b2AllowedMatchFields', 'List String')):
            opt(name, typ, None, s, 'class B2 not found / not executable')
        emit('def b2BucketRecordOk : Bool := false')
        return
    # ---- the bucket slot of every download-by-name URL: the formatted value right after a literal piece ending in '/file/'
    dl = got['dl']
    kinds = {k for _, k in dl}
    notes['b2loc:download-urls'] = ', '.join(f'{m}→{k}' for m, k in dl) or 'none found'
    opt('b2DownloadBucketRef', 'String', kinds.pop() if len(kinds) == 1 and None not in kinds else None, s,
        'the /file/<bucket>/ URLs of the class do not all fill the bucket slot with the same traceable expression: ' + notes['b2loc:download-urls'])
    # ---- the value of every 'bucketId' key of a request body
    api = got['api']
    kinds = {k for _, k in api}
    notes['b2loc:api-bucket-ids'] = ', '.join(f'{m}→{k}' for m, k in api) or 'none found'
    opt('b2ApiBucketRef', 'String', kinds.pop() if len(kinds) == 1 and None not in kinds else None, s,
        "the 'bucketId' values of the class are not all the same traceable expression: " + notes['b2loc:api-bucket-ids'])
    # ---- how the connection string is matched against the reported buckets
    render = lambda v: '[' + ', '.join(s(x) for x in v) + ']'  # noqa: E731
    opt('b2ListMatchFields', 'List String', got['list'], render)
    opt('b2AllowedMatchFields', 'List String', got['allowed'], render)
    # ---- the record: id from 'bucketId', name from 'bucketName'
    ok = got['record']
    if not ok:
        notes['b2loc:b2BucketRecordOk'] = 'a bucket record is not built as (id=…[bucketId], name=…[bucketName])'
    emit(f'def b2BucketRecordOk : Bool := {"true" if ok else "false"}')
