"""Extractor plug-in for C13, the B2 repository LOCATION (`-r b2:<bucket name>` or `-r b2:<bucket id>`): which string of the
bucket the adapter puts where.  Model: `ReplicatModel/B2Location.lean`; theorems `b2_location_spelling` … in Properties/C13.lean.

The B2 service addresses a bucket by NAME in download-by-name URLs (`…/file/<bucketName>/<fileName>`) and by ID in the
JSON API calls (`"bucketId": …`).  The adapter is given ONE string (name or id), looks the bucket up (`b2_list_buckets`, or the
`allowed` part of the authorisation when the key is restricted to one bucket) and keeps a record `(id, name)`.  Emitted
(all read from the current source, structurally — local aliases, helper methods and renamed variables are followed):

* `b2DownloadBucketRef : String` — what fills the bucket slot of every `/file/<…>/` URL of the class:
  `"resolved.name"` / `"resolved.id"` (a field of the looked-up record) or `"identifier"` (the connection string as given);
* `b2ApiBucketRef : String` — the same for the value of every `'bucketId'` key of a request body;
* `b2ListMatchFields`, `b2AllowedMatchFields : List String` — the JSON fields of a reported bucket the connection string is
  compared with in `_get_bucket` / `authenticate` (sorted);
* `b2BucketRecordOk : Bool` — every record is built as `(id = <…>['bucketId'], name = <…>['bucketName'])`.

Anything not recognised (no such URL, different slots filled differently, an expression that cannot be traced) becomes `opaque`:
the model still builds, the theorems that discharge the value by `decide` stop compiling.
"""
import ast
import json


def _methods(cls):
    return {f.name: f for f in cls.body if isinstance(f, (ast.FunctionDef, ast.AsyncFunctionDef))}


def _params(fn):
    a = fn.args
    return [x.arg for x in a.posonlyargs + a.args] + [x.arg for x in a.kwonlyargs]


def _strip(e):
    """drop `await`, parentheses are not nodes"""
    while isinstance(e, ast.Await):
        e = e.value
    return e


def _bindings(fn, name):
    """values bound to the local `name` inside fn: plain assignments, walrus, annotated assignments"""
    out = []
    for n in ast.walk(fn):
        if isinstance(n, ast.Assign) and len(n.targets) == 1 and isinstance(n.targets[0], ast.Name) and n.targets[0].id == name:
            out.append(n.value)
        elif isinstance(n, ast.AnnAssign) and isinstance(n.target, ast.Name) and n.target.id == name and n.value is not None:
            out.append(n.value)
        elif isinstance(n, ast.NamedExpr) and isinstance(n.target, ast.Name) and n.target.id == name:
            out.append(n.value)
    return out


class _Tracer:
    def __init__(self, cls, unparse):
        self.m = _methods(cls)
        self.unparse = unparse
        init = self.m.get('__init__')
        # attributes that hold the connection string: `self.X = <first parameter after self>` (possibly through str())
        self.ident_attrs = set()
        if init is not None and len(_params(init)) >= 2:
            conn = _params(init)[1]
            for n in ast.walk(init):
                if isinstance(n, ast.Assign) and len(n.targets) == 1 and self._self_attr(n.targets[0]):
                    v = n.value
                    if isinstance(v, ast.Call) and unparse(v.func) == 'str' and len(v.args) == 1:
                        v = v.args[0]
                    if isinstance(v, ast.Name) and v.id == conn:
                        self.ident_attrs.add(n.targets[0].attr)
        # attributes that hold the bucket record: assigned from a call with keywords id= and name=
        self.record_calls = []         # (fn, Call)
        self.bucket_attrs = set()
        for fn in self.m.values():
            for n in ast.walk(fn):
                if isinstance(n, ast.Assign) and len(n.targets) == 1 and self._self_attr(n.targets[0]) and isinstance(n.value, ast.Call) \
                        and {'id', 'name'} <= {k.arg for k in n.value.keywords}:
                    self.bucket_attrs.add(n.targets[0].attr)
                    self.record_calls.append((fn, n.value))
        # methods that hand out the record
        self.getters = set()
        for name, fn in self.m.items():
            for n in ast.walk(fn):
                if isinstance(n, ast.Return) and n.value is not None and self._self_attr(n.value) and n.value.attr in self.bucket_attrs:
                    self.getters.add(name)

    @staticmethod
    def _self_attr(e):
        return isinstance(e, ast.Attribute) and isinstance(e.value, ast.Name) and e.value.id == 'self'

    def _through_callers(self, fn, name, what, depth):
        """`name` is a parameter of method fn: classify the argument at every call `self.<fn>(…)` of the class; all must agree"""
        ps = _params(fn)
        if name not in ps or name == 'self':
            return None
        pos = ps.index(name) - 1
        found = set()
        for caller in self.m.values():
            for n in ast.walk(caller):
                if isinstance(n, ast.Call) and self._self_attr(n.func) and n.func.attr == fn.name:
                    arg = None
                    for k in n.keywords:
                        if k.arg == name:
                            arg = k.value
                    if arg is None and 0 <= pos < len(n.args):
                        arg = n.args[pos]
                    found.add(what(arg, caller, depth + 1) if arg is not None else None)
        return found.pop() if len(found) == 1 else None

    def is_bucket(self, e, fn, depth=0):
        e = _strip(e)
        if depth > 6 or e is None:
            return False
        if isinstance(e, ast.Call) and self._self_attr(e.func) and e.func.attr in self.getters:
            return True
        if self._self_attr(e) and e.attr in self.bucket_attrs:
            return True
        if isinstance(e, ast.Name):
            bs = _bindings(fn, e.id)
            if bs:
                return all(self.is_bucket(b, fn, depth + 1) for b in bs)
            return bool(self._through_callers(fn, e.id, lambda a, f, d: self.is_bucket(a, f, d) or None, depth))
        return False

    def ref(self, e, fn, depth=0):
        """'resolved.name' | 'resolved.id' | 'identifier' | None"""
        e = _strip(e)
        if depth > 6 or e is None:
            return None
        if isinstance(e, ast.Call) and self.unparse(e.func) == 'str' and len(e.args) == 1:
            return self.ref(e.args[0], fn, depth + 1)
        if self._self_attr(e) and e.attr in self.ident_attrs:
            return 'identifier'
        if isinstance(e, ast.Attribute) and e.attr in ('name', 'id') and self.is_bucket(e.value, fn, depth + 1):
            return 'resolved.' + e.attr
        if isinstance(e, ast.Name):
            bs = _bindings(fn, e.id)
            if bs:
                got = {self.ref(b, fn, depth + 1) for b in bs}
                return got.pop() if len(got) == 1 else None
            return self._through_callers(fn, e.id, self.ref, depth)
        return None

    def field(self, e, fn, depth=0):
        """the JSON key a value was read from: `<…>['bucketId']` → 'bucketId' (through local names)"""
        e = _strip(e)
        if depth > 6 or e is None:
            return None
        if isinstance(e, ast.NamedExpr):
            return self.field(e.value, fn, depth + 1)
        if isinstance(e, ast.Subscript) and isinstance(e.slice, ast.Constant) and isinstance(e.slice.value, str):
            return e.slice.value
        if isinstance(e, ast.Call) and isinstance(e.func, ast.Attribute) and e.func.attr == 'get' and e.args \
                and isinstance(e.args[0], ast.Constant) and isinstance(e.args[0].value, str):
            return e.args[0].value
        if isinstance(e, ast.Name):
            got = {self.field(b, fn, depth + 1) for b in _bindings(fn, e.id)}
            return got.pop() if len(got) == 1 else None
        return None

    def match_fields(self, fn):
        """fields the connection string is compared with in fn (`ident in {a, b}`, `ident not in …`, `ident == a or ident == b`)"""
        if fn is None:
            return None
        out = set()
        seen = False
        for n in ast.walk(fn):
            if not (isinstance(n, ast.Compare) and len(n.ops) == 1):
                continue
            left, right, op = n.left, n.comparators[0], n.ops[0]
            if isinstance(op, (ast.In, ast.NotIn)) and self.ref(left, fn) == 'identifier' and isinstance(right, (ast.Set, ast.Tuple, ast.List)):
                seen = True
                for el in right.elts:
                    out.add(self.field(el, fn))
            elif isinstance(op, (ast.Eq, ast.NotEq)):
                for a, b in ((left, right), (right, left)):
                    if self.ref(a, fn) == 'identifier':
                        seen = True
                        out.add(self.field(b, fn))
        if not seen or None in out:
            return None
        return sorted(out)


def section(ctx):
    emit, notes, unparse = ctx.emit, ctx.notes, ctx.unparse
    tree = ast.parse((ctx.REPO / 'replicat' / 'backends' / 'b2.py').read_text())
    cls = ctx.find_func(tree, 'B2')
    emit('/-! ### B2 backend: the repository location (bucket name or bucket id) -/')

    def s(x):
        return json.dumps(x, ensure_ascii=False)

    def opt(name, typ, value, render, why='not recognised'):
        if value is None:
            notes['b2loc:' + name] = why
            emit(f'opaque {name} : {typ}')
        else:
            emit(f'def {name} : {typ} := {render(value)}')

    if not isinstance(cls, ast.ClassDef):
        for name, typ in (('b2DownloadBucketRef', 'String'), ('b2ApiBucketRef', 'String'), ('b2ListMatchFields', 'List String'),
                          ('b2AllowedMatchFields', 'List String')):
            opt(name, typ, None, s, 'class B2 not found')
        emit('def b2BucketRecordOk : Bool := false')
        return
    tr = _Tracer(cls, unparse)
    # ---- the bucket slot of every download-by-name URL: the formatted value right after a literal piece ending in '/file/'
    dl = []
    for fn in tr.m.values():
        for n in ast.walk(fn):
            if isinstance(n, ast.JoinedStr):
                for a, b in zip(n.values, n.values[1:]):
                    if isinstance(a, ast.Constant) and isinstance(a.value, str) and a.value.endswith('/file/') and isinstance(b, ast.FormattedValue):
                        dl.append((fn.name, tr.ref(b.value, fn)))
    kinds = {k for _, k in dl}
    notes['b2loc:download-urls'] = ', '.join(f'{m}→{k}' for m, k in dl) or 'none found'
    opt('b2DownloadBucketRef', 'String', kinds.pop() if len(kinds) == 1 and None not in kinds else None, s,
        'the /file/<bucket>/ URLs of the class do not all fill the bucket slot with the same traceable expression: ' + notes['b2loc:download-urls'])
    # ---- the value of every 'bucketId' key of a request body
    api = []
    for fn in tr.m.values():
        for n in ast.walk(fn):
            if isinstance(n, ast.Dict):
                for k, v in zip(n.keys, n.values):
                    if isinstance(k, ast.Constant) and k.value == 'bucketId':
                        api.append((fn.name, tr.ref(v, fn)))
    kinds = {k for _, k in api}
    notes['b2loc:api-bucket-ids'] = ', '.join(f'{m}→{k}' for m, k in api) or 'none found'
    opt('b2ApiBucketRef', 'String', kinds.pop() if len(kinds) == 1 and None not in kinds else None, s,
        "the 'bucketId' values of the class are not all the same traceable expression: " + notes['b2loc:api-bucket-ids'])
    # ---- how the connection string is matched against the reported buckets
    render = lambda v: '[' + ', '.join(s(x) for x in v) + ']'
    getter = next((tr.m[g] for g in sorted(tr.getters)), None)
    opt('b2ListMatchFields', 'List String', tr.match_fields(getter), render)
    opt('b2AllowedMatchFields', 'List String', tr.match_fields(tr.m.get('authenticate')), render)
    # ---- the record: id from 'bucketId', name from 'bucketName'
    ok = bool(tr.record_calls)
    for fn, call in tr.record_calls:
        kw = {k.arg: k.value for k in call.keywords}
        if tr.field(kw['id'], fn) != 'bucketId' or tr.field(kw['name'], fn) != 'bucketName':
            ok = False
    if not ok:
        notes['b2loc:b2BucketRecordOk'] = 'a bucket record is not built as (id=…[bucketId], name=…[bucketName])'
    emit(f'def b2BucketRecordOk : Bool := {"true" if ok else "false"}')
