"""Extractor plug-in for C13 (backends as object stores): constants and small expressions of
replicat/backends/{local,s3c,b2}.py that the models `Store.lean`, `Paging.lean`, `LocalFS.lean` call.

Only things the model *uses* are emitted as definitions; anything not found becomes `opaque` (the dependent bridge lemmas in
Properties/C13.lean then stop compiling).  Shapes of whole functions are NOT asserted here (a harmless rewrite must not alarm):
they are fingerprinted for the evidence and validated by the differential runs.
"""
import ast
import json

HTTP_CODES = {'NOT_FOUND': 404, 'BAD_REQUEST': 400, 'FORBIDDEN': 403, 'UNAUTHORIZED': 401, 'TOO_MANY_REQUESTS': 429}


def _lit(node):
    try:
        return ast.literal_eval(node)
    except Exception:
        return None


def _status_const(node, unparse):
    """`httpx.codes.NOT_FOUND` / `404` → int"""
    v = _lit(node)
    if isinstance(v, int):
        return v
    s = unparse(node)
    for k, c in HTTP_CODES.items():
        if s.endswith('codes.' + k):
            return c
    return None


def _status_compare(fn, unparse):
    """first `<x>.status_code == <const>` inside fn → int"""
    for node in ast.walk(fn):
        if isinstance(node, ast.Compare) and len(node.ops) == 1 and isinstance(node.ops[0], ast.Eq) and unparse(node.left).endswith('status_code'):
            return _status_const(node.comparators[0], unparse)
    return None


def section(ctx):
    emit, notes, unparse = ctx.emit, ctx.notes, ctx.unparse

    def s(x):
        return json.dumps(x, ensure_ascii=False)

    def opt(name, typ, value, render):
        if value is None:
            notes['store:' + name] = 'not recognised'
            emit(f'opaque {name} : {typ}')
        else:
            emit(f'def {name} : {typ} := {render(value)}')

    # ------------------------------------------------------------------ local.py
    tree = ast.parse((ctx.REPO / 'replicat' / 'backends' / 'local.py').read_text())
    for m in ('exists', '_destination_temp', 'upload', 'upload_stream', 'download', 'download_stream', 'list_files', 'delete'):
        ctx.fp('backends.local.' + m, ctx.find_func(tree, 'Local', m))
    lf = ctx.find_func(tree, 'Local', 'list_files')
    exclude = None
    slice_from = None
    path_len_src = None
    if lf is not None:
        for node in ast.walk(lf):
            if isinstance(node, ast.If) and isinstance(node.test, ast.Call) and unparse(node.test.func).endswith('.endswith') \
                    and node.body and isinstance(node.body[0], ast.Continue):
                v = _lit(node.test.args[0]) if node.test.args else None
                if isinstance(v, str):
                    exclude = v
            if isinstance(node, ast.Yield) and isinstance(node.value, ast.Subscript) and isinstance(node.value.slice, ast.Slice) \
                    and node.value.slice.lower is not None and node.value.slice.upper is None and node.value.slice.step is None:
                try:
                    slice_from = ctx.translate(unparse(node.value.slice.lower), {'path_length': ('pathLength', 'nat')}, 'nat')
                except ctx.Untranslatable:
                    slice_from = None
            if isinstance(node, ast.Assign) and unparse(node.targets[0]) == 'path_length':
                path_len_src = unparse(node.value)
    emit('/-! ### local backend -/')
    opt('localListExcludeSuffix', 'String', exclude, s)
    if slice_from is None:
        notes['store:localSliceFrom'] = 'not recognised'
        emit('opaque localSliceFrom : Nat → Nat')
    else:
        emit(f'def localSliceFrom (pathLength : Nat) : Nat := {slice_from}')
    emit(f'def localPathLengthIsLenOfStrOfRoot : Bool := {"true" if path_len_src == "len(str(self.path))" else "false"}')
    dt = ctx.find_func(tree, 'Local', '_destination_temp')
    temp_suffix = None
    if dt is not None:
        for node in ast.walk(dt):
            if isinstance(node, ast.Call) and unparse(node.func).endswith('NamedTemporaryFile'):
                for k in node.keywords:
                    if k.arg == 'suffix':
                        temp_suffix = _lit(k.value)
    opt('localTempSuffix', 'String', temp_suffix if isinstance(temp_suffix, str) else None, s)
    de = ctx.find_func(tree, 'Local', 'delete')
    missing_ok = None
    if de is not None:
        for node in ast.walk(de):
            if isinstance(node, ast.Call) and unparse(node.func).endswith('.unlink'):
                missing_ok = False
                for k in node.keywords:
                    if k.arg == 'missing_ok':
                        missing_ok = bool(_lit(k.value))
    opt('localUnlinkMissingOk', 'Bool', missing_ok, lambda b: 'true' if b else 'false')

    # ------------------------------------------------------------------ s3c.py
    tree = ast.parse((ctx.REPO / 'replicat' / 'backends' / 's3c.py').read_text())
    for m in ('exists', '_put_object', 'upload', '_put_object_stream', 'upload_stream', 'download', 'download_stream', '_list_objects', 'list_files', 'delete'):
        ctx.fp('backends.s3c.' + m, ctx.find_func(tree, 'S3Compatible', m))
    lf = ctx.find_func(tree, 'S3Compatible', 'list_files')
    tag_trunc = stop_text = tag_token = tag_key = None
    init_trunc = None
    if lf is not None:
        for node in ast.walk(lf):
            if isinstance(node, ast.Assign) and unparse(node.targets[0]) == 'is_truncated' and init_trunc is None:
                init_trunc = _lit(node.value)
            if isinstance(node, ast.If):
                # the if / elif chain over `tag`
                cur = node
                while isinstance(cur, ast.If):
                    t = cur.test
                    body = cur.body
                    if isinstance(t, ast.BoolOp) and isinstance(t.op, ast.And) and len(t.values) == 2 \
                            and all(isinstance(v, ast.Compare) and len(v.ops) == 1 and isinstance(v.ops[0], ast.Eq) for v in t.values) \
                            and unparse(t.values[0].left) == 'tag' and unparse(t.values[1].left) == 'element.text' \
                            and len(body) == 1 and unparse(body[0]) == 'is_truncated = False':
                        tag_trunc, stop_text = _lit(t.values[0].comparators[0]), _lit(t.values[1].comparators[0])
                    elif isinstance(t, ast.Compare) and len(t.ops) == 1 and isinstance(t.ops[0], ast.Eq) and unparse(t.left) == 'tag' and len(body) == 1:
                        b = unparse(body[0])
                        if b == 'continuation_token = element.text':
                            tag_token = _lit(t.comparators[0])
                        elif b == 'yield element.text':
                            tag_key = _lit(t.comparators[0])
                    cur = cur.orelse[0] if len(cur.orelse) == 1 else None
    emit('/-! ### S3-compatible backend -/')
    opt('s3TagTruncated', 'String', tag_trunc, s)
    opt('s3StopText', 'String', stop_text, s)
    opt('s3TagToken', 'String', tag_token, s)
    opt('s3TagKey', 'String', tag_key, s)
    opt('s3LoopStartsTruncated', 'Bool', init_trunc if isinstance(init_trunc, bool) else None, lambda b: 'true' if b else 'false')
    ex = ctx.find_func(tree, 'S3Compatible', 'exists')
    opt('s3ExistsFalseStatus', 'Nat', _status_compare(ex, unparse) if ex is not None else None, str)

    # ------------------------------------------------------------------ b2.py
    tree = ast.parse((ctx.REPO / 'replicat' / 'backends' / 'b2.py').read_text())
    for m in ('authenticate', '_get_bucket', 'exists', '_get_upload_url_token', 'upload', 'upload_stream', 'download', 'download_stream',
              '_list_file_names', 'list_files', 'delete'):
        ctx.fp('backends.b2.' + m, ctx.find_func(tree, 'B2', m))
    de = ctx.find_func(tree, 'B2', 'delete')
    codes = None
    status = None
    if de is not None:
        status = _status_compare(de, unparse)
        for node in ast.walk(de):
            if isinstance(node, ast.Compare) and len(node.ops) == 1 and isinstance(node.ops[0], ast.In) and "get('code')" in unparse(node.left):
                v = _lit(node.comparators[0])
                if isinstance(v, (tuple, list, set)) and all(isinstance(x, str) for x in v):
                    codes = sorted(v)
    emit('/-! ### B2 backend -/')
    opt('b2ToleratedHideCodes', 'List String', codes, lambda v: '[' + ', '.join(s(x) for x in v) + ']')
    opt('b2ToleratedHideStatus', 'Nat', status, str)
    ex = ctx.find_func(tree, 'B2', 'exists')
    opt('b2ExistsFalseStatus', 'Nat', _status_compare(ex, unparse) if ex is not None else None, str)
    lf = ctx.find_func(tree, 'B2', 'list_files')
    stops_on_null = None
    if lf is not None:
        for node in ast.walk(lf):
            if isinstance(node, ast.If) and node.body and isinstance(node.body[0], ast.Break):
                t = unparse(node.test)
                if t == "decoded['nextFileName'] is None":
                    stops_on_null = True
                elif 'nextFileName' in t:
                    stops_on_null = False
    opt('b2LoopStopsOnNullNext', 'Bool', stops_on_null, lambda b: 'true' if b else 'false')
    quoted = None
    up = ctx.find_func(tree, 'B2', 'upload')
    if up is not None:
        for node in ast.walk(up):
            if isinstance(node, ast.Dict):
                for k, v in zip(node.keys, node.values):
                    if _lit(k) == 'x-bz-file-name':
                        quoted = unparse(v) == 'quote(name)'
    opt('b2UploadNameQuoted', 'Bool', quoted, lambda b: 'true' if b else 'false')
