"""Extractor plug-in for C13 (backends as object stores): constants and small expressions of
replicat/backends/{local,s3c,b2}.py that the models `Store.lean`, `Paging.lean`, `LocalFS.lean` call.

Only things the model *uses* are emitted as definitions; anything not found becomes `opaque` (the dependent bridge lemmas in
Properties/C13.lean then stop compiling).  Shapes of whole functions are NOT asserted here (a harmless rewrite must not alarm):
they are fingerprinted for the evidence and validated by the differential runs.

Recognition is SEMANTIC: every backend method is executed symbolically (`tools/symflow.py`: names resolved through assignments,
module / class constants and helper calls; conditions normalised; each effect with the guard under which it happens) and a fact is
a query over the resulting events — see the docstrings of the queries here and in `tools/symfacts.py`.  Renamed locals / helpers,
code moved into or out of helpers, swapped branches, early exits, `while True … break` ↔ `while flag`, hoisted constants,
comprehensions ↔ loops and added logging do not change a fact; removing the structure does (→ `opaque` / `false`).
"""
import json

import symflow as sf
import symfacts
from symflow import TRUE, FALSE, is_const, mentions, method_call, global_call, subterms

HTTP_CODES = {'NOT_FOUND': 404, 'BAD_REQUEST': 400, 'FORBIDDEN': 403, 'UNAUTHORIZED': 401, 'TOO_MANY_REQUESTS': 429}


def _status_const(v):
    """`httpx.codes.NOT_FOUND` / `404` / `http.HTTPStatus.NOT_FOUND` → int"""
    if is_const(v, int):
        return v[1]
    if v[0] == 'global':
        last = v[1].split('.')[-1]
        if last in HTTP_CODES and ('codes' in v[1] or 'HTTPStatus' in v[1] or 'status' in v[1].lower()):
            return HTTP_CODES[last]
    return None


def _status_literals(guard):
    """the literals `<…>.status_code == <code>` of a guard → [(code, polarity)]"""
    out = []
    for atom, pol in guard:
        if isinstance(atom, tuple) and atom and atom[0] == 'eq' and any(t[0] == 'attr' and t[2] in ('status_code', 'status') for t in subterms(atom[1])):
            out.append((_status_const(atom[2]), pol))
    return out


def _own(e):
    return not any(c[0] in ('inline', 'deferred') for c in e.ctx)


def exists_false_status(interp):
    """`exists`: the status code C such that the method answers False exactly on the path `caught HTTP error ∧ status == C`
    (every `return False` of the method itself sits in an exception handler and is guarded by one positive status literal) → int"""
    events, _ = interp.run('exists')
    codes = set()
    for e in events or []:
        if e.kind == 'return' and _own(e) and e.value == FALSE:
            if not e.inside('handler'):
                return None
            lits = _status_literals(e.guard)
            if len(lits) != 1 or not lits[0][1] or lits[0][0] is None:
                return None
            codes.add(lits[0][0])
    return codes.pop() if len(codes) == 1 else None


def paging_loop(interp, events):
    """the first outermost `while` loop in whose body names are yielded — by the method itself, or by a generator helper of the
    class that the method iterates (its events are inlined where it is iterated)"""
    for lid in sorted(interp.loops):
        loop = interp.loops[lid]
        if loop.kind != 'while':
            continue
        ys = [e for e in events if e.kind == 'yield' and e.inside('while', lid)]
        if ys and not any(c[0] in ('while', 'for') for c in ys[0].ctx[:[i for i, c in enumerate(ys[0].ctx) if c[:2] == ('while', lid)][0]]):
            return loop
    return None


def b2_stops_on_null_next(interp):
    """B2 `list_files`: after a page, ANOTHER page is requested iff the `nextFileName` of THIS page's decoded response is not None
    (and the first page is requested unconditionally).  `while True … if next is None: break`, `while has_more` with
    `has_more = next is not None`, an early `return`, swapped branches … all give the same continue-condition.
    → True; a different condition on nextFileName → False; no such loop → None"""
    events, _ = interp.run('list_files')
    if not events:
        return None
    loop = paging_loop(interp, events)
    if loop is None:
        return None
    first = sf.first_iteration_condition(loop)
    cc = sf.continue_condition(interp, loop, events)
    if cc is None:
        return None

    def next_name(t):
        if t[0] == 'sub' and t[2] == ('const', 'nextFileName'):
            return t[1]
        m = method_call(t, ('get',))
        if m is not None and m[2] == (('const', 'nextFileName'),):
            return m[0]
        return None
    about_next = any(next_name(t) is not None for it in cc for t in subterms(it[0] if not isinstance(it[0][1], frozenset) else tuple(x[0] for x in it[0][1])))
    if len(cc) == 1:
        atom, pol = next(iter(cc))
        if not pol and atom[0] == 'isnone':
            src = next_name(atom[1])
            # the response of THIS iteration: nothing carried over from the previous one
            if src is not None and not any(t[0] == 'carried' for t in subterms(src)) and first == TRUE \
                    and any(e.kind == 'call' and e.inside('while', loop.id) and mentions(src, e.value) for e in events):
                return True
    return False if about_next else None


def s3_listing(interp):
    """S3 `list_files`, read off the events of the paging loop:
      key tag    K — the method yields `<element>.text` under the guard `tag(<element>) == K`;
      token tag  T — a variable carried to the next request is set to `<element>.text` under `tag == T`;
      truncation   — the loop test is a carried flag; it is cleared (set so that the test fails) under `tag == X ∧ text == Y`
                     (or assigned `text != Y` under `tag == X`);
      starts       — the loop test holds for the initial values.
    → dict(trunc, stop, token, key, starts)"""
    out = dict(trunc=None, stop=None, token=None, key=None, starts=None)
    events, _ = interp.run('list_files')
    if not events:
        return out
    loop = paging_loop(interp, events)
    if loop is None:
        return out
    first = sf.first_iteration_condition(loop)
    if is_const(first):
        out['starts'] = bool(first[1])
    inside = [e for e in events if e.inside('while', loop.id)]

    def tag_literal(guard, elem_text):
        """K of the positive literal `<…elem.tag…> == K` of the guard, for the element whose `.text` is elem_text"""
        if not (elem_text[0] == 'attr' and elem_text[2] == 'text'):
            return None
        el = elem_text[1]
        ks = {atom[2][1] for atom, pol in guard if pol and isinstance(atom, tuple) and atom and atom[0] == 'eq' and is_const(atom[2], str)
              and mentions(atom[1], ('attr', el, 'tag'))}
        return ks.pop() if len(ks) == 1 else None
    keys = {tag_literal(e.guard, e.value) for e in inside if e.kind == 'yield'}
    if len(keys) == 1:
        out['key'] = keys.pop()
    flag_pol = {}
    for atom, pol in sf.literals(loop.test, True) if loop.test is not None else []:
        if isinstance(atom, tuple) and atom[0] == 'carried':
            flag_pol[atom[2]] = pol
    used = lambda name: any(mentions(x, ('carried', loop.id, name)) for e in events if e.inside('while', loop.id)  # noqa: E731
                            for x in ((e.value, e.extra) if isinstance(e.extra, tuple) else (e.value,)))
    tokens, truncs = set(), set()
    for e in inside:
        if e.kind != 'assign' or e.extra not in loop.init:
            continue
        if e.extra in flag_pol:
            want_false = flag_pol[e.extra]          # `while flag` is left by flag = False, `while not done` by done = True
            if is_const(e.value, bool) and e.value[1] == want_false:
                pass                                 # re-arming the flag: not a stop
            elif is_const(e.value, bool):
                texts = [(atom[1], atom[2][1]) for atom, pol in e.guard if pol and isinstance(atom, tuple) and atom and atom[0] == 'eq'
                         and is_const(atom[2], str) and atom[1][0] == 'attr' and atom[1][2] == 'text']
                if len(texts) == 1:
                    truncs.add((tag_literal(e.guard, texts[0][0]), texts[0][1]))
                else:
                    truncs.add((None, None))
            else:
                v = e.value if want_false else sf.mk_not(e.value)
                if v[0] == 'not' and v[1][0] == 'eq' and is_const(v[1][2], str) and v[1][1][0] == 'attr' and v[1][1][2] == 'text':
                    truncs.add((tag_literal(e.guard, v[1][1]), v[1][2][1]))
                else:
                    truncs.add((None, None))
        elif e.value[0] == 'attr' and e.value[2] == 'text' and used(e.extra):
            tokens.add(tag_literal(e.guard, e.value))
    if len(tokens) == 1:
        out['token'] = tokens.pop()
    if len(truncs) == 1:
        out['trunc'], out['stop'] = truncs.pop()
    return out


def b2_tolerated_hide(interp):
    """B2 `delete`: the method returns normally from the handler of the HTTP error exactly under
    `status == S ∧ decoded error code ∈ CODES` → (sorted codes, S)"""
    events, _ = interp.run('delete')
    found = set()
    for e in events or []:
        if e.kind == 'return' and _own(e) and e.inside('handler'):
            st = [c for c, pol in _status_literals(e.guard) if pol]
            codes = None
            for atom, pol in e.guard:
                if not pol or not isinstance(atom, tuple) or not atom:
                    continue
                if atom[0] == 'in' and any(t == ('const', 'code') for t in subterms(atom[1])):
                    c = atom[2]
                    vals = c[1] if c[0] in ('tuple', 'list') else (tuple(c[1]) if c[0] == 'set' else (tuple(('const', x) for x in c[1]) if is_const(c, (tuple, frozenset)) else ()))
                    if vals and all(is_const(x, str) for x in vals):
                        codes = tuple(sorted(x[1] for x in vals))
                elif atom[0] == 'or' and isinstance(atom[1], frozenset):
                    alts = [a for a, p in atom[1] if p and a[0] == 'eq' and is_const(a[2], str) and any(t == ('const', 'code') for t in subterms(a[1]))]
                    if len(alts) == len(atom[1]):
                        codes = tuple(sorted(a[2][1] for a in alts))
                elif atom[0] == 'eq' and is_const(atom[2], str) and any(t == ('const', 'code') for t in subterms(atom[1])):
                    codes = (atom[2][1],)
            found.add((codes, st[0] if len(st) == 1 else None))
    if len(found) == 1:
        return next(iter(found))
    return None, None


def b2_upload_name_quoted(interp):
    """B2 `upload`: the value sent as `x-bz-file-name` is `quote(<name parameter>)` (no `safe=` override) → True / False / None"""
    events, _ = interp.run('upload')
    vals = []
    for e in events or []:
        terms = [e.value] + ([e.extra] if isinstance(e.extra, tuple) else [])
        if e.kind == 'store' and e.value[0] == 'sub' and e.value[2] == ('const', 'x-bz-file-name'):
            vals.append(e.extra)
        if e.kind == 'call':
            for t in terms:
                for d in subterms(t):
                    if d[0] == 'dict':
                        vals.extend(v for k, v in d[1] if k == ('const', 'x-bz-file-name'))
    if not vals:
        return None
    ok = True
    for v in vals:
        g = global_call(v, ('urllib.parse.quote',))
        ok = ok and g is not None and g[1] == (('arg', 0),) and not g[2]
    return ok


def section(ctx):
    emit, notes = ctx.emit, ctx.notes

    def s(x):
        return json.dumps(x, ensure_ascii=False)

    def opt(name, typ, value, render):
        if value is None:
            notes['store:' + name] = 'not recognised'
            emit(f'opaque {name} : {typ}')
        else:
            emit(f'def {name} : {typ} := {render(value)}')

    def boolean(b):
        return 'true' if b else 'false'

    def guarded(what, fn, default=None):
        """a query that fails on an unforeseen shape degrades to "not recognised", never to a crash of the whole section"""
        try:
            return fn()
        except Exception as e:  # noqa: BLE001
            notes['store:' + what] = f'query failed: {e!r}'
            return default

    # ------------------------------------------------------------------ local.py
    import ast
    tree = ast.parse((ctx.REPO / 'replicat' / 'backends' / 'local.py').read_text())
    for m in ('exists', '_destination_temp', 'upload', 'upload_stream', 'download', 'download_stream', 'list_files', 'delete'):
        ctx.fp('backends.local.' + m, ctx.find_func(tree, 'Local', m))
    lf = guarded('local', lambda: symfacts.local_facts(ctx.REPO), {}) or {}
    listing = lf.get('listing') or {}
    emit('/-! ### local backend -/')
    opt('localListExcludeSuffix', 'String', listing.get('exclude'), s)
    slice_from = None
    if listing.get('slice') is not None:
        try:
            slice_from = ctx.translate(listing['slice'][0], {'pathLength': ('pathLength', 'nat')}, 'nat')
        except ctx.Untranslatable:
            slice_from = None
    if slice_from is None:
        notes['store:localSliceFrom'] = 'not recognised' + (': ' + listing.get('why', '') if listing.get('why') else '')
        emit('opaque localSliceFrom : Nat → Nat')
    else:
        emit(f'def localSliceFrom (pathLength : Nat) : Nat := {slice_from}')
    emit(f'def localPathLengthIsLenOfStrOfRoot : Bool := {boolean(slice_from is not None and listing["slice"][1])}')
    emit(f'def localRootMadeAbsolute : Bool := {boolean(lf.get("root_abs"))}')
    up, ups = lf.get('up') or {}, lf.get('ups') or {}
    temp_suffix = up.get('suffix') if up.get('suffix') is not None and up.get('suffix') == ups.get('suffix') else None
    opt('localTempSuffix', 'String', temp_suffix, s)
    opt('localUnlinkMissingOk', 'Bool', lf.get('missing_ok'), boolean)

    # ------------------------------------------------------------------ s3c.py
    src = (ctx.REPO / 'replicat' / 'backends' / 's3c.py').read_text()
    tree = ast.parse(src)
    for m in ('exists', '_put_object', 'upload', '_put_object_stream', 'upload_stream', 'download', 'download_stream', '_list_objects', 'list_files', 'delete'):
        ctx.fp('backends.s3c.' + m, ctx.find_func(tree, 'S3Compatible', m))
    mod = sf.Module(src)
    listing3 = dict(trunc=None, stop=None, token=None, key=None, starts=None)
    s3_exists = None
    if 'S3Compatible' in mod.classes:
        listing3 = guarded('s3 list_files', lambda: s3_listing(sf.Interp(mod, 'S3Compatible')), listing3)
        s3_exists = guarded('s3 exists', lambda: exists_false_status(sf.Interp(mod, 'S3Compatible')))
    emit('/-! ### S3-compatible backend -/')
    opt('s3TagTruncated', 'String', listing3['trunc'], s)
    opt('s3StopText', 'String', listing3['stop'], s)
    opt('s3TagToken', 'String', listing3['token'], s)
    opt('s3TagKey', 'String', listing3['key'], s)
    opt('s3LoopStartsTruncated', 'Bool', listing3['starts'], boolean)
    opt('s3ExistsFalseStatus', 'Nat', s3_exists, str)

    # ------------------------------------------------------------------ b2.py
    src = (ctx.REPO / 'replicat' / 'backends' / 'b2.py').read_text()
    tree = ast.parse(src)
    for m in ('authenticate', '_get_bucket', 'exists', '_get_upload_url_token', 'upload', 'upload_stream', 'download', 'download_stream',
              '_list_file_names', 'list_files', 'delete'):
        ctx.fp('backends.b2.' + m, ctx.find_func(tree, 'B2', m))
    mod = sf.Module(src)
    codes = status = b2_exists = stops_on_null = quoted = None
    if 'B2' in mod.classes:
        codes, status = guarded('b2 delete', lambda: b2_tolerated_hide(sf.Interp(mod, 'B2')), (None, None))
        b2_exists = guarded('b2 exists', lambda: exists_false_status(sf.Interp(mod, 'B2')))
        stops_on_null = guarded('b2 list_files', lambda: b2_stops_on_null_next(sf.Interp(mod, 'B2')))
        quoted = guarded('b2 upload', lambda: b2_upload_name_quoted(sf.Interp(mod, 'B2')))
    emit('/-! ### B2 backend -/')
    opt('b2ToleratedHideCodes', 'List String', list(codes) if codes is not None else None, lambda v: '[' + ', '.join(s(x) for x in v) + ']')
    opt('b2ToleratedHideStatus', 'Nat', status, str)
    opt('b2ExistsFalseStatus', 'Nat', b2_exists, str)
    opt('b2LoopStopsOnNullNext', 'Bool', stops_on_null, boolean)
    opt('b2UploadNameQuoted', 'Bool', quoted, boolean)
