"""Extractor plug-in for C13 (backends as object stores): constants and small expressions of
replicat/backends/{local,s3c,b2}.py that the models `Store.lean`, `Paging.lean`, `LocalFS.lean` call.

Only things the model *uses* are emitted as definitions; anything not found becomes `opaque` (the dependent bridge lemmas in
Properties/C13.lean then stop compiling).  Shapes of whole functions are NOT asserted here (a harmless rewrite must not alarm):
they are fingerprinted for the evidence and validated by the differential runs.
"""
import ast
import json

HTTP_CODES = {'NOT_FOUND': 404, 'BAD_REQUEST': 400, 'FORBIDDEN': 403, 'UNAUTHORIZED': 401, 'TOO_MANY_REQUESTS': 429}


def _lit(node):
    try:
        return ast.literal_eval(node)
    except Exception:
        return None


def _status_const(node, unparse):
    """`httpx.codes.NOT_FOUND` / `404` → int"""
    v = _lit(node)
    if isinstance(v, int):
        return v
    s = unparse(node)
    for k, c in HTTP_CODES.items():
        if s.endswith('codes.' + k):
            return c
    return None


def _status_compare(fn, unparse):
    """first `<x>.status_code == <const>` inside fn → int"""
    for node in ast.walk(fn):
        if isinstance(node, ast.Compare) and len(node.ops) == 1 and isinstance(node.ops[0], ast.Eq) and unparse(node.left).endswith('status_code'):
            return _status_const(node.comparators[0], unparse)
    return None


def section(ctx):
    emit, notes, unparse = ctx.emit, ctx.notes, ctx.unparse

    def s(x):
        return json.dumps(x, ensure_ascii=False)

    def opt(name, typ, value, render):
        if value is None:
            notes['store:' + name] = 'not recognised'
            emit(f'opaque {name} : {typ}')
        else:
            emit(f'def {name} : {typ} := {render(value)}')

    # ------------------------------------------------------------------ local.py
    tree = ast.parse((ctx.REPO / 'replicat' / 'backends' / 'local.py').read_text())
    for m in ('exists', '_destination_temp', 'upload', 'upload_stream', 'download', 'download_stream', 'list_files', 'delete'):
        ctx.fp('backends.local.' + m, ctx.find_func(tree, 'Local', m))
    lf = ctx.find_func(tree, 'Local', 'list_files')
    exclude = None
    slice_from = None
    path_len_src = None
    path_len_var = 'path_length'
    if lf is not None:
        for node in ast.walk(lf):
            # the variable that holds len(str(self.path)) may be renamed by a refactoring
            if isinstance(node, ast.Assign) and len(node.targets) == 1 and isinstance(node.targets[0], ast.Name) \
                    and unparse(node.value) == 'len(str(self.path))':
                path_len_var = node.targets[0].id
        for node in ast.walk(lf):
            if isinstance(node, ast.If) and isinstance(node.test, ast.Call) and unparse(node.test.func).endswith('.endswith') \
                    and node.body and isinstance(node.body[0], ast.Continue):
                v = _lit(node.test.args[0]) if node.test.args else None
                if isinstance(v, str):
                    exclude = v
            if isinstance(node, ast.Yield) and isinstance(node.value, ast.Subscript) and isinstance(node.value.slice, ast.Slice) \
                    and node.value.slice.lower is not None and node.value.slice.upper is None and node.value.slice.step is None:
                try:
                    slice_from = ctx.translate(unparse(node.value.slice.lower), {path_len_var: ('pathLength', 'nat')}, 'nat')
                except ctx.Untranslatable:
                    slice_from = None
            if isinstance(node, ast.Assign) and unparse(node.targets[0]) == path_len_var:
                path_len_src = unparse(node.value)
    emit('/-! ### local backend -/')
    opt('localListExcludeSuffix', 'String', exclude, s)
    if slice_from is None:
        notes['store:localSliceFrom'] = 'not recognised'
        emit('opaque localSliceFrom : Nat → Nat')
    else:
        emit(f'def localSliceFrom (pathLength : Nat) : Nat := {slice_from}')
    emit(f'def localPathLengthIsLenOfStrOfRoot : Bool := {"true" if path_len_src == "len(str(self.path))" else "false"}')
    init = ctx.find_func(tree, 'Local', '__init__')
    made_abs = False
    if init is not None:
        for node in ast.walk(init):
            if isinstance(node, ast.Assign) and unparse(node.targets[0]) == 'self.path':
                v = unparse(node.value)
                made_abs = v.endswith('.absolute()') or v.endswith('.resolve()') or 'abspath(' in v
    emit(f'def localRootMadeAbsolute : Bool := {"true" if made_abs else "false"}')
    dt = ctx.find_func(tree, 'Local', '_destination_temp')
    temp_suffix = None
    if dt is not None:
        for node in ast.walk(dt):
            if isinstance(node, ast.Call) and unparse(node.func).endswith('NamedTemporaryFile'):
                for k in node.keywords:
                    if k.arg == 'suffix':
                        temp_suffix = _lit(k.value)
    opt('localTempSuffix', 'String', temp_suffix if isinstance(temp_suffix, str) else None, s)
    de = ctx.find_func(tree, 'Local', 'delete')
    missing_ok = None
    if de is not None:
        for node in ast.walk(de):
            if isinstance(node, ast.Call) and unparse(node.func).endswith('.unlink'):
                missing_ok = False
                for k in node.keywords:
                    if k.arg == 'missing_ok':
                        missing_ok = bool(_lit(k.value))
    opt('localUnlinkMissingOk', 'Bool', missing_ok, lambda b: 'true' if b else 'false')

    # ------------------------------------------------------------------ s3c.py
    tree = ast.parse((ctx.REPO / 'replicat' / 'backends' / 's3c.py').read_text())
    for m in ('exists', '_put_object', 'upload', '_put_object_stream', 'upload_stream', 'download', 'download_stream', '_list_objects', 'list_files', 'delete'):
        ctx.fp('backends.s3c.' + m, ctx.find_func(tree, 'S3Compatible', m))
    lf = ctx.find_func(tree, 'S3Compatible', 'list_files')
    tag_trunc = stop_text = tag_token = tag_key = None
    init_trunc = None
    if lf is not None:
        loop_var = None
        for node in ast.walk(lf):
            if isinstance(node, ast.While) and isinstance(node.test, ast.Name):
                loop_var = node.test.id
        for node in ast.walk(lf):
            if isinstance(node, ast.Assign) and len(node.targets) == 1 and isinstance(node.targets[0], ast.Name) \
                    and node.targets[0].id == loop_var and init_trunc is None:
                init_trunc = _lit(node.value)

        def is_text(n):
            return isinstance(n, ast.Attribute) and n.attr == 'text'

        def eq_const(c):
            """`<name> == <str const>` → (name, const)"""
            if isinstance(c, ast.Compare) and len(c.ops) == 1 and isinstance(c.ops[0], ast.Eq) and isinstance(_lit(c.comparators[0]), str):
                return c.left, _lit(c.comparators[0])
            return None, None
        for node in ast.walk(lf):
            if isinstance(node, ast.If):
                cur = node
                while isinstance(cur, ast.If):
                    t_, body = cur.test, cur.body
                    if isinstance(t_, ast.BoolOp) and isinstance(t_.op, ast.And) and len(t_.values) == 2 and len(body) == 1:
                        (l0, c0), (l1, c1) = eq_const(t_.values[0]), eq_const(t_.values[1])
                        if l0 is not None and l1 is not None and isinstance(l0, ast.Name) and is_text(l1) \
                                and isinstance(body[0], ast.Assign) and unparse(body[0].targets[0]) == loop_var and _lit(body[0].value) is False:
                            tag_trunc, stop_text = c0, c1
                    else:
                        l0, c0 = eq_const(t_)
                        if l0 is not None and isinstance(l0, ast.Name) and len(body) == 1:
                            b = body[0]
                            if isinstance(b, ast.Assign) and isinstance(b.targets[0], ast.Name) and is_text(b.value):
                                tag_token = c0
                            elif isinstance(b, ast.Expr) and isinstance(b.value, ast.Yield) and is_text(b.value.value):
                                tag_key = c0
                    cur = cur.orelse[0] if len(cur.orelse) == 1 else None
    emit('/-! ### S3-compatible backend -/')
    opt('s3TagTruncated', 'String', tag_trunc, s)
    opt('s3StopText', 'String', stop_text, s)
    opt('s3TagToken', 'String', tag_token, s)
    opt('s3TagKey', 'String', tag_key, s)
    opt('s3LoopStartsTruncated', 'Bool', init_trunc if isinstance(init_trunc, bool) else None, lambda b: 'true' if b else 'false')
    ex = ctx.find_func(tree, 'S3Compatible', 'exists')
    opt('s3ExistsFalseStatus', 'Nat', _status_compare(ex, unparse) if ex is not None else None, str)

    # ------------------------------------------------------------------ b2.py
    tree = ast.parse((ctx.REPO / 'replicat' / 'backends' / 'b2.py').read_text())
    for m in ('authenticate', '_get_bucket', 'exists', '_get_upload_url_token', 'upload', 'upload_stream', 'download', 'download_stream',
              '_list_file_names', 'list_files', 'delete'):
        ctx.fp('backends.b2.' + m, ctx.find_func(tree, 'B2', m))
    de = ctx.find_func(tree, 'B2', 'delete')
    codes = None
    status = None
    if de is not None:
        status = _status_compare(de, unparse)
        for node in ast.walk(de):
            if isinstance(node, ast.Compare) and len(node.ops) == 1 and isinstance(node.ops[0], ast.In) and "get('code')" in unparse(node.left):
                v = _lit(node.comparators[0])
                if isinstance(v, (tuple, list, set)) and all(isinstance(x, str) for x in v):
                    codes = sorted(v)
    emit('/-! ### B2 backend -/')
    opt('b2ToleratedHideCodes', 'List String', codes, lambda v: '[' + ', '.join(s(x) for x in v) + ']')
    opt('b2ToleratedHideStatus', 'Nat', status, str)
    ex = ctx.find_func(tree, 'B2', 'exists')
    opt('b2ExistsFalseStatus', 'Nat', _status_compare(ex, unparse) if ex is not None else None, str)
    lf = ctx.find_func(tree, 'B2', 'list_files')
    stops_on_null = None
    if lf is not None:
        for node in ast.walk(lf):
            if isinstance(node, ast.If) and node.body and isinstance(node.body[0], ast.Break):
                t = unparse(node.test)
                if t == "decoded['nextFileName'] is None":
                    stops_on_null = True
                elif 'nextFileName' in t:
                    stops_on_null = False
    opt('b2LoopStopsOnNullNext', 'Bool', stops_on_null, lambda b: 'true' if b else 'false')
    quoted = None
    up = ctx.find_func(tree, 'B2', 'upload')
    if up is not None:
        for node in ast.walk(up):
            if isinstance(node, ast.Dict):
                for k, v in zip(node.keys, node.values):
                    if _lit(k) == 'x-bz-file-name':
                        quoted = unparse(v) == 'quote(name)'
    opt('b2UploadNameQuoted', 'Bool', quoted, lambda b: 'true' if b else 'false')
