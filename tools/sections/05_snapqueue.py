"""C05 (adversarial backend during a snapshot): WHAT the chunk producer puts in the upload queue and WHAT a worker hands to the
backend when `exists` answers False — read from the AST of `Repository.snapshot` (`_chunk_producer`, `_worker`).

The backend decides, per chunk, whether the queued object is uploaded (`exists` may answer anything: eventual consistency, another
client's clean / delete between two calls).  Secrecy for EVERY such schedule therefore needs: in an encrypted repository the
object queued for EVERY chunk is the output of `props.encrypt`, whatever else the producer knows about the chunk.

`chunkQueuedIsCiphertext` is `true` only when every value that can flow into `_SnapshotChunk(contents=…)` is selected by a test
that is exactly `self.props.encrypted` (if-statement or conditional expression, either polarity, the flag may be held in a local):
`encrypt(<chunk>, …)` when it holds, the plain chunk otherwise.  Any extra condition on the encryption branch, a second assignment,
an unrecognised shape ⇒ `false` + a note; `ReplicatModel/SymBackend.lean` then queues the plain chunk and the lemmas behind
`adversarial_backend_public` (Properties/C05.lean) stop compiling.
`chunkUploadIsQueuedContents`: the worker uploads a stream over `chunk.contents` at `chunk.location`, and only in the branch taken
when `exists` is falsy.
"""
import ast


def _b(x):
    return 'true' if x else 'false'


def _is_enc_flag(node, aliases):
    """node is `self.props.encrypted` (or a local that was assigned exactly that, once)"""
    if ast.unparse(node) == 'self.props.encrypted':
        return True
    return isinstance(node, ast.Name) and node.id in aliases


def _polarity(test, aliases):
    """True: test ≡ encrypted; False: test ≡ not encrypted; None: anything else"""
    if _is_enc_flag(test, aliases):
        return True
    if isinstance(test, ast.UnaryOp) and isinstance(test.op, ast.Not) and _is_enc_flag(test.operand, aliases):
        return False
    return None


def _is_encrypt_of(node, plain):
    """`<x>.encrypt(<plain>, <key>)`"""
    return (isinstance(node, ast.Call) and isinstance(node.func, ast.Attribute) and node.func.attr == 'encrypt'
            and len(node.args) == 2 and not node.keywords and ast.unparse(node.args[0]) == plain)


def _assigns(node, var):
    """every node below `node` that binds the local `var`"""
    out = []
    for n in ast.walk(node):
        if isinstance(n, (ast.Assign, ast.AugAssign, ast.AnnAssign, ast.NamedExpr)):
            tg = n.targets if isinstance(n, ast.Assign) else [n.target]
            if any(isinstance(t, ast.Name) and t.id == var for t in tg):
                out.append(n)
    return out


def _branch_value(stmts, var):
    """the single top-level `var = value` of a branch (nothing else in the branch binds var) → value | None"""
    direct = [st for st in stmts if isinstance(st, ast.Assign) and len(st.targets) == 1 and isinstance(st.targets[0], ast.Name) and st.targets[0].id == var]
    every = [n for st in stmts for n in _assigns(st, var)]
    return direct[0].value if len(direct) == 1 and len(every) == 1 else None


def section(ctx):
    src = (ctx.REPO / 'replicat' / 'repository.py').read_text()
    tree = ast.parse(src)
    notes = ctx.notes
    cp = ctx.find_func(tree, 'Repository', 'snapshot', '_chunk_producer')
    queued_ok = False
    why = '_chunk_producer not found'
    if cp is not None:
        why = None
        loop_var = None
        for n in ast.walk(cp):
            if isinstance(n, ast.For) and isinstance(n.target, ast.Name):
                loop_var = n.target.id
                break
        aliases = set()
        counts = {}
        for n in ast.walk(cp):
            if isinstance(n, ast.Assign) and len(n.targets) == 1 and isinstance(n.targets[0], ast.Name):
                counts[n.targets[0].id] = counts.get(n.targets[0].id, 0) + 1
        for n in ast.walk(cp):
            if isinstance(n, ast.Assign) and len(n.targets) == 1 and isinstance(n.targets[0], ast.Name) \
                    and ast.unparse(n.value) == 'self.props.encrypted' and counts[n.targets[0].id] == 1:
                aliases.add(n.targets[0].id)
        made = [c for c in ast.walk(cp) if isinstance(c, ast.Call) and ast.unparse(c.func).endswith('_SnapshotChunk')]
        contents = [k.value for c in made for k in c.keywords if k.arg == 'contents']
        if loop_var is None or len(made) != 1 or len(contents) != 1:
            why = 'no single `_SnapshotChunk(contents=…)` inside a `for <chunk> in …` loop'
        else:
            val = contents[0]

            def selected(node_true, node_false):
                return _is_encrypt_of(node_true, loop_var) and ast.unparse(node_false) == loop_var

            if isinstance(val, ast.IfExp):
                pol = _polarity(val.test, aliases)
                queued_ok = pol is not None and (selected(val.body, val.orelse) if pol else selected(val.orelse, val.body))
                if not queued_ok:
                    why = 'conditional expression for `contents` is not `encrypt(chunk, …) if self.props.encrypted else chunk`'
            elif isinstance(val, ast.Name):
                var = val.id
                assigning = _assigns(cp, var)
                ifs = [n for n in ast.walk(cp) if isinstance(n, ast.If) and any(a in list(ast.walk(n)) for a in assigning)]
                # the innermost-enclosing-if structure must be ONE if/else whose two branches assign var once each …
                top = [n for n in ifs if not any(n is not m and n in list(ast.walk(m)) for m in ifs)]
                if len(assigning) == 1 and isinstance(assigning[0], ast.Assign) and isinstance(assigning[0].value, ast.IfExp) and not ifs:
                    v = assigning[0].value
                    pol = _polarity(v.test, aliases)
                    queued_ok = pol is not None and (selected(v.body, v.orelse) if pol else selected(v.orelse, v.body))
                    if not queued_ok:
                        why = f'`{var}` is not `encrypt(chunk, …) if self.props.encrypted else chunk`'
                elif len(top) == 1 and len(ifs) == 1 and len(assigning) == 2:
                    node = top[0]
                    pol = _polarity(node.test, aliases)
                    a, b = _branch_value(node.body, var), _branch_value(node.orelse, var)
                    if pol is None:
                        why = f'the test selecting what is queued is `{ast.unparse(node.test)}`, not exactly `self.props.encrypted`'
                    elif a is None or b is None:
                        why = f'`{var}` is not assigned exactly once in each branch'
                    else:
                        queued_ok = selected(a, b) if pol else selected(b, a)
                        if not queued_ok:
                            why = f'branches assign `{ast.unparse(a)}` / `{ast.unparse(b)}`, expected encrypt(chunk, …) / chunk'
                else:
                    why = f'`{var}` (queued contents) is assigned {len(assigning)} time(s) under {len(ifs)} if-statement(s): shape not recognised'
            else:
                why = f'`contents={ast.unparse(val)}`: shape not recognised'
    if not queued_ok:
        notes['snapshot.queue'] = why or 'queued chunk contents not recognised as ciphertext-whenever-encrypted'
    ctx.emit(f'def chunkQueuedIsCiphertext : Bool := {_b(queued_ok)}')

    # ---------------------------------------------------------------- the worker: upload of the queued contents iff `exists` is falsy
    wk = ctx.find_func(tree, 'Repository', 'snapshot', '_worker')
    ctx.fp('repository.Repository.snapshot._worker', wk)
    up_ok = False
    if wk is not None:
        ex_vars = set()
        for n in ast.walk(wk):
            if isinstance(n, ast.Assign) and len(n.targets) == 1 and isinstance(n.targets[0], ast.Name):
                v = n.value.value if isinstance(n.value, ast.Await) else n.value
                if isinstance(v, ast.Call) and ast.unparse(v.func).endswith('._exists') and [ast.unparse(a) for a in v.args] == ['chunk.location']:
                    ex_vars.add(n.targets[0].id)
        for n in ast.walk(wk):
            if not isinstance(n, ast.If):
                continue
            pos = isinstance(n.test, ast.Name) and n.test.id in ex_vars
            neg = isinstance(n.test, ast.UnaryOp) and isinstance(n.test.op, ast.Not) and isinstance(n.test.operand, ast.Name) and n.test.operand.id in ex_vars
            if not (pos or neg):
                continue
            absent, present = (n.orelse, n.body) if pos else (n.body, n.orelse)
            ups_absent = [c for st in absent for c in ast.walk(st) if isinstance(c, ast.Call) and 'upload_stream' in ast.unparse(c)]
            ups_present = [c for st in present for c in ast.walk(st) if isinstance(c, ast.Call) and 'upload' in ast.unparse(c.func)]
            streams = [a for st in absent for a in ast.walk(st) if isinstance(a, ast.Call) and ast.unparse(a.func).endswith('BytesIO')]
            up_ok = (len(ups_absent) == 1 and not ups_present and 'chunk.location' in [ast.unparse(a) for a in ups_absent[0].args]
                     and len(streams) == 1 and [ast.unparse(a) for a in streams[0].args] == ['chunk.contents'])
    if not up_ok:
        notes['snapshot.worker_upload'] = 'worker: `if exists: … else: upload_stream(chunk.location, BytesIO(chunk.contents), …)` not recognised'
    ctx.emit(f'def chunkUploadIsQueuedContents : Bool := {_b(up_ok)}')
