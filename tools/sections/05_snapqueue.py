"""C05 (adversarial backend during a snapshot): WHAT the chunk producer puts in the upload queue and WHAT a worker hands to the
backend when `exists` answers False — read from the paths of the functions under `Repository.snapshot` (tools/symflow.py,
tools/replicat_facts.py::snapshot_queue).

The backend decides, per chunk, whether the queued object is uploaded (`exists` may answer anything: eventual consistency, another
client's clean / delete between two calls).  Secrecy for EVERY such schedule therefore needs: in an encrypted repository the
object queued for EVERY chunk is the output of `props.encrypt`, whatever else the producer knows about the chunk.

The producer is the function that puts a record on a queue for each chunk of `props.chunkify(…)`, the worker the function that calls
`backend.upload_stream`; which field of the record is the payload and which the location is read off the worker's upload call, so
neither the names of the two functions nor those of the record and its fields matter.
`chunkQueuedIsCiphertext` is `true` only when on EVERY path to the `put` the repository's `encrypted` flag has been decided and the
payload is `encrypt(<chunk>, …)` when it holds and the plain chunk otherwise (if-statement, conditional expression, early `continue`,
either polarity, the flag held in a local, the encryption moved into a helper: all the same paths).  Any extra condition under which
an encrypted repository queues the plain chunk is a path that violates this ⇒ `false` + a note; `ReplicatModel/SymBackend.lean` then
queues the plain chunk and the lemmas behind `adversarial_backend_public` (Properties/C05.lean) stop compiling.
`chunkUploadIsQueuedContents`: every `upload_stream` of the worker sends a stream over the payload field of a record taken from the
queue to the location field of that record, and only on paths where `exists(<that location>)` answered false; no other upload.
"""
import sys
from pathlib import Path

sys.path.insert(0, str(Path(__file__).resolve().parent.parent))
import replicat_facts as rf  # noqa: E402
import symflow_fmt as symflow  # noqa: E402


def _b(x):
    return 'true' if x else 'false'


def section(ctx):
    an = symflow.analyzer_for(ctx.REPO)
    tree = an.mods['repository'].tree
    ctx.fp('repository.Repository.snapshot._worker', ctx.find_func(tree, 'Repository', 'snapshot', '_worker'))
    try:
        q = rf.snapshot_queue(an)
    except Exception as e:  # noqa: BLE001
        q = dict(queued_is_ciphertext=False, upload_is_queued=False, why=f'analysis failed: {e!r}')
    if not q.get('queued_is_ciphertext'):
        ctx.notes['snapshot.queue'] = q.get('why') or 'queued chunk contents not recognised as ciphertext-whenever-encrypted'
    ctx.emit(f'def chunkQueuedIsCiphertext : Bool := {_b(q.get("queued_is_ciphertext"))}')
    if not q.get('upload_is_queued'):
        ctx.notes['snapshot.worker_upload'] = q.get('why') or 'worker: upload of the queued payload at the queued location iff `exists` is falsy not recognised'
    ctx.emit(f'def chunkUploadIsQueuedContents : Bool := {_b(q.get("upload_is_queued"))}')
