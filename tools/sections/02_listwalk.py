"""C02: does a listing that cannot be completed reach the destructive command as an ERROR, or as a shorter listing?

`delete_snapshots` / `clean` compute what they keep from `backend.list_files`.  For every layer between `os.scandir` and the
command the section decides, from the AST, whether an `OSError` passes through it (facts consumed by `ReplicatModel/RepoListing.lean`,
`ListFlags.gen`, and by the theorems `local_listing_fault_safe*` of `Properties/C02.lean`):

utils/fs.py `iterative_scandir` (the walk `Local.list_files` uses below the top directory) and `Local.list_files` itself
  * `localWalkOpenPropagates`        — no `os.scandir(…)` call of the walk sits in a `try` / `with suppress(…)` that swallows `OSError`
                                       (a handler that can catch an `OSError` and does not re-raise), and no `os.walk` without `onerror`;
  * `localWalkIterPropagates`        — no loop over a scandir iterator, entry type test (`is_dir` / `is_file` / `stat`), `yield`, or call of the
                                       walk from `list_files` sits in such a `try`;
  * `localListTopSwallowsAnyOSError` — the handler around the TOP-level `os.scandir(absolute_dirname)` of `list_files` (meant for a repository
                                       without that directory) catches more than `FileNotFoundError` / `NotADirectoryError` and returns.
repository.py `_aiter`, `_load_snapshots`, `delete_snapshots`, `clean` (+ utils `async_gen_wrapper`)
  * `repoListingErrorsPropagate`     — no loop over `self._aiter(self.backend.list_files, …)` / `self._load_snapshots()` sits in a swallowing `try`.

A structure that is not recognised (the walk is not found, `list_files` does not call it) yields `false` + a note — never a silent `true`.
"""
import ast

# exception classes whose handler can catch an OSError raised by a directory scan
_CATCHES_OSERROR = {'BaseException', 'Exception', 'OSError', 'IOError', 'EnvironmentError', 'PermissionError', 'FileNotFoundError',
                    'NotADirectoryError', 'InterruptedError', 'TimeoutError', 'BlockingIOError', 'ConnectionError', 'IsADirectoryError'}
_MISSING_ONLY = {'FileNotFoundError', 'NotADirectoryError'}


def _names(t, un):
    if t is None:
        return {'BaseException'}
    if isinstance(t, ast.Tuple):
        return {un(e).split('.')[-1] for e in t.elts}
    return {un(t).split('.')[-1]}


def _reraises(body):
    """the handler ends by raising (bare `raise` or `raise X`) on every path we can see: its last statement is a Raise"""
    return bool(body) and isinstance(body[-1], ast.Raise)


def _swallowing_regions(fn, un):
    """→ [(caught class names, [statements guarded])] for every try-handler / `with suppress(...)` of `fn` that can swallow an OSError"""
    out = []
    for n in ast.walk(fn):
        if isinstance(n, ast.Try):
            for h in n.handlers:
                caught = _names(h.type, un)
                if caught & _CATCHES_OSERROR and not _reraises(h.body):
                    out.append((caught, n.body))
        elif isinstance(n, (ast.With, ast.AsyncWith)):
            for it in n.items:
                ce = it.context_expr
                if isinstance(ce, ast.Call) and un(ce.func).split('.')[-1] == 'suppress':
                    caught = set().union(*[_names(a, un) for a in ce.args]) if ce.args else set()
                    if caught & _CATCHES_OSERROR:
                        out.append((caught, n.body))
    return out


def _calls(stmts, un):
    return [un(c.func) for s in stmts for c in ast.walk(s) if isinstance(c, ast.Call)]


def _has_iteration(stmts):
    for s in stmts:
        for n in ast.walk(s):
            if isinstance(n, (ast.For, ast.AsyncFor, ast.While, ast.Yield, ast.YieldFrom, ast.ListComp, ast.SetComp, ast.GeneratorExp, ast.DictComp)):
                return True
    return False


_SCAN = ('os.scandir', 'scandir', 'os.listdir', 'listdir')
_TYPE_TESTS = ('is_dir', 'is_file', 'stat', 'is_symlink')


def section(ctx):
    un = ctx.unparse
    notes = ctx.notes
    fs_tree = ast.parse((ctx.REPO / 'replicat' / 'utils' / 'fs.py').read_text())
    l_tree = ast.parse((ctx.REPO / 'replicat' / 'backends' / 'local.py').read_text())
    walk = ctx.find_func(fs_tree, 'iterative_scandir')
    lf = ctx.find_func(l_tree, 'Local', 'list_files')
    ctx.fp('fs.iterative_scandir', walk)
    open_ok = iter_ok = False
    top_any = True
    if walk is None or lf is None:
        notes['listwalk'] = 'iterative_scandir / Local.list_files not found'
    else:
        lf_calls = _calls(lf.body, un)
        if not any(c.split('.')[-1] == 'iterative_scandir' for c in lf_calls):
            notes['listwalk'] = 'Local.list_files does not call iterative_scandir: the walk below the top directory is not recognised'
        else:
            open_ok = iter_ok = True
            # ---- the walk
            for caught, body in _swallowing_regions(walk, un):
                cs = _calls(body, un)
                if any(c in _SCAN for c in cs):
                    open_ok = False
                if _has_iteration(body) or any(c.split('.')[-1] in _TYPE_TESTS for c in cs):
                    iter_ok = False
            for fn in (walk, lf):
                for c in ast.walk(fn):
                    if isinstance(c, ast.Call) and un(c.func) in ('os.walk', 'os.fwalk') and not any(k.arg == 'onerror' for k in c.keywords):
                        open_ok = iter_ok = False          # os.walk ignores scandir errors unless `onerror` is given
                    if isinstance(c, ast.Call) and un(c.func).split('.')[-1] in ('rglob', 'glob', 'iglob'):
                        open_ok = iter_ok = False          # pathlib / glob skip directories they cannot read
                        notes['listwalk'] = 'glob-style walk: unreadable directories are skipped by the library'
            # ---- list_files: the only swallowing handler allowed is the one around the TOP-level scandir, and it must guard nothing else
            top_any = False
            for caught, body in _swallowing_regions(lf, un):
                cs = _calls(body, un)
                guards_top_only = (len(body) == 1 and any(c in _SCAN for c in cs) and not _has_iteration(body)
                                   and not any(c.split('.')[-1] == 'iterative_scandir' for c in cs))
                if guards_top_only:
                    if not caught <= _MISSING_ONLY:
                        top_any = True
                    continue
                if any(c in _SCAN for c in cs) or any(c.split('.')[-1] == 'iterative_scandir' for c in cs):
                    open_ok = False
                if _has_iteration(body) or any(c.split('.')[-1] in _TYPE_TESTS for c in cs) or any(c.split('.')[-1] == 'iterative_scandir' for c in cs):
                    iter_ok = False
    ctx.emit(f'def localWalkOpenPropagates : Bool := {"true" if open_ok else "false"}')
    ctx.emit(f'def localWalkIterPropagates : Bool := {"true" if iter_ok else "false"}')
    ctx.emit(f'def localListTopSwallowsAnyOSError : Bool := {"true" if top_any else "false"}')
    # ---- repository.py
    r_tree = ast.parse((ctx.REPO / 'replicat' / 'repository.py').read_text())
    u_tree = ast.parse((ctx.REPO / 'replicat' / 'utils' / '__init__.py').read_text())
    fns = [ctx.find_func(r_tree, 'Repository', nm) for nm in ('_aiter', '_load_snapshots', 'delete_snapshots', 'clean')]
    fns.append(ctx.find_func(u_tree, 'async_gen_wrapper'))
    repo_ok = all(f is not None for f in fns)
    if not repo_ok:
        notes['listwalk.repo'] = '_aiter / _load_snapshots / delete_snapshots / clean / async_gen_wrapper not found'
    else:
        lists = 0
        for f in fns:
            for n in ast.walk(f):
                if isinstance(n, ast.Call) and un(n.func) == 'self._aiter' and n.args and un(n.args[0]) == 'self.backend.list_files':
                    lists += 1
            for caught, body in _swallowing_regions(f, un):
                txt = ' '.join(un(s) for s in body)
                if 'list_files' in txt or '_load_snapshots' in txt or '_aiter' in txt or (f.name in ('_aiter', 'async_gen_wrapper') and _has_iteration(body)):
                    repo_ok = False
        if lists < 2:
            repo_ok = False
            notes['listwalk.repo'] = 'the listings of _load_snapshots / clean through self._aiter(self.backend.list_files, …) are not recognised'
    ctx.emit(f'def repoListingErrorsPropagate : Bool := {"true" if repo_ok else "false"}')
