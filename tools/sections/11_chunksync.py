"""C11: the two places outside next_cut on which the locality / key theorems rely, read from the AST.

* `gclmulchunker.__call__`: finality passed to `next_cut` is "the look-ahead piece is None" (`feed` in Chunker.lean decides
  finality exactly like that), and the consumed prefix is removed from the buffer (`del buffer[:pos]` or an equivalent slice
  assignment);
* `RepositoryProps.chunkify`: the per-repository `chunker_params` reach the adapter whenever the repository is encrypted.
Anything else than the recognised shapes yields `false`; the bridge lemmas in Lemmas/ChunkerLocal.lean then stop compiling.

* block sizes (`harness/impl/c11_blocks.py`, loaded by path so that extractor and generators read the same thing):
  `sizeConstants` = every integer constant (>= 2) of adapters.py / repository.py / src/adapters.cpp — the values the harness
  derives its input-block sizes from; `adapterBlockThresholds` = those constants that `gclmulchunker.__call__` (or a method it
  hands blocks to) compares with / slices by / steps over a value derived from its input blocks.  The model's `feed` appends
  every block whole, which is the code's behaviour iff that list is empty (`C11.adapter_takes_blocks_whole`).
"""
import ast
import importlib.util
from pathlib import Path


def _blocks_helper():
    f = Path(__file__).resolve().parent.parent.parent / 'harness' / 'impl' / 'c11_blocks.py'
    spec = importlib.util.spec_from_file_location('c11_blocks_for_extractor', f)
    mod = importlib.util.module_from_spec(spec)
    spec.loader.exec_module(mod)
    return mod


def section(ctx):
    asrc = (ctx.REPO / 'replicat' / 'utils' / 'adapters.py').read_text()
    call = ctx.find_func(ast.parse(asrc), 'gclmulchunker', '__call__')
    final_ok = False
    final_expr = ''
    if call is not None:
        for node in ast.walk(call):
            if isinstance(node, ast.Call) and ctx.unparse(node.func).endswith('.next_cut') and len(node.args) == 2:
                final_expr = ctx.unparse(node.args[1])
                inner = node.args[1]
                if isinstance(inner, ast.Call) and ctx.unparse(inner.func) == 'bool' and len(inner.args) == 1:
                    inner = inner.args[0]
                final_ok = ctx.unparse(inner) in ('next_chunk is None', '(next_chunk is None)')
    ctx.emit(f'def adapterFinalIsLookaheadNone : Bool := {"true" if final_ok else "false"}')
    if not final_ok:
        ctx.notes['adapter.final'] = f'finality expression not recognised: {final_expr!r}'
    rsrc = (ctx.REPO / 'replicat' / 'repository.py').read_text()
    ck = ctx.find_func(ast.parse(rsrc), 'RepositoryProps', 'chunkify')
    ctx.fp('repository.RepositoryProps.chunkify', ck)
    key_ok = False
    if ck is not None:
        assigns = {ctx.unparse(n.targets[0]): ctx.unparse(n.value) for n in ast.walk(ck) if isinstance(n, ast.Assign) and len(n.targets) == 1}
        rets = [ctx.unparse(n.value) for n in ast.walk(ck) if isinstance(n, ast.Return) and n.value is not None]
        key_ok = (assigns.get('params') == "self.private['chunker_params'] if self.encrypted else None"
                  and rets == ['self.chunker(it, params=params)'])
        if not key_ok:
            ctx.notes['chunkify'] = f'shape not recognised: {assigns} / {rets}'
    ctx.emit(f'def chunkifyPassesKey : Bool := {"true" if key_ok else "false"}')
    # --- block sizes
    blocks = _blocks_helper()
    consts = blocks.size_constants(ctx.REPO)
    ctx.emit('def sizeConstants : List Nat := [' + ', '.join(str(c['value']) for c in consts) + ']')
    thr, tnotes = blocks.block_thresholds(ctx.REPO / 'replicat' / 'utils' / 'adapters.py')
    if thr is None:
        ctx.emit('opaque adapterBlockThresholds : List Nat')
        ctx.notes['adapter.block_thresholds'] = f'not analysed: {tnotes}'
    else:
        ctx.emit('def adapterBlockThresholds : List Nat := [' + ', '.join(map(str, thr)) + ']')
        if thr:
            ctx.notes['adapter.block_thresholds'] = f'{thr}: the adapter loop treats input blocks by size: {tnotes}'
