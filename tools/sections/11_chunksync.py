"""C11: the two places outside next_cut on which the locality / key theorems rely, read from the AST.

* `gclmulchunker.__call__` (`adapterFinalIsLookaheadNone`): at EVERY call of `<chunker>.next_cut(buffer, final)` that the
  abstract interpreter of `10_handover.py` (class `Engine`, loaded by path: same values, same inlining of helper methods / nested
  functions / helper generators, same treatment of loops and conditions) reaches, on every path,
    - `final` has the value "the most recently requested piece is the end marker of the piece iterator" — symbolically
      (`x is None` / `x == None` / `x is SENTINEL` for `x = next(it, None | SENTINEL)`, through `bool()`, `not … is not`,
      conditional expressions, locals, parameters of helpers) or as a constant on a path on which exactly that is known
      (`except StopIteration: final = True`, the body / the end of `for … in it`), and
    - the piece requested before that one was appended WHOLE to a reassembly buffer (an empty piece counts as appended).
  `feed` in Chunker.lean decides finality exactly like that.  `not x`, the finality of an older piece, a constant, a
  block-level flag used while a block is appended in parts … give `false`; anything the interpreter cannot follow gives `false`.
* `RepositoryProps.chunkify` (`chunkifyPassesKey`): on every path through the method (properties such as `encrypted` are
  inlined, so `self.cipher is None` and `not self.encrypted` are the same fact) the result is `self.chunker(<the pieces>, …)`
  with `params` = `self.private['chunker_params']` where the repository is encrypted and None / absent where it is not.
Anything else yields `false`; the bridge lemmas in Lemmas/ChunkerLocal.lean then stop compiling.

* block sizes (`harness/impl/c11_blocks.py`, loaded by path so that extractor and generators read the same thing):
  `sizeConstants` = every integer constant (>= 2) of adapters.py / repository.py / src/adapters.cpp — the values the harness
  derives its input-block sizes from; `adapterBlockThresholds` = those constants that `gclmulchunker.__call__` (or a method it
  hands blocks to) compares with / slices by / steps over a value derived from its input blocks.  The model's `feed` appends
  every block whole, which is the code's behaviour iff that list is empty (`C11.adapter_takes_blocks_whole`).
"""
import ast
import importlib.util
from pathlib import Path


def _blocks_helper():
    f = Path(__file__).resolve().parent.parent.parent / 'harness' / 'impl' / 'c11_blocks.py'
    spec = importlib.util.spec_from_file_location('c11_blocks_for_extractor', f)
    mod = importlib.util.module_from_spec(spec)
    spec.loader.exec_module(mod)
    return mod


def _engine_module():
    f = Path(__file__).resolve().parent / '10_handover.py'
    spec = importlib.util.spec_from_file_location('handover_engine_for_chunksync', f)
    mod = importlib.util.module_from_spec(spec)
    spec.loader.exec_module(mod)
    return mod


def final_is_lookahead_none(ctx, H):
    """(verdict, why)"""
    eng, err, _ = H.analyse_adapter(ctx)
    if eng is None:
        return False, err
    if err is not None:
        return False, f'not recognised: {err}'
    bad = list(dict.fromkeys(w for ok, w in eng.cuts if not ok))
    if bad:
        return False, '; '.join(bad[:3])
    if not eng.cuts:
        return False, 'no call of next_cut is reached'
    if eng.pulls == 0:
        return False, 'the piece iterator is never advanced'
    return True, ''


PIECES = ('sym', '<pieces>')
KEY = ('sym', "self.private['chunker_params']")


def chunkify_passes_key(ctx, H, module, cls, fn):
    """(verdict, why)"""
    names = [p.arg for p in fn.args.posonlyargs + fn.args.args]
    if len(names) < 2:
        return False, 'chunkify(self, <pieces>) expected'
    eng = H.Engine(ctx, module, fp_prefix='repository')
    try:
        outs = eng.run_function(fn, cls, {names[0]: H.SELF, names[1]: PIECES})
        results = [(s, v) for kind, s, v in outs if kind == 'return']
        fell = [s for kind, s, v in outs if kind == 'next']
        gen = H.is_generator(fn)
        if gen:
            if any(v != H.const(None) for _, v in results):
                return False, 'a generator that also returns a value'
            results = list(eng.delegated)
            for s in [s for _, s, _ in outs]:
                if not any(d.atoms == s.atoms or set(d.atoms) <= set(s.atoms) for d, _ in eng.delegated):
                    return False, 'a path through chunkify delegates to no chunker call'
        elif fell:
            return False, 'a path through chunkify returns nothing'
        if not results:
            return False, 'no result'
        probe = ast.parse('self_.encrypted', mode='eval').body
        probe.value = ast.Name(id=names[0], ctx=ast.Load())
        ast.fix_missing_locations(probe)
        fr = eng.frames[()]
        for s, v in results:
            if v[0] != 'callres' or v[1] not in ('self.chunker', 'self.chunker.__call__'):
                return False, f'a path returns something else than self.chunker(…): {v[0]}'
            args, kwargs = list(v[2]), dict(v[3])
            pieces = args[0] if args else kwargs.get('chunk_iterator')
            if pieces != PIECES:
                return False, 'the pieces handed to chunkify are not what is handed to the chunker'
            params = args[1] if len(args) > 1 else kwargs.get('params', H.const(None))
            enc = [v2 for _, v2 in eng.ev(probe, s, fr, True)]
            if len(enc) != 1 or enc[0][0] != 'const':
                # `encrypted` = "there is a cipher" (the property may have been renamed / inlined)
                plain = s.atom(('isnone', 'self.cipher'))
                if plain is None:
                    return False, '`params` does not depend on whether the repository is encrypted'
                enc = [H.const(not plain)]
            if enc[0][1]:
                # (an EMPTY key replaced by None is the same thing to every chunker adapter: `if not params`)
                if params != KEY and not (params == H.const(None) and s.atom(('truthy', KEY[1])) is False):
                    return False, "encrypted repository: `params` is not self.private['chunker_params']"
            elif params != H.const(None):
                return False, 'unencrypted repository: `params` is not None'
        return True, ''
    except H.Unrecognised as e:
        return False, f'not recognised: {e}'
    except RecursionError:
        return False, 'analysis recursion limit'


def section(ctx):
    H = _engine_module()
    final_ok, why = final_is_lookahead_none(ctx, H)
    ctx.emit(f'def adapterFinalIsLookaheadNone : Bool := {"true" if final_ok else "false"}')
    if not final_ok:
        ctx.notes['adapter.final'] = f'finality of next_cut not recognised as "the look-ahead piece is the end marker": {why}'
    rsrc = (ctx.REPO / 'replicat' / 'repository.py').read_text()
    rmod = ast.parse(rsrc)
    rcls = next((n for n in ast.walk(rmod) if isinstance(n, ast.ClassDef) and n.name == 'RepositoryProps'), None)
    ck = next((n for n in rcls.body if isinstance(n, ast.FunctionDef) and n.name == 'chunkify'), None) if rcls is not None else None
    ctx.fp('repository.RepositoryProps.chunkify', ck)
    key_ok = False
    if ck is not None:
        key_ok, why = chunkify_passes_key(ctx, H, rmod, rcls, ck)
        if not key_ok:
            ctx.notes['chunkify'] = f'shape not recognised: {why}'
    else:
        ctx.notes['chunkify'] = 'RepositoryProps.chunkify not found'
    ctx.emit(f'def chunkifyPassesKey : Bool := {"true" if key_ok else "false"}')
    # --- block sizes
    blocks = _blocks_helper()
    consts = blocks.size_constants(ctx.REPO)
    ctx.emit('def sizeConstants : List Nat := [' + ', '.join(str(c['value']) for c in consts) + ']')
    thr, tnotes = blocks.block_thresholds(ctx.REPO / 'replicat' / 'utils' / 'adapters.py')
    if thr is None:
        ctx.emit('opaque adapterBlockThresholds : List Nat')
        ctx.notes['adapter.block_thresholds'] = f'not analysed: {tnotes}'
    else:
        ctx.emit('def adapterBlockThresholds : List Nat := [' + ', '.join(map(str, thr)) + ']')
        if thr:
            ctx.notes['adapter.block_thresholds'] = f'{thr}: the adapter loop treats input blocks by size: {tnotes}'
