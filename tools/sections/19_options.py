"""C19 — regenerates the OPTION TABLE and the ORDER of the option pipeline of `replicat.__main__.main`.

Two sources, both read from the CURRENT working tree of replicat:

* runtime introspection (harness/impl/c19_introspect.py, run in a throw-away /venv/bin/python process): every argparse
  action of `cli.initial_parser`, `cli.common_options_parser`, `cli.parser_for_backend(<backend>)` for local/s3/s3c/b2 and
  the custom backend `vfy` (found through the namespace package), and of every sub-command built by `cli.make_main_parser`:
  dest, option strings, action class, `type` function, kind of default, mutual-exclusion groups; `Config` fields; whether
  `set_defaults(**defaults)` reaches each sub-parser;
* a symbolic execution of the source (tools/optflow.py; helper functions followed, objects identified by what CREATES them, not
  by their names):
  - `main()`: the steps `read_config` / `<Config>.apply_known` / `apply_env` / the `-r` override (a store to the config that
    happens exactly when the CLI value is not None) / `load_backend(*cfg.repository)` / the backend config's `apply_known` /
    `apply_env` / the layers of the `defaults=` mapping handed to `make_main_parser` in OVERRIDING order (`d = a.dict();
    d.update(b.dict())`, `{**a.dict(), **b.dict()}`, `dict(a.dict(), **b.dict())`, `a.dict() | b.dict()` are one thing) / the
    second parse / the handler coroutine.  The emitted order is the CANONICAL linearisation of the dependency order (two steps
    commute unless one writes what the other reads or writes, `STEP_RW`), so reordering independent statements changes
    nothing; an unmodelled store / method call on the config objects empties the list;
  - `Config.apply_known` / `apply_env`, `BaseBackendConfig.*`: which key ends up in which field through which validator — the
    store `self.<field> = V(<copy of the mapping>.pop(key))` that happens exactly when the key is present (KeyError ⇒ nothing),
    however popset / getset / _validate_set are spelled or inlined; the `no-cache` shape; the `_check_mutually_exclusive`
    calls.  Validators / type functions are known by their fully-qualified name, private ones also by BEHAVIOUR
    (`classify_by_behaviour`), so renaming `_natural_number` or `_check_boolean` is harmless.

Anything not recognised becomes `OptTy.other` / `OptCliKind.other` / a missing step, so that the well-formedness
lemmas (`decide` over the table) stop compiling — never assumed silently.
"""
import ast
import json
import os
import subprocess
import sys
from pathlib import Path

sys.path.insert(0, str(Path(__file__).resolve().parent.parent))
import optflow as F  # noqa: E402 — tools/optflow.py: symbolic execution of the source under test

VERIF = Path(__file__).resolve().parent.parent.parent
INTROSPECT = VERIF / 'harness' / 'impl' / 'c19_introspect.py'
CUSTOM = VERIF / 'harness' / 'impl' / 'c19_backend'
PYMOD = VERIF / 'native' / 'pymod'

PRELUDE = '''
/-- the function that turns a raw value (CLI word, environment string, TOML value) into the option's value -/
inductive OptTy
  | none | parseRepository | path | naturalNumberCli | naturalNumberCfg | readBytesCli | readBytesCfg
  | fsencode | strEncode | checkBoolean | guessType | convertLogLevel | rateLimit | parseList | environb | other
  deriving DecidableEq, Repr, Inhabited

/-- typed: one word through `ty`; constNone / constTrue: a flag without value (`store_const None`, `store_true`);
multi: count / append / nargs (the raw is the whole list of occurrences; opaque to the model) -/
inductive OptCliKind | typed | constNone | constTrue | multi | other
  deriving DecidableEq, Repr, Inhabited

structure OptCliVar where
  flag : String
  flags : List String
  kind : OptCliKind
  ty : OptTy
  group : Option Nat
  dflt : Nat
  deriving DecidableEq, Repr, Inhabited

/-- plain: `popset(remaining, key, validator, field=…)`; nullIfTrue: the `no-cache` shape
`if _check_boolean(remaining.pop(key, False)): self.<field> = None` -/
inductive OptFileKind | plain | nullIfTrue | other
  deriving DecidableEq, Repr, Inhabited

structure OptFileVar where
  key : String
  kind : OptFileKind
  ty : OptTy
  deriving DecidableEq, Repr, Inhabited

/-- one option = one `dest`.  scope: 0 initial parser, 1 common options parser, 2 backend-specific (owner = backend
module), 3 command-specific (owner = sub-command).  dflt / builtinKind: 0 None, 1 SUPPRESS, 2 str, 3 other non-str,
4 missing (required backend option). -/
structure OptRow where
  dest : String
  scope : Nat
  owner : String
  cli : List OptCliVar
  env : Option (String × OptTy)
  file : List OptFileVar
  inCfg : Bool
  early : Bool
  builtinKind : Nat
  deriving DecidableEq, Repr, Inhabited

structure OptCommand where
  name : String
  aliases : List String
  setDefaults : Bool
  parents : Bool
  parentGroupsKept : Bool
  deriving DecidableEq, Repr, Inhabited

/-- the calls of `main()` that move option values, in source order -/
inductive OptStep
  | initialParse | readConfig | applyKnown | applyEnv | repoOverride | loadBackend
  | backendApplyKnown | backendApplyEnv | defaultsCfg | defaultsBackend | makeMainParser | secondParse | handler
  deriving DecidableEq, Repr, Inhabited
'''

TY_CLI = {
    None: 'none',
    'replicat.utils.parse_repository': 'parseRepository',
    'pathlib.Path': 'path',
    'replicat.utils.cli._natural_number': 'naturalNumberCli',
    'replicat.utils.cli._read_bytes': 'readBytesCli',
    'os._fscodec.<locals>.fsencode': 'fsencode',
    'replicat.utils.guess_type': 'guessType',
    'replicat.utils.cli._rate_limit': 'rateLimit',
    'replicat.utils.ColumnMixin.parse_list': 'parseList',
}
TY_CFG = {   # names as written inside replicat/utils/config.py
    'parse_repository': 'parseRepository', '_check_natural_number': 'naturalNumberCfg', '_check_boolean': 'checkBoolean',
    'Path': 'path', 'str.encode': 'strEncode', '_read_bytes': 'readBytesCfg', '_convert_log_level': 'convertLogLevel',
    'guess_type': 'guessType', None: 'none',
}
DK = {'none': 0, 'suppress': 1, 'str': 2, 'other': 3, 'missing': 4}


def lstr(s):
    return json.dumps(s, ensure_ascii=False)


def llist(xs):
    return '[' + ', '.join(xs) + ']'


def introspect(ctx):
    py = '/venv/bin/python' if os.path.exists('/venv/bin/python') else sys.executable
    env = dict(os.environ)
    env.setdefault('REPLICAT_VERIF_GCL_SO', str(VERIF / '.work' / 'native' / 'libgcl.so'))
    for k in list(env):
        if k.startswith(('REPLICAT_', 'S3_', 'S3C_', 'B2_', 'VFY_', 'VFA_')) and k != 'REPLICAT_REPO' and k != 'REPLICAT_VERIF_GCL_SO':
            del env[k]
    env.pop('C19_EXTRA_BACKENDS', None)
    p = subprocess.run([py, str(INTROSPECT), str(ctx.REPO), str(CUSTOM), str(PYMOD)], capture_output=True, text=True, env=env,
                       cwd=str(VERIF), timeout=120)
    if p.returncode != 0:
        raise RuntimeError('introspection failed: ' + p.stderr[-600:])
    return json.loads(p.stdout)


# ------------------------------------------------------------------ symbolic execution: config.py
# validators by the fully-qualified name the symbolic execution resolves them to (however they are imported / spelled)
TY_FQ = {
    'replicat.utils.parse_repository': 'parseRepository', 'replicat.utils.config._check_natural_number': 'naturalNumberCfg',
    'replicat.utils.config._check_boolean': 'checkBoolean', 'pathlib.Path': 'path', 'str.encode': 'strEncode',
    'replicat.utils.config._read_bytes': 'readBytesCfg', 'replicat.utils.config._convert_log_level': 'convertLogLevel',
    'replicat.utils.guess_type': 'guessType',
}
CFG_LANDMARKS = set(TY_FQ) | {'replicat.utils.config._check_mutually_exclusive', 'replicat.utils.config._get_environb',
                              'replicat.utils.config.backend_env_option'}


# ------------------------------------------------------------------ private validators recognised by BEHAVIOUR
# `_natural_number`, `_read_bytes`, `_check_boolean`, … are private names: a rename must not turn an option into `.other`.
# When a type / validator function of cli.py or config.py is not known by name it is executed symbolically and compared,
# case by case, with what the model's functions do.  A function that does anything else stays `.other`.
def _raises_value_error(ev):
    v = ev.value
    return F.callee_name(v.a[0] if v.op == 'call' else v) == 'ValueError'


def _is_call_of(t, name, arg_ok):
    return t.op == 'call' and t.a[0].op == 'g' and F.callee_name(t.a[0]) == name and len(t.a[1]) == 1 and not t.a[2] and arg_ok(t.a[1][0])


def _no_effects(ex):
    return not any(e.kind in ('setattr', 'setitem', 'delitem', 'delattr', 'unknown-stmt', 'yield') for e in ex.events) and not ex.loops


def natural_number_of(ex, ret, is_arg):
    """n = int(<arg>);  ValueError exactly when n < 1;  otherwise n"""
    raises = [e for e in ex.events if e.kind == 'raise']
    if len(raises) != 1 or not _raises_value_error(raises[0]) or not _no_effects(ex):
        return False
    if not _is_call_of(F.resolve(ret, F.Val()), 'int', is_arg):
        return False
    r = raises[0]
    lts = [a for a in F.atoms(r.pc) if a.op == 'lt' and _is_call_of(a.a[0], 'int', is_arg) and F.is_k(a.a[1], 1)]
    return len(lts) == 1 and len(F.atoms(r.pc)) == 1 and F.truth(r.pc, F.Val().set(lts[0], True)) is True \
        and F.truth(r.pc, F.Val().set(lts[0], False)) is False


def classify_by_behaviour(repo, fq):
    """fully-qualified name of a function of replicat/utils/{cli,config}.py → OptTy constructor name, or None"""
    mod, _, name = fq.rpartition('.')
    if mod not in ('replicat.utils.cli', 'replicat.utils.config') or '.' in name or '<' in name:
        return None
    fn = repo.func(mod, name)
    if fn is None or len(fn.node.args.args) != 1 or fn.node.args.kwonlyargs or fn.node.args.vararg or fn.node.args.kwarg:
        return None
    try:
        ex = F.Exec(repo, inline=lambda t, ex: t.nested or t.module.fq == mod)
        ret = ex.run(fn)
    except F.Budget:
        return None
    V = F.mk('p', fn.node.args.args[0].arg)
    raises = [e for e in ex.events if e.kind == 'raise']
    none = F.Val()
    r0 = F.resolve(ret, none)
    in_cli = mod.endswith('.cli')

    def is_v(t):
        return t is V

    # Path(v).read_bytes() / Path(v).expanduser().read_bytes()
    if not raises and _no_effects(ex) and r0.op == 'call' and not r0.a[1] and not r0.a[2]:
        sm = F.split_method(r0.a[0])
        if sm is not None and sm[1] == 'read_bytes':
            p = sm[0]
            if _is_call_of(p, 'pathlib.Path', is_v):
                return 'readBytesCli' if in_cli else None
            if p.op == 'call' and not p.a[1] and not p.a[2] and F.split_method(p.a[0]) is not None and F.split_method(p.a[0])[1] == 'expanduser' \
                    and _is_call_of(F.split_method(p.a[0])[0], 'pathlib.Path', is_v):
                return None if in_cli else 'readBytesCfg'
    if in_cli:
        if natural_number_of(ex, ret, is_v):
            return 'naturalNumberCli'
        if natural_number_of(ex, ret, lambda t: t.op == 'call' and F.callee_name(t.a[0]) == 'replicat.utils.human_to_bytes'
                             and list(t.a[1]) == [V] and not t.a[2]):
            return 'rateLimit'
        return None
    if not _no_effects(ex) or not all(_raises_value_error(e) for e in raises):
        return None
    is_str = F.mk('truthy', F.mk('call', F.mk('g', 'isinstance'), (V, F.mk('g', 'str')), ()))
    str_atoms = [a for a in F.atoms(*[e.pc for e in ex.events], ret) + F.phi_atoms(ret)
                 if a.op == 'truthy' and a.a[0].op == 'call' and F.callee_name(a.a[0].a[0]) == 'isinstance'
                 and list(a.a[0].a[1]) == [V, F.mk('g', 'str')]]
    del is_str

    def with_str(val, yes):
        for a in str_atoms:
            val.set(a, yes)
        return val

    def isinstance_atoms(of, ty):
        return [a for a in F.atoms(*[e.pc for e in raises]) if a.op == 'truthy' and a.a[0].op == 'call'
                and F.callee_name(a.a[0].a[0]) == 'isinstance' and len(a.a[0].a[1]) == 2 and F.callee_name(a.a[0].a[1][1]) == ty
                and of(a.a[0].a[1][0])]
    # _check_natural_number: str → int(v); other non-int → ValueError; < 1 → ValueError; the number
    if str_atoms and len(raises) == 2:
        ok = True
        for s_ in (True, False):
            base = with_str(F.Val(), s_)
            num = F.resolve(ret, base)
            if s_:
                if not _is_call_of(num, 'int', is_v):
                    ok = False
                    break
            elif num is not V:
                ok = False
                break
            ints = isinstance_atoms(is_v, 'int')
            lts = [a for a in F.atoms(*[F.resolve(F.AND(list(e.pc)), base) for e in raises]) if a.op == 'lt' and a.a[0] is num and F.is_k(a.a[1], 1)]
            if len(lts) != 1 or (not s_ and len(ints) != 1):
                ok = False
                break
            for is_int in ((True, False) if not s_ else (True,)):
                for small in (True, False):
                    val = with_str(F.Val(), s_).set(lts[0], small)
                    for a in ints:
                        val.set(a, is_int)
                    fired = [e for e in raises if F.truth(e.pc, val) is True]
                    undecided = [e for e in raises if F.truth(e.pc, val) is None]
                    want = (not s_ and not is_int) or small
                    if undecided or bool(fired) != want:
                        ok = False
        if ok:
            return 'naturalNumberCfg'
    # _check_boolean: str → guess_type(v); not a bool → ValueError; the value
    if str_atoms and len(raises) == 1:
        ok = True
        for s_ in (True, False):
            base = with_str(F.Val(), s_)
            val_t = F.resolve(ret, base)
            if s_:
                if not (val_t.op == 'call' and F.callee_name(val_t.a[0]) == 'replicat.utils.guess_type' and list(val_t.a[1]) == [V] and not val_t.a[2]):
                    ok = False
                    break
            elif val_t is not V:
                ok = False
                break
            bools = [a for a in F.atoms(F.resolve(F.AND(list(raises[0].pc)), base)) if a.op == 'truthy' and a.a[0].op == 'call'
                     and F.callee_name(a.a[0].a[0]) == 'isinstance' and list(a.a[0].a[1]) == [val_t, F.mk('g', 'bool')]]
            if len(bools) != 1:
                ok = False
                break
            for b in (True, False):
                if F.truth(raises[0].pc, with_str(F.Val(), s_).set(bools[0], b)) is not (not b):
                    ok = False
        if ok:
            return 'checkBoolean'
    # _convert_log_level: {'fatal': logging.FATAL, …}[v.lower()], KeyError → ValueError
    if len(raises) == 1 and r0.op == 'item' and r0.a[0].op == 'dict':
        key = r0.a[1]
        table = {F.kval(k): F.callee_name(v) for k, v in r0.a[0].a[0]}
        want = {n: f'logging.{n.upper()}' for n in ('fatal', 'critical', 'error', 'warning', 'info', 'debug')}
        excs = [a for a in F.atoms(raises[0].pc) if (a.a[0] if a.op == 'truthy' else a).op == 'exc']
        if table == want and key.op == 'call' and F.split_method(key.a[0]) == (V, 'lower') and not key.a[1] and len(excs) == 1 \
                and F.callee_name((excs[0].a[0] if excs[0].op == 'truthy' else excs[0]).a[2]) == 'KeyError' \
                and F.truth(raises[0].pc, F.Val().set(excs[0], True)) is True and F.truth(raises[0].pc, F.Val().set(excs[0], False)) is False:
            return 'convertLogLevel'
    return None


_BEHAVIOUR_CACHE = {}


def ty_of(repo, fq, table):
    """OptTy constructor for a type / validator function: by its known name, else by its behaviour, else `other`"""
    if fq in table:
        return table[fq]
    if fq is None:
        return 'other'
    k = (str(repo.root), fq)
    if k not in _BEHAVIOUR_CACHE:
        try:
            _BEHAVIOUR_CACHE[k] = classify_by_behaviour(repo, fq)
        except Exception:  # noqa: BLE001 — an analysis failure means "not recognised"
            _BEHAVIOUR_CACHE[k] = None
    return _BEHAVIOUR_CACHE[k] or 'other'


def _cfg_policy(target, ex):
    """follow the methods of the config classes (popset / getset / _validate_set / anything extracted from them), closures,
    and module-level helpers of config.py that are handed the config object itself; the other functions of config.py are
    the validators and checks — their CALL is the fact (they are recognised by name or by behaviour, see `ty_of`)"""
    if target.nested:
        return True
    if target.module.fq != 'replicat.utils.config' or target.fq in CFG_LANDMARKS:
        return False
    if target.cls is not None:
        return True
    args, kwargs = ex.call_args
    return any(a.op == 'self' for a in list(args) + [v for _, v in kwargs])


def _self_store(ev):
    """an event that assigns an attribute of `self`: `self.f = v` or `setattr(self, 'f', v)` → (field term, value) or None"""
    if ev.kind == 'setattr' and ev.obj.op == 'self':
        return F.K(ev.name), ev.value
    if ev.kind == 'call' and F.callee_name(ev.f) == 'setattr' and len(ev.args) == 3 and ev.args[0].op == 'self':
        return ev.args[1], ev.args[2]
    return None


def _lookup_in(value, is_source):
    """the value stored comes from a key lookup on a mapping: → (validator fq | None, lookup call / item term) or None.
    Accepted: `V(lookup)` and `lookup`, where lookup is `<m>.pop(k[, d])`, `<m>.__getitem__(k)`, `<m>[k]`, `<m>.get(k[, d])`"""
    validator = None
    v = value
    if v.op == 'call' and len(v.a[1]) == 1 and not v.a[2] and _as_lookup(v.a[1][0], is_source) is not None:
        validator = F.callee_name(v.a[0]) or '?'
        v = v.a[1][0]
    lk = _as_lookup(v, is_source)
    if lk is None:
        return None
    return validator, lk


def _as_lookup(v, is_source):
    """→ (mapping, key term, how, default | None)"""
    sm = F.split_method(v.a[0]) if v.op == 'call' else None
    if sm is not None and sm[1] in ('pop', '__getitem__', 'get') and 1 <= len(v.a[1]) <= 2 and not v.a[2]:
        m = sm[0]
        if is_source(m):
            return m, v.a[1][0], sm[1], (v.a[1][1] if len(v.a[1]) == 2 else None)
    if v.op == 'item' and is_source(v.a[0]):
        return v.a[0], v.a[1], '__getitem__', None
    return None


def _keyerror_skips(ex, ev_lookup, ev_store):
    """`present ⇒ set, absent ⇒ leave alone`, however it is written: the lookup happens inside a `try`; when its KeyError
    handler catches, the store does not happen and nothing else does either (the handler has no effects); when it does not
    catch, the store happens"""
    tries = [c[1] for c in ev_lookup.ctx if c[0] == 'try']
    for a in F.atoms(ev_store.pc):
        t = a.a[0] if a.op == 'truthy' else a
        if t.op != 'exc' or t.a[0] not in tries:
            continue
        if F.callee_name(t.a[2]) != 'KeyError':
            continue
        if F.truth(ev_store.pc, F.Val().set(a, True)) is not False or F.truth(ev_store.pc, F.Val().set(a, False)) is not True:
            continue
        in_handler = [e for e in ex.events if ('handler', t.a[0], t.a[1]) in e.ctx and e.kind not in ('return', 'continue', 'break')
                      and not (e.kind == 'call' and (F.callee_name(e.f) or F.show(e.f)).split('.')[-2:-1] in (['logger'], ['logging']))]
        if not in_handler:
            return True
    return False


def config_ast(ctx):
    repo = F.shared_repo(ctx.REPO)
    src = (ctx.REPO / 'replicat' / 'utils' / 'config.py').read_text()
    tree = ast.parse(src)
    ak = ctx.find_func(tree, 'Config', 'apply_known')
    ae = ctx.find_func(tree, 'Config', 'apply_env')
    ctx.fp('config.Config.apply_known', ak)
    ctx.fp('config.Config.apply_env', ae)
    ctx.fp('config.read_config', ctx.find_func(tree, 'read_config'))
    ctx.fp('config.BaseBackendConfig', ctx.find_func(tree, 'BaseBackendConfig'))
    ctx.fp('config.config_for_backend', ctx.find_func(tree, 'config_for_backend'))
    ctx.fp('config._check_mutually_exclusive', ctx.find_func(tree, '_check_mutually_exclusive'))
    file_keys, mutex, env = [], [], []      # (key, field, kind, ty) / [keys] / (var, field, ty), in evaluation order
    recognised = True

    def bad(what):
        nonlocal recognised
        recognised = False
        ctx.notes['apply_known:unrecognised'] = what[:160]

    # ---- Config.apply_known(mapping): which key of the file ends up in which field, through which validator
    f_ak = repo.func('replicat.utils.config', 'Config', 'apply_known')
    if f_ak is None:
        bad('Config.apply_known not found')
    else:
        ex = F.Exec(repo, inline=_cfg_policy)
        params = [a.arg for a in f_ak.node.args.args]
        ret = ex.run(f_ak)
        mapping = F.mk('p', params[1]) if len(params) > 1 else None

        def is_copy(t):
            """a private copy of the argument: `mapping.copy()`, `dict(mapping)`, `{**mapping}`"""
            if t.op == 'call' and t.a[0].op == 'attr' and t.a[0].a[1] == 'copy' and t.a[0].a[0] is mapping and not t.a[1]:
                return True
            if t.op == 'merge':
                return [x for x in F.layers(t)] == [mapping]
            return False
        explained = set()
        for ev in ex.events:
            if ev.kind == 'call' and ev.fq() == 'replicat.utils.config._check_mutually_exclusive':
                keys = [F.kval(a) for a in ev.args[1:]]
                if ev.args and (ev.args[0] is mapping or is_copy(ev.args[0])) and all(isinstance(k, str) for k in keys) and not ev.kwargs \
                        and F.truth(ev.pc, F.Val()) is True:
                    mutex.append(keys)
                else:
                    bad('mutual-exclusion check of unknown shape: ' + repr(ev))
                continue
            st = _self_store(ev)
            if st is None:
                continue
            field_t, value = st
            field = F.kval(field_t)
            if not isinstance(field, str):
                bad('store to a computed field: ' + repr(ev))
                continue
            got = _lookup_in(value, is_copy)
            if got is not None:
                validator, (m, key_t, how, default) = got
                key = F.kval(key_t)
                lookup_ev = next((e for e in ex.events if e.kind == 'call' and e.result is (value if validator is None else value.a[1][0])), None)
                if isinstance(key, str) and how == 'pop' and default is None and lookup_ev is not None and _keyerror_skips(ex, lookup_ev, ev) \
                        and _only_conditions(ev.pc, ('exc',)):
                    file_keys.append((key, field, 'plain', ty_of(repo, validator, TY_FQ) if validator is not None else 'none'))
                    explained.add(id(lookup_ev))
                    continue
                bad('file key of unknown shape: ' + repr(ev))
                continue
            # `if V(remaining.pop(key, False)): self.field = None`
            if F.is_k(value, None):
                hit = None
                for c in F.atoms(ev.pc):
                    if c.op == 'truthy' and c.a[0].op == 'call' and len(c.a[0].a[1]) == 1:
                        lk = _as_lookup(c.a[0].a[1][0], is_copy)
                        if lk is not None and lk[2] == 'pop' and F.is_k(lk[3], False) and isinstance(F.kval(lk[1]), str):
                            hit = (c, F.callee_name(c.a[0].a[0]), F.kval(lk[1]), c.a[0].a[1][0])
                if hit is not None and F.truth(ev.pc, F.Val().set(hit[0], True)) is True and F.truth(ev.pc, F.Val().set(hit[0], False)) is False:
                    file_keys.append((hit[2], field, 'nullIfTrue', ty_of(repo, hit[1], TY_FQ)))
                    explained.update(id(e) for e in ex.events if e.kind == 'call' and e.result is hit[3])
                    continue
            bad('store of unknown shape: ' + repr(ev))
        # every removal from the copy must be one of the above; the copy (with the keys removed) is what is handed on
        for ev in ex.events:
            sm = F.split_method(ev.f) if ev.kind == 'call' else None
            if sm is not None and sm[1] in ('pop', 'popitem', 'clear', '__delitem__') and (is_copy(sm[0]) or sm[0] is mapping) \
                    and id(ev) not in explained:
                bad('unexplained removal: ' + repr(ev))
            if ev.kind in ('delitem', 'setitem') and (is_copy(ev.obj) or ev.obj is mapping):
                bad('unexplained mutation: ' + repr(ev))
            if ev.kind == 'raise':
                bad('raise in apply_known: ' + repr(ev))
            if ev.kind == 'unknown-stmt':
                bad('statement not understood: ' + ast.unparse(ev.node)[:80])
        if not (ret is not None and is_copy(ret)):
            bad('apply_known does not return its private copy of the mapping: ' + F.show(ret))

    # ---- Config.apply_env(): environment variable → field
    f_ae = repo.func('replicat.utils.config', 'Config', 'apply_env')
    if f_ae is not None:
        ex = F.Exec(repo, inline=_cfg_policy)
        ex.run(f_ae)

        def is_environ(t):
            return t.op == 'g' and t.a[0] == 'os.environ'
        for ev in ex.events:
            st = _self_store(ev)
            if st is None:
                continue
            field = F.kval(st[0])
            value = st[1]
            got = _lookup_in(value, is_environ)
            if got is not None and isinstance(F.kval(got[1][1]), str):
                env.append((F.kval(got[1][1]), field, ty_of(repo, got[0], TY_FQ) if got[0] is not None else 'none'))
            elif value.op == 'call' and F.callee_name(value.a[0]) == 'replicat.utils.config._get_environb' and len(value.a[1]) == 1 \
                    and isinstance(F.kval(value.a[1][0]), str):
                env.append((F.kval(value.a[1][0]), field, 'environb'))
            else:
                env.append(('?', field, 'other'))

    # ---- backend config: the ONE validator BaseBackendConfig.apply_known / apply_env use for every field
    def backend_validator(method, is_source):
        fn = repo.func('replicat.utils.config', 'BaseBackendConfig', method)
        if fn is None:
            return 'other'
        ex = F.Exec(repo, inline=_cfg_policy)
        ex.run(fn)
        tys = set()
        for ev in ex.events:
            st = _self_store(ev)
            if st is None:
                continue
            got = _lookup_in(st[1], is_source)
            tys.add(ty_of(repo, got[0], TY_FQ) if got is not None and got[0] is not None else 'other')
        return tys.pop() if len(tys) == 1 else 'other'
    bfile = backend_validator('apply_known', lambda t: t.op == 'call' and t.a[0].op == 'attr' and t.a[0].a[1] == 'copy' or t.op == 'merge')
    benv = backend_validator('apply_env', lambda t: t.op == 'g' and t.a[0] == 'os.environ')
    return file_keys, mutex, env, recognised, bfile, benv


def _only_conditions(pc, ops):
    """every atomic condition of the path condition is one of the given kinds (exception flow of the enclosing try) or decided"""
    for a in F.atoms(pc):
        t = a.a[0] if a.op == 'truthy' else a
        if t.op in ops:
            continue
        if F.truth(a if a.op != 'truthy' else a.a[0], F.Val()) is not None:
            continue
        return False
    return True


# ------------------------------------------------------------------ symbolic execution: __main__.main
STEP_ORDER = ['initialParse', 'readConfig', 'applyKnown', 'applyEnv', 'repoOverride', 'loadBackend', 'backendApplyKnown',
              'backendApplyEnv', 'defaultsCfg', 'defaultsBackend', 'makeMainParser', 'secondParse', 'handler']
# what a step reads / writes.  Two steps commute iff neither writes what the other reads or writes; the emitted order is the
# canonical linearisation of the dependency order of the calls in main() — so moving `cfg.dict()` above `backend_cfg.apply_env()`
# (independent) changes nothing, while swapping `apply_known` and `apply_env` (both write cfg) does.
STEP_RW = {
    'initialParse': (set(), {'args'}),
    'readConfig': ({'args'}, {'fileopts'}),
    'applyKnown': ({'fileopts'}, {'cfg', 'remaining'}),
    'applyEnv': (set(), {'cfg'}),
    'repoOverride': ({'args'}, {'cfg'}),
    'loadBackend': ({'cfg'}, {'btype'}),
    'backendApplyKnown': ({'remaining', 'btype'}, {'bcfg'}),
    'backendApplyEnv': ({'btype'}, {'bcfg'}),
    'defaultsCfg': ({'cfg'}, {'defaults'}),
    'defaultsBackend': ({'bcfg'}, {'defaults'}),
    'makeMainParser': ({'defaults', 'btype'}, {'parser'}),
    'secondParse': ({'parser'}, {'args'}),
    'handler': ({'args', 'btype', 'parser'}, set()),
    'unmodelled': ({'args', 'cfg', 'bcfg'}, {'args', 'cfg', 'bcfg'}),
}


def _conflict(a, b):
    ra, wa = STEP_RW[a]
    rb, wb = STEP_RW[b]
    return bool(wa & (rb | wb)) or bool(wb & ra)


def canonical_order(seq):
    """`seq`: step names in evaluation order → the canonical linear extension of their dependency order (conflicting steps
    keep their relative order; among the steps that are ready the one that comes first in STEP_ORDER is taken)"""
    n = len(seq)
    preds = {j: {i for i in range(j) if _conflict(seq[i], seq[j])} for j in range(n)}
    done, out = set(), []
    while len(done) < n:
        ready = [j for j in range(n) if j not in done and preds[j] <= done]
        j = min(ready, key=lambda k: (STEP_ORDER.index(seq[k]) if seq[k] in STEP_ORDER else len(STEP_ORDER), k))
        done.add(j)
        out.append(seq[j])
    return out


def _main_policy(target, ex):
    """follow the helpers of __main__.py; the command handler — the coroutine function main() hands to `asyncio.run`,
    whatever its name — is not followed: its CALL is the last step"""
    return target.nested or (target.module.fq == 'replicat.__main__' and not isinstance(target.node, ast.AsyncFunctionDef))


def is_handler_call(ev, ex):
    """a call of a coroutine function of __main__.py whose coroutine is then run (handed to a later call: `asyncio.run`,
    `loop.run_until_complete`, …)"""
    if not (ev.kind == 'call' and ev.f.op == 'fn' and not ev.inlined and ev.f.a[0].module.fq == 'replicat.__main__'
            and isinstance(ev.f.a[0].node, ast.AsyncFunctionDef)):
        return False
    return any(e.kind == 'call' and e.id > ev.id and any(F.contains(a, ev.result) for a in e.args) for e in ex.events)


def main_ast(ctx):
    src = (ctx.REPO / 'replicat' / '__main__.py').read_text()
    tree = ast.parse(src)
    mainf = ctx.find_func(tree, 'main')
    ctx.fp('__main__.main', mainf)
    ctx.fp('__main__._instantiate_backend', ctx.find_func(tree, '_instantiate_backend'))
    ctx.fp('__main__._cmd_handler', ctx.find_func(tree, '_cmd_handler'))
    src_cli = (ctx.REPO / 'replicat' / 'utils' / 'cli.py').read_text()
    tcli = ast.parse(src_cli)
    ctx.fp('cli.make_main_parser', ctx.find_func(tcli, 'make_main_parser'))
    ctx.fp('cli.parser_for_backend', ctx.find_func(tcli, 'parser_for_backend'))
    repo = F.shared_repo(ctx.REPO)
    fmain = repo.func('replicat.__main__', 'main')
    if fmain is None:
        return [], [], False
    ex = F.Exec(repo, inline=_main_policy)
    ex.run(fmain)
    none = F.Val()
    # ---- the objects: found by what CREATES them, whatever they are called and wherever that happens
    args = cfg = bcfg = btype = parser = None
    found = []          # (event id, step)
    early = []
    ns_reused = False
    dict_calls = {}     # result term of `<cfg>.dict()` / `<bcfg>.dict()` -> (event id, which)
    notes = []

    for ev in ex.events:
        if ev.kind == 'call':
            fq = ev.fq()
            recv_pk = F.method_call(ev, 'parse_known_args')
            if recv_pk is not None and F.callee_name(recv_pk) == 'replicat.utils.cli.initial_parser':
                found.append((ev.id, 'initialParse'))
                args = ex.item(ev.result, F.K(0))
                continue
            if fq == 'replicat.utils.config.Config':
                cfg = ev.result
                continue
            if fq == 'replicat.utils.config.read_config':
                found.append((ev.id, 'readConfig'))
                continue
            if fq == 'replicat.utils.load_backend':
                a = ev.args
                rep = F.mk('attr', cfg, 'repository') if cfg is not None else None
                if rep is not None and (list(a) == [F.mk('star', rep)] or list(a) == [ex.item(rep, F.K(0)), ex.item(rep, F.K(1))]) and not ev.kwargs:
                    found.append((ev.id, 'loadBackend'))
                    btype = ex.item(ev.result, F.K(0))
                else:
                    notes.append('load_backend is not called on cfg.repository')
                continue
            if fq == 'replicat.utils.config.config_for_backend':
                continue
            if ev.f.op == 'call' and F.callee_name(ev.f.a[0]) == 'replicat.utils.config.config_for_backend' and not ev.args and not ev.kwargs:
                bcfg = ev.result      # instance of the class config_for_backend made
                continue
            if fq == 'replicat.utils.cli.make_main_parser':
                d = ev.arg(None, 'defaults')
                lay = F.layers(F.resolve(d, none)) if d is not None else []
                kinds = []
                for l in lay:
                    k = dict_calls.get(id(l))
                    kinds.append(k)
                if lay and all(k is not None for k in kinds):
                    # the layers of the mapping, in overriding order, positioned where they were READ from the config objects
                    prev = None
                    for eid, which in kinds:
                        found.append(((eid, prev) if prev is not None else eid, which))
                        prev = eid
                else:
                    notes.append('defaults= of make_main_parser is not built from <cfg>.dict() / <backend cfg>.dict(): ' + F.show(d)[:120])
                found.append((ev.id, 'makeMainParser'))
                parser = ev.result
                continue
            if recv_pk is not None and parser is not None and F.resolve(recv_pk, none) is parser:
                found.append((ev.id, 'secondParse'))
                ns = ev.arg(1, 'namespace')
                ns_reused = ns is not None and args is not None and F.resolve(ns, none) is args
                continue
            if is_handler_call(ev, ex):
                found.append((ev.id, 'handler'))
                continue
            for meth, on_cfg, on_bcfg in (('apply_known', 'applyKnown', 'backendApplyKnown'), ('apply_env', 'applyEnv', 'backendApplyEnv')):
                recv = F.method_call(ev, meth)
                if recv is not None:
                    r = F.resolve(recv, none)
                    if cfg is not None and r is cfg:
                        found.append((ev.id, on_cfg))
                    elif bcfg is not None and r is bcfg:
                        found.append((ev.id, on_bcfg))
            recv = F.method_call(ev, 'dict')
            if recv is not None and not ev.args and not ev.kwargs:
                r = F.resolve(recv, none)
                if cfg is not None and r is cfg:
                    dict_calls[id(ev.result)] = (ev.id, 'defaultsCfg')
                elif bcfg is not None and r is bcfg:
                    dict_calls[id(ev.result)] = (ev.id, 'defaultsBackend')
                continue
            # any other method of the config objects would be an unmodelled step
            sm = F.split_method(ev.f)
            if sm is not None and sm[1] not in ('apply_known', 'apply_env', 'dict') and \
                    any(o is not None and F.resolve(sm[0], none) is o for o in (cfg, bcfg)):
                found.append((ev.id, 'unmodelled'))
                notes.append('unmodelled call on a config object: ' + F.show(ev.f)[:80])
        elif ev.kind == 'setattr':
            tgt = F.resolve(ev.obj, none)
            if cfg is not None and tgt is cfg and args is not None:
                # `if args.X is not None: cfg.X = args.X` in any spelling: the store happens exactly when args.X is not None
                src_t = F.mk('attr', args, ev.name)
                isnone = F.mk('isnone', src_t)
                v_set = F.Val().set(isnone, False)
                if F.resolve(ev.value, v_set) is src_t and F.truth(ev.pc, F.Val().set(isnone, True)) is False \
                        and F.truth(ev.pc, v_set) is not False:
                    found.append((ev.id, 'repoOverride'))
                    early.append(ev.name)
                else:
                    found.append((ev.id, 'unmodelled'))
                    notes.append(f'unmodelled store to cfg.{ev.name}')
            elif any(o is not None and tgt is o for o in (bcfg, args)):
                found.append((ev.id, 'unmodelled'))
                notes.append(f'unmodelled store to .{ev.name} of the backend config / namespace')
    # ---- order: evaluation order, except that the layers of `defaults` are ordered by OVERRIDING order
    keyed = []
    for pos, step in found:
        if isinstance(pos, tuple):
            # a later layer: not before the previous layer
            keyed.append((max(pos[0], pos[1] + 0.5), step))
        else:
            keyed.append((pos, step))
    keyed.sort(key=lambda x: x[0])
    seq = [s for _, s in keyed]
    if 'unmodelled' in seq:
        ctx.notes['options:main'] = '; '.join(notes)[:300]
        return [], early, ns_reused
    if notes:
        ctx.notes['options:main'] = '; '.join(notes)[:300]
    return canonical_order(seq), early, ns_reused


def section(ctx):
    info = introspect(ctx)
    try:
        cfg_facts = config_ast(ctx)
    except Exception as e:  # noqa: BLE001 — an analysis failure is "not recognised" (the lemmas over the table then fail), not a crash
        ctx.notes['apply_known:unrecognised'] = f'analysis failed: {e!r}'[:200]
        cfg_facts = ([], [], [], False, 'other', 'other')
    ctx.c19_shared = {'info': info, 'config': cfg_facts, 'ty_of': ty_of, 'TY_CLI': TY_CLI, 'classify': classify_by_behaviour}        # reused by tools/sections/20_sizelit.py in this run
    file_keys, mutex, envs, ak_ok, bfile_ty, benv_ty = cfg_facts
    try:
        steps, early, ns_reused = main_ast(ctx)
    except Exception as e:  # noqa: BLE001
        ctx.notes['options:main'] = f'analysis failed: {e!r}'[:200]
        steps, early, ns_reused = [], [], False
    emit = ctx.emit
    for line in PRELUDE.strip('\n').split('\n'):
        emit(line)
    emit()

    # ---- mutual-exclusion group ids (one id per distinct set of flags)
    group_ids = {}

    def gid(g):
        if g is None:
            return 'none'
        k = tuple(g)
        if k not in group_ids:
            group_ids[k] = len(group_ids)
        return f'some {group_ids[k]}'

    brepo = F.shared_repo(ctx.REPO)

    def clivar(a):
        cls = a['cls']
        ty = ty_of(brepo, a['type'], TY_CLI)
        if cls == '_StoreAction' and a['nargs'] is None and a['flags']:
            kind = 'typed'
        elif cls == '_StoreConstAction' and a['const_repr'] == 'None':
            kind = 'constNone'
        elif cls == '_StoreTrueAction':
            kind = 'constTrue'
        elif cls in ('_CountAction', '_AppendAction') or (cls == '_StoreAction' and (a['nargs'] is not None or not a['flags'])):
            kind = 'multi'
        else:
            kind = 'other'
        flag = a['flags'][0] if a['flags'] else ''
        return (f'{{ flag := {lstr(flag)}, flags := {llist(lstr(x) for x in a["flags"])}, kind := .{kind}, ty := .{ty}, '
                f'group := {gid(a["group"])}, dflt := {DK[a["default_kind"]]} }}')

    cfg_fields = {f['name']: f for f in info['config_fields']}
    rows = []

    def add_rows(actions, scope, owner):
        dests = []
        for a in actions:
            if a['cls'] in ('_HelpAction', '_VersionAction'):
                continue
            if a['dest'] not in dests:
                dests.append(a['dest'])
        for d in dests:
            acts = [a for a in actions if a['dest'] == d]
            fv = [(k, kind, ty) for (k, f, kind, ty) in file_keys if f == d] if scope in (0, 1) else []
            ev = [(v, ty) for (v, f, ty) in envs if f == d] if scope in (0, 1) else []
            in_cfg = scope in (0, 1) and d in cfg_fields
            if in_cfg:
                bk = DK[cfg_fields[d]['default_kind']]
            else:
                nd = [a for a in acts if a['default_kind'] != 'suppress']
                bk = DK[nd[0]['default_kind']] if nd else 0
            rows.append((d, scope, owner, [clivar(a) for a in acts], ev, fv, in_cfg, scope in (0, 1) and d in early, bk))

    add_rows(info['initial'], 0, '')
    add_rows(info['common'], 1, '')
    # Config fields without any CLI action (log_level)
    for name in cfg_fields:
        if not any(r[0] == name and r[1] in (0, 1) for r in rows):
            fv = [(k, kind, ty) for (k, f, kind, ty) in file_keys if f == name]
            ev = [(v, ty) for (v, f, ty) in envs if f == name]
            rows.append((name, 1, '', [], ev, fv, True, name in early, DK[cfg_fields[name]['default_kind']]))
    # file keys / env vars that target something that is not a Config field: not representable → flag
    for (k, f, kind, ty) in file_keys:
        if f not in cfg_fields:
            ctx.notes[f'apply_known:{k}'] = f'targets unknown field {f}'
            ak_ok = False
    for b, bd in info['backends'].items():
        if 'error' in bd:
            ctx.notes[f'backend:{b}'] = bd['error']
            continue
        for f in bd['fields']:
            rows.append((f['name'], 2, b, [clivar(a) for a in f['actions']], [(f['env'], benv_ty)],
                         [(f['file_key'], 'plain', bfile_ty)], True, False, DK[f['default_kind']]))
    for c in info['commands']:
        add_rows(c['specific'], 3, c['name'])

    emit('def optRows : List OptRow := [')
    out = []
    for (d, scope, owner, cv, ev, fv, in_cfg, is_early, bk) in rows:
        e = 'none' if not ev else f'some ({lstr(ev[0][0])}, .{ev[0][1]})'
        if len(ev) > 1:
            ctx.notes[f'env:{d}'] = 'more than one environment variable'
            e = f'some ({lstr(ev[0][0])}, .other)'
        f = llist(f'{{ key := {lstr(k)}, kind := .{kind}, ty := .{ty} }}' for (k, kind, ty) in fv)
        out.append(f'  {{ dest := {lstr(d)}, scope := {scope}, owner := {lstr(owner)},\n    cli := {llist(cv)},\n    env := {e}, file := {f},\n'
                   f'    inCfg := {"true" if in_cfg else "false"}, early := {"true" if is_early else "false"}, builtinKind := {bk} }}')
    emit(',\n'.join(out) + ']')
    emit()
    emit('def optCommands : List OptCommand := [')
    emit(',\n'.join(
        f'  {{ name := {lstr(c["name"])}, aliases := {llist(lstr(a) for a in c["aliases"])}, setDefaults := {"true" if c["set_defaults"] else "false"}, '
        f'parents := {"true" if c["parents"] else "false"}, parentGroupsKept := {"true" if c["parent_groups_kept"] else "false"} }}'
        for c in info['commands']) + ']')
    emit()
    emit('def optSteps : List OptStep := ' + llist('.' + s for s in steps))
    emit('def optFileMutex : List (List String) := ' + llist(llist(lstr(k) for k in g) for g in mutex))
    # ---- how ANY backend's options are read (the schema `Options.customBackendRow` is built from): the validators of
    # BaseBackendConfig.apply_known / apply_env (AST) and the `type=` of the actions `cli.parser_for_backend` creates — taken
    # from the live parsers of every probed backend, among them the annotated probe `vfa` (str / int / bool / float /
    # Optional / Union / string annotations, with and without defaults).  Not one and the same function for all of them
    # (e.g. chosen by annotation) → `.other`, and the lemmas about `customBackendRow` stop compiling.
    cli_tys, annotated = set(), 0
    for b, bd in info['backends'].items():
        for f in bd.get('fields', []):
            annotated += f.get('annotation') is not None
            if len(f['actions']) != 1:
                cli_tys.add('other')
            for a in f['actions']:
                cli_tys.add(ty_of(brepo, a['type'], TY_CLI) if a['cls'] == '_StoreAction' and a['nargs'] is None else 'other')
    backend_cli_ty = cli_tys.pop() if len(cli_tys) == 1 else 'other'
    emit(f'def optBackendCliTy : OptTy := .{backend_cli_ty}')
    emit(f'def optBackendFileTy : OptTy := .{bfile_ty}')
    emit(f'def optBackendEnvTy : OptTy := .{benv_ty}')
    emit(f'def optBackendAnnotatedProbes : Nat := {annotated}')
    ctx.notes['options:backend-schema'] = (f'cli type={backend_cli_ty} file validator={bfile_ty} env validator={benv_ty}; '
                                           f'{annotated} annotated probe options')
    emit(f'def optApplyKnownRecognised : Bool := {"true" if ak_ok else "false"}')
    emit(f'def optSecondParseReusesNamespace : Bool := {"true" if ns_reused else "false"}')
    emit(f'def optSubcommandRequired : Bool := {"true" if info.get("subparsers_required") else "false"}')
    ctx.notes['options'] = (f'{len(rows)} option rows, {len(info["commands"])} sub-commands, {len(group_ids)} mutual-exclusion groups, '
                            f'steps={steps}')
