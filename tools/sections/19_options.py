"""C19 — regenerates the OPTION TABLE and the ORDER of the option pipeline of `replicat.__main__.main`.

Two sources, both read from the CURRENT working tree of replicat:

* runtime introspection (harness/impl/c19_introspect.py, run in a throw-away /venv/bin/python process): every argparse
  action of `cli.initial_parser`, `cli.common_options_parser`, `cli.parser_for_backend(<backend>)` for local/s3/s3c/b2 and
  the custom backend `vfy` (found through the namespace package), and of every sub-command built by `cli.make_main_parser`:
  dest, option strings, action class, `type` function, kind of default, mutual-exclusion groups; `Config` fields; whether
  `set_defaults(**defaults)` reaches each sub-parser;
* the AST: the order of the calls in `main()` (`read_config` / `apply_known` / `apply_env` / `-r` override /
  `load_backend` / backend config / `defaults` / `make_main_parser` / second parse / handler), the `popset`/`getset`
  calls of `Config.apply_known` / `apply_env` (file key → field → validator, in order), the `_check_mutually_exclusive`
  calls, and the validators used by `BaseBackendConfig`.

Anything not recognised becomes `OptTy.other` / `OptCliKind.other` / a missing step, so that the well-formedness
lemmas (`decide` over the table) stop compiling — never assumed silently.
"""
import ast
import json
import os
import subprocess
import sys
from pathlib import Path

VERIF = Path(__file__).resolve().parent.parent.parent
INTROSPECT = VERIF / 'harness' / 'impl' / 'c19_introspect.py'
CUSTOM = VERIF / 'harness' / 'impl' / 'c19_backend'
PYMOD = VERIF / 'native' / 'pymod'

PRELUDE = '''
/-- the function that turns a raw value (CLI word, environment string, TOML value) into the option's value -/
inductive OptTy
  | none | parseRepository | path | naturalNumberCli | naturalNumberCfg | readBytesCli | readBytesCfg
  | fsencode | strEncode | checkBoolean | guessType | convertLogLevel | rateLimit | parseList | environb | other
  deriving DecidableEq, Repr, Inhabited

/-- typed: one word through `ty`; constNone / constTrue: a flag without value (`store_const None`, `store_true`);
multi: count / append / nargs (the raw is the whole list of occurrences; opaque to the model) -/
inductive OptCliKind | typed | constNone | constTrue | multi | other
  deriving DecidableEq, Repr, Inhabited

structure OptCliVar where
  flag : String
  flags : List String
  kind : OptCliKind
  ty : OptTy
  group : Option Nat
  dflt : Nat
  deriving DecidableEq, Repr, Inhabited

/-- plain: `popset(remaining, key, validator, field=…)`; nullIfTrue: the `no-cache` shape
`if _check_boolean(remaining.pop(key, False)): self.<field> = None` -/
inductive OptFileKind | plain | nullIfTrue | other
  deriving DecidableEq, Repr, Inhabited

structure OptFileVar where
  key : String
  kind : OptFileKind
  ty : OptTy
  deriving DecidableEq, Repr, Inhabited

/-- one option = one `dest`.  scope: 0 initial parser, 1 common options parser, 2 backend-specific (owner = backend
module), 3 command-specific (owner = sub-command).  dflt / builtinKind: 0 None, 1 SUPPRESS, 2 str, 3 other non-str,
4 missing (required backend option). -/
structure OptRow where
  dest : String
  scope : Nat
  owner : String
  cli : List OptCliVar
  env : Option (String × OptTy)
  file : List OptFileVar
  inCfg : Bool
  early : Bool
  builtinKind : Nat
  deriving DecidableEq, Repr, Inhabited

structure OptCommand where
  name : String
  aliases : List String
  setDefaults : Bool
  parents : Bool
  parentGroupsKept : Bool
  deriving DecidableEq, Repr, Inhabited

/-- the calls of `main()` that move option values, in source order -/
inductive OptStep
  | initialParse | readConfig | applyKnown | applyEnv | repoOverride | loadBackend
  | backendApplyKnown | backendApplyEnv | defaultsCfg | defaultsBackend | makeMainParser | secondParse | handler
  deriving DecidableEq, Repr, Inhabited
'''

TY_CLI = {
    None: 'none',
    'replicat.utils.parse_repository': 'parseRepository',
    'pathlib.Path': 'path',
    'replicat.utils.cli._natural_number': 'naturalNumberCli',
    'replicat.utils.cli._read_bytes': 'readBytesCli',
    'os._fscodec.<locals>.fsencode': 'fsencode',
    'replicat.utils.guess_type': 'guessType',
    'replicat.utils.cli._rate_limit': 'rateLimit',
    'replicat.utils.ColumnMixin.parse_list': 'parseList',
}
TY_CFG = {   # names as written inside replicat/utils/config.py
    'parse_repository': 'parseRepository', '_check_natural_number': 'naturalNumberCfg', '_check_boolean': 'checkBoolean',
    'Path': 'path', 'str.encode': 'strEncode', '_read_bytes': 'readBytesCfg', '_convert_log_level': 'convertLogLevel',
    'guess_type': 'guessType', None: 'none',
}
DK = {'none': 0, 'suppress': 1, 'str': 2, 'other': 3, 'missing': 4}


def lstr(s):
    return json.dumps(s, ensure_ascii=False)


def llist(xs):
    return '[' + ', '.join(xs) + ']'


def introspect(ctx):
    py = '/venv/bin/python' if os.path.exists('/venv/bin/python') else sys.executable
    env = dict(os.environ)
    env.setdefault('REPLICAT_VERIF_GCL_SO', str(VERIF / '.work' / 'native' / 'libgcl.so'))
    for k in list(env):
        if k.startswith(('REPLICAT_', 'S3_', 'S3C_', 'B2_', 'VFY_', 'VFA_')) and k != 'REPLICAT_REPO' and k != 'REPLICAT_VERIF_GCL_SO':
            del env[k]
    env.pop('C19_EXTRA_BACKENDS', None)
    p = subprocess.run([py, str(INTROSPECT), str(ctx.REPO), str(CUSTOM), str(PYMOD)], capture_output=True, text=True, env=env,
                       cwd=str(VERIF), timeout=120)
    if p.returncode != 0:
        raise RuntimeError('introspection failed: ' + p.stderr[-600:])
    return json.loads(p.stdout)


# ------------------------------------------------------------------ AST: config.py
def config_ast(ctx):
    src = (ctx.REPO / 'replicat' / 'utils' / 'config.py').read_text()
    tree = ast.parse(src)
    un = ctx.unparse
    ak = ctx.find_func(tree, 'Config', 'apply_known')
    ae = ctx.find_func(tree, 'Config', 'apply_env')
    ctx.fp('config.Config.apply_known', ak)
    ctx.fp('config.Config.apply_env', ae)
    ctx.fp('config.read_config', ctx.find_func(tree, 'read_config'))
    ctx.fp('config.BaseBackendConfig', ctx.find_func(tree, 'BaseBackendConfig'))
    ctx.fp('config.config_for_backend', ctx.find_func(tree, 'config_for_backend'))
    ctx.fp('config._check_mutually_exclusive', ctx.find_func(tree, '_check_mutually_exclusive'))
    file_keys = []      # (key, field, kind, ty) in source order
    mutex = []
    recognised = True

    def popset_call(call):
        # self.popset(remaining, 'key', validator, field='f')
        if not (isinstance(call, ast.Call) and un(call.func) in ('self.popset', 'self.getset')):
            return None
        if len(call.args) < 2 or not isinstance(call.args[1], ast.Constant):
            return None
        key = call.args[1].value
        val = un(call.args[2]) if len(call.args) > 2 else None
        for k in call.keywords:
            if k.arg == 'validator':
                val = un(k.value)
        field = None
        for k in call.keywords:
            if k.arg == 'field' and isinstance(k.value, ast.Constant):
                field = k.value.value
        return key, field, val, un(call.args[0])

    for st in (ak.body if ak is not None else []):
        if isinstance(st, ast.Expr) and isinstance(st.value, ast.Constant):
            continue  # docstring
        if isinstance(st, ast.Expr) and isinstance(st.value, ast.Call):
            f = un(st.value.func)
            if f == '_check_mutually_exclusive':
                keys = [a.value for a in st.value.args[1:] if isinstance(a, ast.Constant)]
                if len(keys) == len(st.value.args) - 1:
                    mutex.append(keys)
                else:
                    recognised = False
                continue
            pc = popset_call(st.value)
            if pc is not None and f == 'self.popset' and pc[1] is not None:
                file_keys.append((pc[0], pc[1], 'plain', TY_CFG.get(pc[2], 'other')))
                continue
            if f.startswith(('logger.', 'logging.')):
                continue
            recognised = False
            ctx.notes['apply_known:unrecognised'] = un(st)[:120]
            continue
        if isinstance(st, ast.Assign) and un(st) == 'remaining = mapping.copy()':
            continue
        if isinstance(st, ast.Return):
            continue
        if isinstance(st, ast.If):
            # if _check_boolean(remaining.pop('no-cache', False)): self.cache_directory = None
            t = st.test
            ok = False
            if (isinstance(t, ast.Call) and len(t.args) == 1 and isinstance(t.args[0], ast.Call)
                    and un(t.args[0].func) == 'remaining.pop' and len(t.args[0].args) == 2
                    and isinstance(t.args[0].args[0], ast.Constant) and un(t.args[0].args[1]) == 'False'
                    and len(st.body) == 1 and not st.orelse and isinstance(st.body[0], ast.Assign)
                    and un(st.body[0].value) == 'None' and un(st.body[0].targets[0]).startswith('self.')):
                file_keys.append((t.args[0].args[0].value, un(st.body[0].targets[0])[5:], 'nullIfTrue', TY_CFG.get(un(t.func), 'other')))
                ok = True
            if not ok:
                recognised = False
                ctx.notes['apply_known:unrecognised'] = un(st)[:120]
            continue
        recognised = False
        ctx.notes['apply_known:unrecognised'] = un(st)[:120]

    env = []            # (var, field, ty)
    for node in (ast.walk(ae) if ae is not None else []):
        if isinstance(node, ast.Call):
            pc = popset_call(node)
            if pc is not None and un(node.func) == 'self.getset' and pc[3] == 'os.environ':
                env.append((pc[0], pc[1], TY_CFG.get(pc[2], 'other')))
            if un(node.func) == '_get_environb' and len(node.args) == 1 and isinstance(node.args[0], ast.Constant):
                # self.<field> = _get_environb('VAR')
                field = None
                for a in ast.walk(ae):
                    if isinstance(a, ast.Assign) and a.value is node and un(a.targets[0]).startswith('self.'):
                        field = un(a.targets[0])[5:]
                env.append((node.args[0].value, field, 'environb'))
    # backend config: validators of BaseBackendConfig.apply_known / apply_env
    bak = ctx.find_func(tree, 'BaseBackendConfig', 'apply_known')
    bae = ctx.find_func(tree, 'BaseBackendConfig', 'apply_env')
    bfile = benv = 'other'
    for node in (ast.walk(bak) if bak is not None else []):
        if isinstance(node, ast.Call) and un(node.func) == 'self.popset' and len(node.args) > 2:
            bfile = TY_CFG.get(un(node.args[2]), 'other')
    for node in (ast.walk(bae) if bae is not None else []):
        if isinstance(node, ast.Call) and un(node.func) == 'self.getset' and len(node.args) > 2 and un(node.args[0]) == 'os.environ':
            benv = TY_CFG.get(un(node.args[2]), 'other')
    return file_keys, mutex, env, recognised, bfile, benv


# ------------------------------------------------------------------ AST: __main__.main
def main_ast(ctx):
    src = (ctx.REPO / 'replicat' / '__main__.py').read_text()
    tree = ast.parse(src)
    un = ctx.unparse
    mainf = ctx.find_func(tree, 'main')
    ctx.fp('__main__.main', mainf)
    ctx.fp('__main__._instantiate_backend', ctx.find_func(tree, '_instantiate_backend'))
    ctx.fp('__main__._cmd_handler', ctx.find_func(tree, '_cmd_handler'))
    src_cli = (ctx.REPO / 'replicat' / 'utils' / 'cli.py').read_text()
    tcli = ast.parse(src_cli)
    ctx.fp('cli.make_main_parser', ctx.find_func(tcli, 'make_main_parser'))
    ctx.fp('cli.parser_for_backend', ctx.find_func(tcli, 'parser_for_backend'))
    if mainf is None:
        return [], [], False
    # names of the local variables
    names = {'cfg': None, 'bcfg': None, 'bcfg_type': None, 'args': None, 'defaults': None, 'parser': None}
    assigns = [n for n in ast.walk(mainf) if isinstance(n, ast.Assign)]
    assigns.sort(key=lambda n: (n.lineno, n.col_offset))
    for a in assigns:
        v = un(a.value)
        t = a.targets[0]
        if v == 'config.Config()' and isinstance(t, ast.Name):
            names['cfg'] = t.id
        if isinstance(a.value, ast.Call) and un(a.value.func) == 'config.config_for_backend' and isinstance(t, ast.Name):
            names['bcfg_type'] = t.id
        if isinstance(a.value, ast.Call) and names['bcfg_type'] and un(a.value.func) == names['bcfg_type'] and isinstance(t, ast.Name):
            names['bcfg'] = t.id
        if isinstance(a.value, ast.Call) and un(a.value.func) == 'cli.initial_parser.parse_known_args':
            if isinstance(t, ast.Tuple) and isinstance(t.elts[0], ast.Name):
                names['args'] = t.elts[0].id
        if names['cfg'] and v == f"{names['cfg']}.dict()" and isinstance(t, ast.Name):
            names['defaults'] = t.id
        if isinstance(a.value, ast.Call) and un(a.value.func) == 'cli.make_main_parser' and isinstance(t, ast.Name):
            names['parser'] = t.id
    cfg, bcfg, args, dfl, parser = names['cfg'], names['bcfg'], names['args'], names['defaults'], names['parser']
    events = []      # (lineno, col, step)
    early = []
    ns_reused = False
    for node in ast.walk(mainf):
        pos = (getattr(node, 'lineno', 0), getattr(node, 'col_offset', 0))
        if isinstance(node, ast.Call):
            f = un(node.func)
            if f == 'cli.initial_parser.parse_known_args':
                events.append((*pos, 'initialParse'))
            elif f == 'config.read_config':
                events.append((*pos, 'readConfig'))
            elif cfg and f == f'{cfg}.apply_known':
                events.append((*pos, 'applyKnown'))
            elif cfg and f == f'{cfg}.apply_env':
                events.append((*pos, 'applyEnv'))
            elif f == 'utils.load_backend' and cfg and [un(a) for a in node.args] == [f'*{cfg}.repository']:
                events.append((*pos, 'loadBackend'))
            elif bcfg and f == f'{bcfg}.apply_known':
                events.append((*pos, 'backendApplyKnown'))
            elif bcfg and f == f'{bcfg}.apply_env':
                events.append((*pos, 'backendApplyEnv'))
            elif cfg and f == f'{cfg}.dict':
                events.append((*pos, 'defaultsCfg'))
            elif dfl and bcfg and f == f'{dfl}.update' and [un(a) for a in node.args] == [f'{bcfg}.dict()']:
                events.append((*pos, 'defaultsBackend'))
            elif f == 'cli.make_main_parser' and dfl and any(k.arg == 'defaults' and un(k.value) == dfl for k in node.keywords):
                events.append((*pos, 'makeMainParser'))
            elif parser and f == f'{parser}.parse_known_args':
                events.append((*pos, 'secondParse'))
                ns_reused = any(k.arg == 'namespace' and un(k.value) == args for k in node.keywords)
            elif f == 'asyncio.run' and node.args and '_cmd_handler(' in un(node.args[0]):
                events.append((*pos, 'handler'))
        if isinstance(node, ast.If) and cfg and args:
            # if args.X is not None: cfg.X = args.X
            t = un(node.test)
            for st in node.body:
                if isinstance(st, ast.Assign) and len(st.targets) == 1:
                    tg, v = un(st.targets[0]), un(st.value)
                    if tg.startswith(cfg + '.') and v == f'{args}.{tg[len(cfg) + 1:]}' and t == f'{v} is not None' and not node.orelse:
                        events.append((st.lineno, st.col_offset, 'repoOverride'))
                        early.append(tg[len(cfg) + 1:])
    events.sort()
    steps = [e[2] for e in events]
    return steps, early, ns_reused


def section(ctx):
    info = introspect(ctx)
    file_keys, mutex, envs, ak_ok, bfile_ty, benv_ty = config_ast(ctx)
    steps, early, ns_reused = main_ast(ctx)
    emit = ctx.emit
    for line in PRELUDE.strip('\n').split('\n'):
        emit(line)
    emit()

    # ---- mutual-exclusion group ids (one id per distinct set of flags)
    group_ids = {}

    def gid(g):
        if g is None:
            return 'none'
        k = tuple(g)
        if k not in group_ids:
            group_ids[k] = len(group_ids)
        return f'some {group_ids[k]}'

    def clivar(a):
        cls = a['cls']
        ty = TY_CLI.get(a['type'], 'other')
        if cls == '_StoreAction' and a['nargs'] is None and a['flags']:
            kind = 'typed'
        elif cls == '_StoreConstAction' and a['const_repr'] == 'None':
            kind = 'constNone'
        elif cls == '_StoreTrueAction':
            kind = 'constTrue'
        elif cls in ('_CountAction', '_AppendAction') or (cls == '_StoreAction' and (a['nargs'] is not None or not a['flags'])):
            kind = 'multi'
        else:
            kind = 'other'
        flag = a['flags'][0] if a['flags'] else ''
        return (f'{{ flag := {lstr(flag)}, flags := {llist(lstr(x) for x in a["flags"])}, kind := .{kind}, ty := .{ty}, '
                f'group := {gid(a["group"])}, dflt := {DK[a["default_kind"]]} }}')

    cfg_fields = {f['name']: f for f in info['config_fields']}
    rows = []

    def add_rows(actions, scope, owner):
        dests = []
        for a in actions:
            if a['cls'] in ('_HelpAction', '_VersionAction'):
                continue
            if a['dest'] not in dests:
                dests.append(a['dest'])
        for d in dests:
            acts = [a for a in actions if a['dest'] == d]
            fv = [(k, kind, ty) for (k, f, kind, ty) in file_keys if f == d] if scope in (0, 1) else []
            ev = [(v, ty) for (v, f, ty) in envs if f == d] if scope in (0, 1) else []
            in_cfg = scope in (0, 1) and d in cfg_fields
            if in_cfg:
                bk = DK[cfg_fields[d]['default_kind']]
            else:
                nd = [a for a in acts if a['default_kind'] != 'suppress']
                bk = DK[nd[0]['default_kind']] if nd else 0
            rows.append((d, scope, owner, [clivar(a) for a in acts], ev, fv, in_cfg, scope in (0, 1) and d in early, bk))

    add_rows(info['initial'], 0, '')
    add_rows(info['common'], 1, '')
    # Config fields without any CLI action (log_level)
    for name in cfg_fields:
        if not any(r[0] == name and r[1] in (0, 1) for r in rows):
            fv = [(k, kind, ty) for (k, f, kind, ty) in file_keys if f == name]
            ev = [(v, ty) for (v, f, ty) in envs if f == name]
            rows.append((name, 1, '', [], ev, fv, True, name in early, DK[cfg_fields[name]['default_kind']]))
    # file keys / env vars that target something that is not a Config field: not representable → flag
    for (k, f, kind, ty) in file_keys:
        if f not in cfg_fields:
            ctx.notes[f'apply_known:{k}'] = f'targets unknown field {f}'
            ak_ok = False
    for b, bd in info['backends'].items():
        if 'error' in bd:
            ctx.notes[f'backend:{b}'] = bd['error']
            continue
        for f in bd['fields']:
            rows.append((f['name'], 2, b, [clivar(a) for a in f['actions']], [(f['env'], benv_ty)],
                         [(f['file_key'], 'plain', bfile_ty)], True, False, DK[f['default_kind']]))
    for c in info['commands']:
        add_rows(c['specific'], 3, c['name'])

    emit('def optRows : List OptRow := [')
    out = []
    for (d, scope, owner, cv, ev, fv, in_cfg, is_early, bk) in rows:
        e = 'none' if not ev else f'some ({lstr(ev[0][0])}, .{ev[0][1]})'
        if len(ev) > 1:
            ctx.notes[f'env:{d}'] = 'more than one environment variable'
            e = f'some ({lstr(ev[0][0])}, .other)'
        f = llist(f'{{ key := {lstr(k)}, kind := .{kind}, ty := .{ty} }}' for (k, kind, ty) in fv)
        out.append(f'  {{ dest := {lstr(d)}, scope := {scope}, owner := {lstr(owner)},\n    cli := {llist(cv)},\n    env := {e}, file := {f},\n'
                   f'    inCfg := {"true" if in_cfg else "false"}, early := {"true" if is_early else "false"}, builtinKind := {bk} }}')
    emit(',\n'.join(out) + ']')
    emit()
    emit('def optCommands : List OptCommand := [')
    emit(',\n'.join(
        f'  {{ name := {lstr(c["name"])}, aliases := {llist(lstr(a) for a in c["aliases"])}, setDefaults := {"true" if c["set_defaults"] else "false"}, '
        f'parents := {"true" if c["parents"] else "false"}, parentGroupsKept := {"true" if c["parent_groups_kept"] else "false"} }}'
        for c in info['commands']) + ']')
    emit()
    emit('def optSteps : List OptStep := ' + llist('.' + s for s in steps))
    emit('def optFileMutex : List (List String) := ' + llist(llist(lstr(k) for k in g) for g in mutex))
    # ---- how ANY backend's options are read (the schema `Options.customBackendRow` is built from): the validators of
    # BaseBackendConfig.apply_known / apply_env (AST) and the `type=` of the actions `cli.parser_for_backend` creates — taken
    # from the live parsers of every probed backend, among them the annotated probe `vfa` (str / int / bool / float /
    # Optional / Union / string annotations, with and without defaults).  Not one and the same function for all of them
    # (e.g. chosen by annotation) → `.other`, and the lemmas about `customBackendRow` stop compiling.
    cli_tys, annotated = set(), 0
    for b, bd in info['backends'].items():
        for f in bd.get('fields', []):
            annotated += f.get('annotation') is not None
            if len(f['actions']) != 1:
                cli_tys.add('other')
            for a in f['actions']:
                cli_tys.add(TY_CLI.get(a['type'], 'other') if a['cls'] == '_StoreAction' and a['nargs'] is None else 'other')
    backend_cli_ty = cli_tys.pop() if len(cli_tys) == 1 else 'other'
    emit(f'def optBackendCliTy : OptTy := .{backend_cli_ty}')
    emit(f'def optBackendFileTy : OptTy := .{bfile_ty}')
    emit(f'def optBackendEnvTy : OptTy := .{benv_ty}')
    emit(f'def optBackendAnnotatedProbes : Nat := {annotated}')
    ctx.notes['options:backend-schema'] = (f'cli type={backend_cli_ty} file validator={bfile_ty} env validator={benv_ty}; '
                                           f'{annotated} annotated probe options')
    emit(f'def optApplyKnownRecognised : Bool := {"true" if ak_ok else "false"}')
    emit(f'def optSecondParseReusesNamespace : Bool := {"true" if ns_reused else "false"}')
    emit(f'def optSubcommandRequired : Bool := {"true" if info.get("subparsers_required") else "false"}')
    ctx.notes['options'] = (f'{len(rows)} option rows, {len(info["commands"])} sub-commands, {len(group_ids)} mutual-exclusion groups, '
                            f'steps={steps}')
