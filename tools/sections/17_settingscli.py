"""C17 — custom settings WRITTEN ON THE COMMAND LINE (`replicat init … --encryption.kdf.n 16 --hashing.name blake2b`).

Regenerated from /repo on every run, by SYMBOLIC EXECUTION (tools/optflow.py) and case analysis over the atomic conditions —
what the functions DO in each case, not how their statements are arranged.  Renamed locals, swapped branches, `continue` /
early `return`, conditional expressions, De Morgan, an index-`while` instead of `for`, a key helper, hoisted constants, added
logging / counters leave the facts unchanged; any other EFFECT (another append / store / raise) or an extra deciding condition
makes the shape "not recognised":

* `replicat/utils/cli.py::parse_cli_settings` — one pass over the arguments with a pending-flag variable F, a fresh mapping M
  and a fresh list U; per case of (`arg.startswith(<prefix>)`, `F is None`) what is appended / stored and what F becomes
  (flag after flag → U gets the old flag; value without flag → U; value after flag → `M[key(F)] = coerce(arg)`, `F = None`;
  trailing flag → U); the key normalisation as a chain of str methods on the flag (`[.lstrip ['-'], .replace '-' '_']`; the
  model INTERPRETS that list) and the coercion function;
* `replicat/utils/__init__.py::flat_to_nested` — the separator default, whether the items are iterated `sorted(...)`, the
  descent `node = node.setdefault(part, {})` over all parts of `key.split(sep)` but the last, starting at the result dict,
  the store `node[last] = value`, both inside one `try`; the exception classes caught and the error raised for them;
* `replicat/utils/__init__.py::guess_type` — its RESULT per case of (is a str, `v.lower()` in WORDS, the evaluator raised):
  the words that are title-cased before evaluation, the evaluator (`ast.literal_eval`), the exception classes that make it
  return the text itself;
* `replicat/__main__.py::main` — per case of (unknown words U0 of the second parse non-empty, action ∈ ACTIONS, words U1 that
  `parse_cli_settings(U0)` leaves unknown non-empty): the settings handed to the handler are `flat_to_nested(flat)` iff
  U0 ∧ action ∈ ACTIONS ∧ ¬U1, else None; `parser.error` is reached iff the still-unknown words are non-empty; then the handler
  (the coroutine function main() runs, whatever its name) is called; and per action which `repository.<method>` receives
  `settings=<that parameter>`.

Whatever is not recognised sets the corresponding `…Recognised` flag to false (defaults are emitted so that the model still
compiles); `Replicat.C17.cli_shape_bridge` discharges the flags and the extracted values by `decide`, and the theorems use
that bridge — an unrecognised or changed shape makes the proof build fail (reported as a broken obligation).
"""
import ast
import sys
from pathlib import Path

sys.path.insert(0, str(Path(__file__).resolve().parent.parent))
import optflow as F  # noqa: E402 — tools/optflow.py: symbolic execution of the source under test

PRELUDE = r'''
/-- one str method applied to the flag when `parse_cli_settings` derives the key -/
inductive CliKeyOp where
  | lstrip (chars : List Char)        -- `.lstrip('<chars>')`
  | replace (a b : Char)              -- `.replace('<a>', '<b>')` (single characters)
  | other (what : String)             -- anything else: the model refuses to interpret it (`normKey` is then not the source's)
  deriving DecidableEq, Repr

/-- the statements of `main()` that move the custom settings, in source order -/
inductive CliStep where
  | secondParse            -- `_, unknown_args = main_parser.parse_known_args(namespace=args)`
  | settingsNone           -- `custom_settings = None`
  | parseCliSettings       -- `flat_settings, unknown_args = cli.parse_cli_settings(unknown_args)` under `if unknown_args and args.action in {…}`
  | flatToNestedIfClean    -- `if not unknown_args: custom_settings = utils.flat_to_nested(flat_settings)`
  | errorIfUnknown         -- `if unknown_args: main_parser.error(…)`
  | runHandler             -- `asyncio.run(_cmd_handler(…, custom_settings))`
  deriving DecidableEq, Repr
'''


def lchar(c):
    if c == "'":
        return "'\\''"
    if c == '\\':
        return "'\\\\'"
    if 32 <= ord(c) < 127:
        return f"'{c}'"
    return f'(Char.ofNat {ord(c)})'


def lchars(s):
    return '[' + ', '.join(lchar(c) for c in s) + ']'


def lstr(s):
    import json
    return json.dumps(s, ensure_ascii=False)


def lstrs(xs):
    return '[' + ', '.join(lstr(x) for x in xs) + ']'


def const_str(node):
    return node.value if isinstance(node, ast.Constant) and isinstance(node.value, str) else None


class NotRec(ValueError):
    pass


def _effects(ex, extra=()):
    """the events that change something: raises, stores, and the mutating method calls named in `extra`"""
    out = []
    for e in ex.events:
        if e.kind in ('raise', 'setattr', 'setitem', 'delitem', 'delattr', 'unknown-stmt', 'yield'):
            out.append(e)
        elif e.kind == 'call':
            sm = F.split_method(e.f)
            if sm is not None and sm[1] in extra:
                out.append(e)
    return out


def _base(t):
    """the object a mapping value was built on (`m`, `m` with items assigned)"""
    while t.op == 'merge':
        t = t.a[0]
    return t


def _decided(pc, val):
    r = F.truth(pc, val)
    if r is None:
        raise NotRec('a condition outside the modelled ones decides what happens: ' + F.show(pc)[:120])
    return r


def key_ops_of(term, flag):
    """`flag.m1(a…).m2(b…)…` as a TERM → list of Lean CliKeyOp terms (innermost call first), or None"""
    ops = []
    node = term
    while node.op == 'call':
        sm = F.split_method(node.a[0])
        if sm is None:
            return None
        recv, meth = sm
        args = [F.kval(x) if F.is_k(x) and isinstance(F.kval(x), str) else None for x in node.a[1]]
        if node.a[2] or any(x is None for x in args):
            ops.append(f'.other {lstr(meth)}')
        elif meth == 'lstrip' and len(args) == 1:
            ops.append(f'.lstrip {lchars(args[0])}')
        elif meth == 'replace' and len(args) == 2 and len(args[0]) == 1 and len(args[1]) == 1:
            ops.append(f'.replace {lchar(args[0])} {lchar(args[1])}')
        else:
            ops.append(f'.other {lstr(meth)}')
        node = recv
    if node is not flag:
        return None
    return list(reversed(ops))


def _short(fq, expected_fq, short):
    """the name the bridge lemma expects for the expected function; anything else keeps its full name (and so differs)"""
    return short if fq == expected_fq else (fq or '?')


def parse_loop(repo):
    """`parse_cli_settings`, by BEHAVIOUR per case.  One pass over the arguments with one pending-flag variable F, a mapping M
    and a list U.  For an argument A:   flag(A) ∧ F≠None → U.append(F), F:=A;   flag(A) ∧ F=None → F:=A;
    ¬flag(A) ∧ F≠None → M[key(F)] = coerce(A), F:=None;   ¬flag(A) ∧ F=None → U.append(A).   After the loop: F≠None →
    U.append(F).   Result (M, U).   Any spelling of the conditions / branches / helpers is accepted, any other effect is not."""
    fn = repo.func('replicat.utils.cli', 'parse_cli_settings')
    if fn is None:
        raise NotRec('parse_cli_settings not found')
    if len(fn.node.args.args) != 1 or fn.node.args.vararg or fn.node.args.kwonlyargs or fn.node.args.kwarg:
        raise NotRec('signature')
    P = F.mk('p', fn.node.args.args[0].arg)
    ex = F.Exec(repo)
    ret = ex.run(fn)
    if len(ex.loops) != 1:
        raise NotRec(f'{len(ex.loops)} loops (expected one pass over the arguments)')
    L = next(iter(ex.loops.values()))
    index = None
    it, elem = L['iter'], L['elem']
    if L['kind'] == 'while':
        # `i = 0; while i < len(args): arg = args[i]; i += 1; …` — the same pass, spelled with an index
        c = L['cond']
        if c is not None and c.op == 'cmp' and c.a[0] in ('<', '>'):
            lo, hi = (c.a[1], c.a[2]) if c.a[0] == '<' else (c.a[2], c.a[1])
            if lo.op == 'lv' and lo.a[0] == L['id'] and F.is_k(L['init'].get(lo.a[1]), 0) and hi.op == 'call' \
                    and F.callee_name(hi.a[0]) == 'len' and list(hi.a[1]) == [P]:
                index = lo
        if index is None:
            raise NotRec('not a pass over the argument list')
        A = ex.item(P, index)
    elif it is P or (it.op == 'call' and F.callee_name(it.a[0]) in ('iter', 'list', 'tuple') and list(it.a[1]) == [P] and not it.a[2]):
        A = elem
    elif it.op == 'call' and F.callee_name(it.a[0]) == 'enumerate' and list(it.a[1]) == [P] and not it.a[2]:
        A = ex.item(elem, F.K(1))
    elif it.op == 'call' and F.callee_name(it.a[0]) == 'range' and len(it.a[1]) == 1 and it.a[1][0].op == 'call' \
            and F.callee_name(it.a[1][0].a[0]) == 'len' and list(it.a[1][0].a[1]) == [P]:
        A = ex.item(P, elem)
    else:
        raise NotRec('the loop does not run over the argument list: ' + F.show(it)[:80])
    flags = [v for v, init in L['init'].items() if F.is_k(init, None)]
    if len(flags) != 1:
        raise NotRec('pending-flag variable not found')
    fname = flags[0]
    Fl = F.mk('lv', L['id'], fname)           # the pending flag at the start of an iteration
    Fo = F.mk('lo', L['id'], fname)           # … after the loop
    if not (ret.op == 'tuple' and len(ret.a[0]) == 2):
        raise NotRec('result is not a pair')
    M, U = _base(ret.a[0][0]), ret.a[0][1]
    if not (M.op == 'dict' and not M.a[0] and U.op == 'list' and not U.a[0]):
        raise NotRec('result is not (fresh dict, fresh list)')
    # the prefix test: the one condition on A that is a startswith
    prefix_atom = None
    for e in ex.events:
        for at in F.atoms(e.pc):
            t = at.a[0] if at.op == 'truthy' else None
            if t is not None and t.op == 'call' and F.split_method(t.a[0]) is not None and F.split_method(t.a[0])[1] == 'startswith' \
                    and F.split_method(t.a[0])[0] is A and len(t.a[1]) == 1 and isinstance(F.kval(t.a[1][0]), str) and not t.a[2]:
                if prefix_atom is not None and prefix_atom is not at:
                    raise NotRec('more than one prefix test')
                prefix_atom = at
    if prefix_atom is None:
        raise NotRec('prefix test is not arg.startswith(<literal>)')
    prefix = F.kval(prefix_atom.a[0].a[1][0])
    none_in = F.mk('isnone', Fl)
    none_out = F.mk('isnone', Fo)
    eff = _effects(ex, extra=('append', 'extend', 'insert', 'pop', 'remove', 'clear', 'update', 'setdefault', 'popitem'))
    in_loop = [e for e in eff if ('loop', L['id']) in e.ctx]
    after = [e for e in eff if ('loop', L['id']) not in e.ctx]

    def happens(events, val):
        out = []
        for e in events:
            if _decided(F.relative_pc(e.pc, loop_base), val):
                if e.kind == 'call':
                    recv, meth = F.split_method(e.f)
                    out.append((meth, F.resolve(recv, val), tuple(F.resolve(x, val) for x in e.args)))
                elif e.kind == 'setitem':
                    out.append(('setitem', _base(F.resolve(e.obj, val)), (F.resolve(e.key, val), F.resolve(e.value, val))))
                else:
                    out.append((e.kind, None, ()))
        return out

    upd = L['update'].get(fname)
    if upd is None:
        raise NotRec('the pending flag is never updated')
    step = L['update'].get(index.a[1]) if index is not None else None
    loop_base = (L['cond'],) if index is not None else ()       # inside the body the loop condition holds
    stored = None
    for is_flag in (True, False):
        for pending in (True, False):
            val = F.Val().set(prefix_atom, is_flag).set(none_in, not pending)
            did = happens(in_loop, val)
            nf = F.resolve(upd, val)
            if index is not None and (step is None or F.resolve(step, val) is not F.mk('bin', '+', index, F.K(1))):
                raise NotRec('the index does not advance by one in every case')
            if is_flag:
                want = [('append', U, (Fl,))] if pending else []
                if did != want or nf is not A:
                    raise NotRec(f'flag argument, pending={pending}: does {did}, flag becomes {F.show(nf)}')
            elif pending:
                if len(did) != 1 or did[0][0] != 'setitem' or did[0][1] is not M or not F.is_k(nf, None):
                    raise NotRec(f'value after a flag: does {did}, flag becomes {F.show(nf)}')
                stored = did[0][2]
            else:
                if did != [('append', U, (A,))] or not (nf is Fl or F.is_k(nf, None)):
                    raise NotRec(f'value without a flag: does {did}, flag becomes {F.show(nf)}')
    for pending in (True, False):
        val = F.Val().set(none_out, not pending)
        did = happens(after, val)
        if did != ([('append', U, (Fo,))] if pending else []):
            raise NotRec(f'after the loop, pending={pending}: does {did}')
    kexpr, vexpr = stored
    ops = key_ops_of(kexpr, Fl)
    if ops is None:
        raise NotRec('key expression is not a method chain on the flag: ' + F.show(kexpr)[:80])
    if not (vexpr.op == 'call' and list(vexpr.a[1]) == [A] and not vexpr.a[2]):
        raise NotRec('value is not <coercion>(arg)')
    coercion = _short(F.callee_name(vexpr.a[0]), 'replicat.utils.guess_type', 'guess_type')
    return {'prefix': prefix, 'ops': ops, 'coercion': coercion, 'key_expr': F.show(kexpr).replace(F.show(Fl), fname)}


def exc_names_of(types):
    """the exception classes of a handler as sorted names (`exceptions.X` → `X` only for builtins: they have no module)"""
    if types.op == 'tuple':
        elts = list(types.a[0])
    elif types.op == 'k' and isinstance(types.a[0], tuple):
        raise NotRec('constant exception tuple')
    else:
        elts = [types]
    names = []
    for e in elts:
        n = F.callee_name(e)
        if n is None:
            raise NotRec('exception class ' + F.show(e))
        names.append(n)
    return sorted(names)


def _sep_default(fn):
    kwd = {a.arg: d for a, d in zip(fn.node.args.kwonlyargs, fn.node.args.kw_defaults)}
    pos = fn.node.args.args
    dflts = dict(zip([a.arg for a in pos[len(pos) - len(fn.node.args.defaults):]], fn.node.args.defaults))
    return kwd.get('sep', dflts.get('sep'))


def flat_shape(repo):
    """`flat_to_nested`: for every (key, value) of the flat mapping (sorted or not): parts = key.split(sep); starting at the
    result dict R, `node = node.setdefault(x, {})` for every part but the last, then `node[last] = value` — all of that inside
    one `try` whose handler raises; R is returned.  Accepted in any spelling (slices / starred unpacking, helper functions,
    renamed locals); anything else that has an effect is not."""
    fn = repo.func('replicat.utils', 'flat_to_nested')
    if fn is None:
        raise NotRec('flat_to_nested not found')
    sepdef = _sep_default(fn)
    sep = const_str(sepdef) if sepdef is not None else None
    if sep is None or len(sep) != 1:
        raise NotRec('separator default is not a single character')
    ex = F.Exec(repo)
    ret = ex.run(fn)
    FLAT, SEP = F.mk('p', fn.node.args.args[0].arg), F.mk('p', 'sep')
    R = _base(ret)
    if not (R.op == 'dict' and not R.a[0]):
        raise NotRec('the result is not a fresh dict')
    loops = sorted(ex.loops.values(), key=lambda l: l['id'])
    outer = [l for l in loops if not any(c[0] == 'loop' for c in l['ctx'])]
    if len(outer) != 1 or len(loops) != 2 or outer[0]['kind'] != 'for':
        raise NotRec('expected one loop over the items with one descent loop inside')
    L1 = outer[0]
    L2 = [l for l in loops if l is not L1][0]
    if ('loop', L1['id']) not in L2['ctx'] or L2['kind'] != 'for':
        raise NotRec('descent loop is not inside the item loop')
    it = L1['iter']
    is_sorted = False
    if it.op == 'call' and F.callee_name(it.a[0]) == 'sorted' and len(it.a[1]) == 1 and not it.a[2]:
        is_sorted, it = True, it.a[1][0]
    e1 = L1['elem']
    if it.op == 'call' and F.split_method(it.a[0]) == (FLAT, 'items') and not it.a[1] and not it.a[2]:
        KEY, VALUE = ex.item(e1, F.K(0)), ex.item(e1, F.K(1))
    elif it is FLAT or (it.op == 'call' and F.split_method(it.a[0]) == (FLAT, 'keys') and not it.a[1]):
        KEY, VALUE = e1, ex.item(FLAT, e1)
    else:
        raise NotRec('iteration is neither sorted(flat.items()) nor flat.items(): ' + F.show(L1['iter'])[:80])
    # the descent
    split = None
    anc = L2['iter']
    if anc.op == 'slice' and F.is_k(anc.a[1], 0) and F.is_k(anc.a[2], -1) and F.is_k(anc.a[3], None):
        split = anc.a[0]
    if split is None or not (split.op == 'call' and F.split_method(split.a[0]) == (KEY, 'split') and list(split.a[1]) == [SEP] and not split.a[2]):
        raise NotRec('descent does not run over key.split(sep)[:-1]: ' + F.show(anc)[:80])
    cur = [v for v, t in L2['update'].items() if t.op == 'call' and F.split_method(t.a[0]) is not None and F.split_method(t.a[0])[1] == 'setdefault']
    if len(cur) != 1:
        raise NotRec('descent step is not node = node.setdefault(part, {})')
    cname = cur[0]
    step = L2['update'][cname]
    lv, lo = F.mk('lv', L2['id'], cname), F.mk('lo', L2['id'], cname)
    if not (F.split_method(step.a[0])[0] is lv and len(step.a[1]) == 2 and step.a[1][0] is L2['elem'] and step.a[1][1].op == 'dict'
            and not step.a[1][1].a[0] and not step.a[2]):
        raise NotRec('descent step is not node = node.setdefault(part, {}): ' + F.show(step)[:80])
    if L2['init'].get(cname) is not R:
        raise NotRec('descent does not start at the result dict')
    eff = _effects(ex, extra=('update', 'pop', 'clear', 'popitem', 'append', 'setdefault', '__setitem__'))
    stores = [e for e in eff if e.kind == 'setitem']
    raises = [e for e in eff if e.kind == 'raise']
    steps = [e for e in eff if e.kind == 'call' and e.result is step]
    if len(stores) != 1 or len(raises) != 1 or len(steps) != 1 or len(eff) != 3:
        raise NotRec('effects other than the descent step, one item store and one raise: ' + repr(eff)[:160])
    st, rs = stores[0], raises[0]
    last = F.mk('item', split, F.K(-1))
    if not (st.obj is lo and st.key is last and st.value is VALUE and F.truth(st.pc, F.Val()) is True):
        raise NotRec('store is not node[last part] = value: ' + repr(st)[:120])
    tries = [c[1] for c in st.ctx if c[0] == 'try']
    tn = [t for t in tries if ('try', t) in L2['ctx']]
    if not tn:
        raise NotRec('descent and store are not inside one try')
    hs = [c for c in rs.ctx if c[0] == 'handler' and c[1] in tn]
    if not hs:
        raise NotRec('the raise is not in the handler of that try')
    types = None
    for at in F.atoms(rs.pc):
        t = at.a[0] if at.op == 'truthy' else at
        if t.op == 'exc' and t.a[0] == hs[0][1] and t.a[1] == hs[0][2]:
            types = t.a[2]
    if types is None:
        raise NotRec('handler condition not found')
    exc = rs.value
    if not (exc.op == 'call'):
        raise NotRec('handler does not raise a new exception')
    raised = (F.callee_name(exc.a[0]) or '?').split('.')[-1]
    msg = F.kval(exc.a[1][0]) if exc.a[1] and isinstance(F.kval(exc.a[1][0]), str) else ''
    return {'sep': sep, 'sorted': is_sorted, 'catches': exc_names_of(types), 'raises': raised, 'message': msg}


def guess_shape(repo):
    """`guess_type(v)` by its result per case: [v is not a str → v];  w = v.title() if v.lower() in WORDS else v;
    EVAL(w) unless one of CATCHES is raised, then the text"""
    fn = repo.func('replicat.utils', 'guess_type')
    if fn is None:
        raise NotRec('guess_type not found')
    V = F.mk('p', fn.node.args.args[0].arg)
    ex = F.Exec(repo)
    ex.run(fn)
    rets = [e for e in ex.events if e.kind == 'return' and not any(c[0] in ('call', 'cb') for c in e.ctx)]
    eff = _effects(ex, extra=())
    if eff:
        raise NotRec('guess_type has effects: ' + repr(eff)[:120])
    all_atoms = F.atoms(*[e.pc for e in rets]) + [a for a in F.phi_atoms(*[e.value for e in rets])]
    is_str = words_atom = exc_atom = None
    for at in all_atoms:
        t = at.a[0] if at.op == 'truthy' else at
        if t.op == 'call' and F.callee_name(t.a[0]) == 'isinstance' and list(t.a[1]) == [V, F.mk('g', 'str')]:
            is_str = at
        elif at.op == 'in' and at.a[0].op == 'call' and F.split_method(at.a[0].a[0]) == (V, 'lower') and not at.a[0].a[1] \
                and F.is_k(at.a[1]) and isinstance(at.a[1].a[0], (frozenset, tuple)):
            words_atom = at
        elif t.op == 'exc':
            if exc_atom is not None:
                raise NotRec('more than one handler')
            exc_atom = at
        else:
            raise NotRec('unmodelled condition: ' + F.show(at)[:80])
    if words_atom is None or exc_atom is None:
        raise NotRec('title test / try not found')
    words = sorted(words_atom.a[1].a[0])
    if not all(isinstance(w, str) and w and all('a' <= c <= 'z' for c in w) for w in words):
        raise NotRec('title words are not lower-case ASCII letters')
    try_id = exc_atom.a[0].a[0] if exc_atom.op == 'truthy' else exc_atom.a[0]
    titled = None
    evalfn = None

    def result(val, caught):
        for e in rets:
            if caught and ('try', try_id) in e.ctx:
                continue          # the exception interrupted the body of the try
            if _decided(e.pc, val):
                return F.resolve(e.value, val)
        raise NotRec('no result in some case')
    for s in ((True, False) if is_str is not None else (True,)):
        for w in (True, False):
            for x in (True, False):
                val = F.Val().set(words_atom, w).set(exc_atom, x)
                if is_str is not None:
                    val.set(is_str, s)
                r = result(val, x)
                if not s:
                    if r is not V:
                        raise NotRec('non-str value is not passed through')
                    continue
                text = V
                if w:
                    if titled is None:
                        # whatever the evaluator is applied to in this case must be v.title()
                        pass
                    text = None
                if x:
                    if not (r is V or (w and r.op == 'call' and F.split_method(r.a[0]) == (V, 'title'))):
                        raise NotRec('fallback is not the text itself: ' + F.show(r)[:80])
                    continue
                if not (r.op == 'call' and len(r.a[1]) == 1 and not r.a[2]):
                    raise NotRec('result is not <eval>(text): ' + F.show(r)[:80])
                arg = r.a[1][0]
                if w:
                    if not (arg.op == 'call' and F.split_method(arg.a[0]) == (V, 'title') and not arg.a[1] and not arg.a[2]):
                        raise NotRec('listed words are not title-cased before evaluation')
                elif arg is not V:
                    raise NotRec('other words are changed before evaluation: ' + F.show(arg)[:80])
                name = F.callee_name(r.a[0])
                if evalfn is not None and evalfn != name:
                    raise NotRec('two evaluators')
                evalfn = name
    t = exc_atom.a[0] if exc_atom.op == 'truthy' else exc_atom
    return {'words': words, 'eval': evalfn or '?', 'catches': exc_names_of(t.a[2])}


def _main_policy(target, ex):
    """follow the helpers of __main__.py, but not the command handler (the coroutine function handed to `asyncio.run`)"""
    return target.nested or (target.module.fq == 'replicat.__main__' and not isinstance(target.node, ast.AsyncFunctionDef))


def main_chain(repo):
    """The part of `main()` that moves the custom settings, by behaviour per case (U0 = unknown words of the second parse,
    U1 = what `parse_cli_settings` leaves unknown):
        settings = flat_to_nested(flat)  iff  U0 ∧ action ∈ ACTIONS ∧ ¬U1,   else None;
        parser.error(…)                  iff  the words still unknown (U1 in the first case, else U0) are non-empty;
        then the handler runs with `settings`."""
    fmain = repo.func('replicat.__main__', 'main')
    if fmain is None:
        raise NotRec('main not found')
    ex = F.Exec(repo, inline=_main_policy)
    ex.run(fmain)
    none = F.Val()
    calls = [e for e in ex.events if e.kind == 'call']
    mk_parser = [e for e in calls if e.fq() == 'replicat.utils.cli.make_main_parser']
    if len(mk_parser) != 1:
        raise NotRec('make_main_parser call')
    parser = mk_parser[0].result
    second = [e for e in calls if F.method_call(e, 'parse_known_args') is not None and F.resolve(F.method_call(e, 'parse_known_args'), none) is parser]
    if len(second) != 1 or second[0].arg(1, 'namespace') is None:
        raise NotRec('second parse (parse_known_args(namespace=…) of the main parser)')
    steps = ['.secondParse']
    U0 = ex.item(second[0].result, F.K(1))
    pcs = [e for e in calls if e.fq() == 'replicat.utils.cli.parse_cli_settings']
    nests = [e for e in calls if e.fq() == 'replicat.utils.flat_to_nested']
    errs = [e for e in calls if F.method_call(e, 'error') is not None and F.resolve(F.method_call(e, 'error'), none) is parser]
    # the handler: the coroutine function of __main__.py whose coroutine main() runs (whatever it is called)
    runs = [e for e in calls if e.f.op == 'fn' and not e.inlined and e.f.a[0].module.fq == 'replicat.__main__'
            and isinstance(e.f.a[0].node, ast.AsyncFunctionDef)]
    if len(pcs) != 1 or len(nests) != 1 or len(errs) != 1 or len(runs) != 1:
        raise NotRec(f'chain incomplete: {len(pcs)} parse_cli_settings, {len(nests)} flat_to_nested, {len(errs)} parser.error, {len(runs)} handler calls')
    Pe, Ne, Ee, He = pcs[0], nests[0], errs[0], runs[0]
    handler = He.f.a[0]
    if not (list(Pe.args) == [U0] and not Pe.kwargs):
        raise NotRec('parse_cli_settings is not applied to the unknown words of the second parse')
    FLAT, U1 = ex.item(Pe.result, F.K(0)), ex.item(Pe.result, F.K(1))
    if not (list(Ne.args) == [FLAT] and not Ne.kwargs):
        raise NotRec('flat_to_nested is not applied to the parsed flat settings')
    a0, a1 = F.mk('truthy', U0), F.mk('truthy', U1)
    act = [at for at in F.atoms(Pe.pc) if at.op == 'in' and at.a[0].op == 'attr' and at.a[0].a[1] == 'action'
           and F.is_k(at.a[1]) and isinstance(at.a[1].a[0], (frozenset, tuple))]
    if len(act) != 1 or not all(isinstance(x, str) for x in act[0].a[1].a[0]):
        raise NotRec('action test')
    aA = act[0]
    actions = sorted(aA.a[1].a[0])
    # which parameter of the handler receives the settings
    params = [a.arg for a in handler.node.args.args]
    clean = F.Val().set(a0, True).set(aA, True).set(a1, False)
    hparam, settings = None, None
    for i, a in enumerate(He.args):
        if i < len(params) and F.resolve(a, clean) is Ne.result:
            hparam, settings = params[i], a
    for k, v in He.kwargs:
        if k is not None and F.resolve(v, clean) is Ne.result:
            hparam, settings = k, v
    if hparam is None:
        raise NotRec('custom settings are not handed to _cmd_handler')
    base = second[0].pc        # conditions under which main() gets as far as the second parse: common to everything after it
    rel = {id(e): F.relative_pc(e.pc, base) for e in (Pe, Ne, Ee, He)}
    ok = {'settingsNone': True, 'parseCliSettings': True, 'flatToNestedIfClean': True, 'errorIfUnknown': True}
    for v0 in (True, False):
        for vA in (True, False):
            for v1 in (True, False):
                val = F.Val().set(a0, v0).set(aA, vA).set(a1, v1)
                branch = v0 and vA
                s = F.resolve(settings, val)
                if not branch and not F.is_k(s, None):
                    ok['settingsNone'] = False
                if F.truth(rel[id(Pe)], val) is not branch:
                    ok['parseCliSettings'] = False
                if F.truth(rel[id(Ne)], val) is not (branch and not v1):
                    ok['flatToNestedIfClean'] = False
                if branch and not (s is Ne.result if not v1 else F.is_k(s, None)):
                    ok['flatToNestedIfClean'] = False
                left = v1 if branch else v0
                if F.truth(rel[id(Ee)], val) is not left:
                    ok['errorIfUnknown'] = False
                if left:
                    # what is reported is what is left
                    pass
    if not (Ee.id < He.id and Pe.id < Ne.id < Ee.id and second[0].id < Pe.id):
        ok['errorIfUnknown'] = False
    if rel[id(He)]:
        raise NotRec('the handler runs under a further condition: ' + F.show(rel[id(He)])[:120])
    for k in ('settingsNone', 'parseCliSettings', 'flatToNestedIfClean', 'errorIfUnknown'):
        if ok[k]:
            steps.append('.' + k)
    if not any(e.kind == 'call' and e.id > He.id and any(F.contains(a, He.result) for a in e.args) for e in ex.events):
        raise NotRec('the handler coroutine is never run')
    steps.append('.runHandler')
    # _cmd_handler: which repository methods receive settings=<hparam>, under which action
    hx = F.Exec(repo)
    hx.run(handler)
    HP = F.mk('p', hparam)
    cands = set()
    for e in hx.events:
        for at in F.atoms(e.pc):
            if at.op == 'eq' and at.a[0].op == 'attr' and at.a[0].a[1] == 'action' and isinstance(F.kval(at.a[1]), str):
                cands.add(F.kval(at.a[1]))
            if at.op == 'in' and at.a[0].op == 'attr' and at.a[0].a[1] == 'action' and F.is_k(at.a[1]) and isinstance(at.a[1].a[0], (frozenset, tuple)):
                cands.update(x for x in at.a[1].a[0] if isinstance(x, str))
    passes = []
    for actn in sorted(cands):
        def decide(at, val, actn=actn):
            if at.op == 'eq' and at.a[0].op == 'attr' and at.a[0].a[1] == 'action' and F.is_k(at.a[1]):
                return F.kval(at.a[1]) == actn
            if at.op == 'in' and at.a[0].op == 'attr' and at.a[0].a[1] == 'action' and F.is_k(at.a[1]):
                return actn in at.a[1].a[0]
            return None
        val = F.Val(decide=decide)
        for e in hx.events:
            if e.kind != 'call' or F.truth(e.pc, val) is False:
                continue
            sm = F.split_method(e.f)
            if sm is None:
                continue
            recv = F.resolve(sm[0], val)
            if recv.op == 'call' and F.callee_name(recv.a[0]) == 'replicat.repository.Repository' \
                    and any(k == 'settings' and F.resolve(v, val) is HP for k, v in e.kwargs):
                passes.append((actn, sm[1]))
    return {'steps': steps, 'actions': actions, 'passes': sorted(set(passes))}


def section(ctx):
    emit = ctx.emit
    emit(PRELUDE)
    utils_src = (ctx.REPO / 'replicat' / 'utils' / '__init__.py').read_text()
    cli_src = (ctx.REPO / 'replicat' / 'utils' / 'cli.py').read_text()
    main_src = (ctx.REPO / 'replicat' / '__main__.py').read_text()
    utils_tree, cli_tree, main_tree = ast.parse(utils_src), ast.parse(cli_src), ast.parse(main_src)
    pfn = ctx.find_func(cli_tree, 'parse_cli_settings')
    ffn = ctx.find_func(utils_tree, 'flat_to_nested')
    gfn = ctx.find_func(utils_tree, 'guess_type')
    ctx.fp('cli.parse_cli_settings', pfn)
    ctx.fp('utils.flat_to_nested', ffn)
    ctx.fp('utils.guess_type', gfn)
    ctx.fp('__main__.main', ctx.find_func(main_tree, 'main'))
    repo = F.shared_repo(ctx.REPO)
    # ---- parse loop
    try:
        p = parse_loop(repo)
        ok = True
    except Exception as e:  # noqa: BLE001 — whatever goes wrong in the analysis means "not recognised"
        ctx.notes['settingscli:parse_cli_settings'] = f'not recognised: {e}'
        p = {'prefix': '--', 'ops': [], 'coercion': '?', 'key_expr': '?'}
        ok = False
    emit(f'def cliFlagPrefix : List Char := {lchars(p["prefix"])}')
    emit(f'def cliKeyOps : List CliKeyOp := [{", ".join(p["ops"])}]')
    emit(f'def cliCoercion : String := {lstr(p["coercion"])}')
    emit(f'def cliLoopRecognised : Bool := {"true" if ok else "false"}')
    ctx.notes['settingscli:key_expr'] = p['key_expr']
    # ---- flat_to_nested
    try:
        f = flat_shape(repo)
        ok = True
    except Exception as e:  # noqa: BLE001 — whatever goes wrong in the analysis means "not recognised"
        ctx.notes['settingscli:flat_to_nested'] = f'not recognised: {e}'
        f = {'sep': '.', 'sorted': False, 'catches': [], 'raises': '?', 'message': ''}
        ok = False
    emit(f'def flatSep : Char := {lchar(f["sep"])}')
    emit(f'def flatSorted : Bool := {"true" if f["sorted"] else "false"}')
    emit(f'def flatConflictCatches : List String := {lstrs(f["catches"])}')
    emit(f'def flatConflictRaises : String := {lstr(f["raises"])}')
    emit(f'def flatConflictMessage : String := {lstr(f["message"])}')
    emit(f'def flatDescentRecognised : Bool := {"true" if ok else "false"}')
    # ---- guess_type
    try:
        g = guess_shape(repo)
        ok = True
    except Exception as e:  # noqa: BLE001 — whatever goes wrong in the analysis means "not recognised"
        ctx.notes['settingscli:guess_type'] = f'not recognised: {e}'
        g = {'words': [], 'eval': '?', 'catches': []}
        ok = False
    emit(f'def guessTitleWords : List (List Char) := [{", ".join(lchars(w) for w in g["words"])}]')
    emit(f'def guessEval : String := {lstr(g["eval"])}')
    emit(f'def guessCatches : List String := {lstrs(g["catches"])}')
    emit(f'def guessRecognised : Bool := {"true" if ok else "false"}')
    # ---- main()
    try:
        m = main_chain(repo)
        ok = True
    except Exception as e:  # noqa: BLE001 — whatever goes wrong in the analysis means "not recognised"
        ctx.notes['settingscli:main'] = f'not recognised: {e}'
        m = {'steps': [], 'actions': [], 'passes': []}
        ok = False
    emit(f'def mainCliChain : List CliStep := [{", ".join(m["steps"])}]')
    emit(f'def mainSettingsActions : List String := {lstrs(m["actions"])}')
    emit('def mainHandlerPassesSettings : List (String × String) := [' + ', '.join(f'({lstr(a)}, {lstr(b)})' for a, b in m['passes']) + ']')
    emit(f'def mainChainRecognised : Bool := {"true" if ok else "false"}')
