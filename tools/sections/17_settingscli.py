"""C17 — custom settings WRITTEN ON THE COMMAND LINE (`replicat init … --encryption.kdf.n 16 --hashing.name blake2b`).

Regenerated from /repo on every run (all by AST structure, never by text):

* `replicat/utils/cli.py::parse_cli_settings` — the shape of the loop: the prefix test (`arg.startswith('--')`), the
  bookkeeping of `flag` / `unknown` / `mapping` (flag after flag → unknown, value without flag → unknown, trailing flag →
  unknown, value after flag → `mapping[key] = value`, `flag = None`), the key normalisation expression as a chain of str
  methods on the flag (`flag.lstrip('-').replace('-', '_')` → `[.lstrip ['-'], .replace '-' '_']`; the model INTERPRETS
  that list) and the name of the coercion function applied to the value;
* `replicat/utils/__init__.py::flat_to_nested` — the separator default, whether the items are iterated `sorted(...)`,
  the `*ancestors, attribute = key.split(sep)` / `setdefault` descent / item assignment inside a `try`, the exception
  classes caught and the error raised for them;
* `replicat/utils/__init__.py::guess_type` — the words that are title-cased before evaluation, the evaluator
  (`ast.literal_eval`), the exception classes that make it return the text itself;
* `replicat/__main__.py::main` — the call chain: unknown arguments of the SECOND parse → `cli.parse_cli_settings` →
  (only if nothing is left unknown) `utils.flat_to_nested` → `main_parser.error` if anything is left unknown → handler,
  the set of actions for which this happens, and that `_cmd_handler` hands its `settings` parameter to
  `repository.init / add_key / benchmark` as `settings=`.

Whatever is not recognised sets the corresponding `…Recognised` flag to false (defaults are emitted so that the model still
compiles); `Replicat.C17.cli_shape_bridge` discharges the flags and the extracted values by `decide`, and the theorems use
that bridge — an unrecognised or changed shape makes the proof build fail (reported as a broken obligation).
"""
import ast

PRELUDE = r'''
/-- one str method applied to the flag when `parse_cli_settings` derives the key -/
inductive CliKeyOp where
  | lstrip (chars : List Char)        -- `.lstrip('<chars>')`
  | replace (a b : Char)              -- `.replace('<a>', '<b>')` (single characters)
  | other (what : String)             -- anything else: the model refuses to interpret it (`normKey` is then not the source's)
  deriving DecidableEq, Repr

/-- the statements of `main()` that move the custom settings, in source order -/
inductive CliStep where
  | secondParse            -- `_, unknown_args = main_parser.parse_known_args(namespace=args)`
  | settingsNone           -- `custom_settings = None`
  | parseCliSettings       -- `flat_settings, unknown_args = cli.parse_cli_settings(unknown_args)` under `if unknown_args and args.action in {…}`
  | flatToNestedIfClean    -- `if not unknown_args: custom_settings = utils.flat_to_nested(flat_settings)`
  | errorIfUnknown         -- `if unknown_args: main_parser.error(…)`
  | runHandler             -- `asyncio.run(_cmd_handler(…, custom_settings))`
  deriving DecidableEq, Repr
'''


def lchar(c):
    if c == "'":
        return "'\\''"
    if c == '\\':
        return "'\\\\'"
    if 32 <= ord(c) < 127:
        return f"'{c}'"
    return f'(Char.ofNat {ord(c)})'


def lchars(s):
    return '[' + ', '.join(lchar(c) for c in s) + ']'


def lstr(s):
    import json
    return json.dumps(s, ensure_ascii=False)


def lstrs(xs):
    return '[' + ', '.join(lstr(x) for x in xs) + ']'


def is_name(node, name):
    return isinstance(node, ast.Name) and node.id == name


def const_str(node):
    return node.value if isinstance(node, ast.Constant) and isinstance(node.value, str) else None


def is_none_test(node, var, negated):
    """`var is not None` (negated=True) / `var is None`"""
    return (isinstance(node, ast.Compare) and is_name(node.left, var) and len(node.ops) == 1
            and isinstance(node.ops[0], ast.IsNot if negated else ast.Is)
            and isinstance(node.comparators[0], ast.Constant) and node.comparators[0].value is None)


def is_append(stmt, lst, what):
    """`lst.append(what)` as an expression statement"""
    return (isinstance(stmt, ast.Expr) and isinstance(stmt.value, ast.Call) and isinstance(stmt.value.func, ast.Attribute)
            and stmt.value.func.attr == 'append' and is_name(stmt.value.func.value, lst)
            and len(stmt.value.args) == 1 and is_name(stmt.value.args[0], what) and not stmt.value.keywords)


def assign_to(stmt, name):
    if isinstance(stmt, ast.Assign) and len(stmt.targets) == 1 and is_name(stmt.targets[0], name):
        return stmt.value
    return None


def flush_pending(stmt, flag, unknown):
    """`if flag is not None: unknown.append(flag)`"""
    return (isinstance(stmt, ast.If) and is_none_test(stmt.test, flag, True) and len(stmt.body) == 1
            and is_append(stmt.body[0], unknown, flag) and not stmt.orelse)


def key_ops(expr, flag):
    """`flag.m1(a…).m2(b…)…` → list of Lean CliKeyOp terms (innermost call first), or None"""
    ops = []
    node = expr
    while isinstance(node, ast.Call) and isinstance(node.func, ast.Attribute):
        args = [const_str(a) for a in node.args]
        meth = node.func.attr
        if node.keywords or any(a is None for a in args):
            ops.append(f'.other {lstr(node.func.attr)}')
        elif meth == 'lstrip' and len(args) == 1:
            ops.append(f'.lstrip {lchars(args[0])}')
        elif meth == 'replace' and len(args) == 2 and len(args[0]) == 1 and len(args[1]) == 1:
            ops.append(f'.replace {lchar(args[0])} {lchar(args[1])}')
        else:
            ops.append(f'.other {lstr(meth)}')
        node = node.func.value
    if not is_name(node, flag):
        return None
    return list(reversed(ops))


def parse_loop(fn):
    """→ dict(prefix, ops, coercion) or raises ValueError(reason)"""
    if fn is None:
        raise ValueError('parse_cli_settings not found')
    if len(fn.args.args) != 1:
        raise ValueError('signature')
    argl = fn.args.args[0].arg
    body = [s for s in fn.body if not (isinstance(s, ast.Expr) and isinstance(s.value, ast.Constant))]
    inits = {}
    i = 0
    while i < len(body) and isinstance(body[i], ast.Assign) and len(body[i].targets) == 1 and isinstance(body[i].targets[0], ast.Name):
        inits[body[i].targets[0].id] = body[i].value
        i += 1
    rest = body[i:]
    if len(rest) != 3 or not isinstance(rest[0], ast.For) or not isinstance(rest[2], ast.Return):
        raise ValueError('statement list is not: inits, for, if, return')
    loop, tail, ret = rest
    if not (isinstance(ret.value, ast.Tuple) and len(ret.value.elts) == 2 and all(isinstance(e, ast.Name) for e in ret.value.elts)):
        raise ValueError('return is not a pair of names')
    mapping, unknown = ret.value.elts[0].id, ret.value.elts[1].id
    if not (isinstance(inits.get(mapping), ast.Dict) and not inits[mapping].keys):
        raise ValueError('mapping is not initialised to {}')
    if not (isinstance(inits.get(unknown), ast.List) and not inits[unknown].elts):
        raise ValueError('unknown is not initialised to []')
    flags = [k for k, v in inits.items() if isinstance(v, ast.Constant) and v.value is None]
    if len(flags) != 1 or len(inits) != 3:
        raise ValueError('pending-flag variable not found')
    flag = flags[0]
    if not (is_name(loop.iter, argl) and isinstance(loop.target, ast.Name) and not loop.orelse):
        raise ValueError('loop header')
    arg = loop.target.id
    if len(loop.body) != 1 or not isinstance(loop.body[0], ast.If):
        raise ValueError('loop body is not a single if')
    top = loop.body[0]
    t = top.test
    if not (isinstance(t, ast.Call) and isinstance(t.func, ast.Attribute) and t.func.attr == 'startswith' and is_name(t.func.value, arg)
            and len(t.args) == 1 and const_str(t.args[0]) and not t.keywords):
        raise ValueError('prefix test is not arg.startswith(<literal>)')
    prefix = const_str(t.args[0])
    # flag branch: [flush pending], flag = arg
    fb = top.body
    if not (len(fb) == 2 and flush_pending(fb[0], flag, unknown) and assign_to(fb[1], flag) is not None and is_name(assign_to(fb[1], flag), arg)):
        raise ValueError('flag branch is not: flush pending flag; flag = arg')
    # value branch
    if len(top.orelse) != 1 or not isinstance(top.orelse[0], ast.If):
        raise ValueError('value branch is not a single if/else')
    vb = top.orelse[0]
    if not is_none_test(vb.test, flag, True):
        raise ValueError('value branch does not test the pending flag')
    if not (len(vb.orelse) == 1 and is_append(vb.orelse[0], unknown, arg)):
        raise ValueError('value without flag is not appended to unknown')
    # pairing statements: straight-line, ends with flag = None, contains mapping[<key>] = <value>
    env = {}
    stored = None
    reset = False
    for s in vb.body:
        if isinstance(s, ast.Assign) and len(s.targets) == 1 and isinstance(s.targets[0], ast.Name):
            if s.targets[0].id == flag:
                reset = isinstance(s.value, ast.Constant) and s.value.value is None
            else:
                env[s.targets[0].id] = s.value
        elif (isinstance(s, ast.Assign) and len(s.targets) == 1 and isinstance(s.targets[0], ast.Subscript)
              and is_name(s.targets[0].value, mapping)):
            stored = (s.targets[0].slice, s.value)
        else:
            raise ValueError('unexpected statement in the pairing branch: ' + ast.unparse(s)[:60])
    if not reset or stored is None:
        raise ValueError('pairing branch does not store into the mapping and reset the flag')

    def resolve(e):
        return env[e.id] if isinstance(e, ast.Name) and e.id in env else e
    kexpr, vexpr = resolve(stored[0]), resolve(stored[1])
    ops = key_ops(kexpr, flag)
    if ops is None:
        raise ValueError('key expression is not a method chain on the flag: ' + ast.unparse(kexpr)[:60])
    if not (isinstance(vexpr, ast.Call) and len(vexpr.args) == 1 and is_name(vexpr.args[0], arg) and not vexpr.keywords):
        raise ValueError('value is not <coercion>(arg)')
    coercion = ast.unparse(vexpr.func)
    if not flush_pending(tail, flag, unknown):
        raise ValueError('trailing flag is not appended to unknown')
    return {'prefix': prefix, 'ops': ops, 'coercion': coercion, 'key_expr': ast.unparse(kexpr)}


def exc_names(handler_type):
    if handler_type is None:
        return ['BaseException']
    elts = handler_type.elts if isinstance(handler_type, ast.Tuple) else [handler_type]
    return sorted(ast.unparse(e) for e in elts)


def flat_shape(fn):
    if fn is None:
        raise ValueError('flat_to_nested not found')
    kwd = {a.arg: d for a, d in zip(fn.args.kwonlyargs, fn.args.kw_defaults)}
    pos = fn.args.args
    dflts = dict(zip([a.arg for a in pos[len(pos) - len(fn.args.defaults):]], fn.args.defaults))
    sepdef = kwd.get('sep', dflts.get('sep'))
    sep = const_str(sepdef) if sepdef is not None else None
    if sep is None or len(sep) != 1:
        raise ValueError('separator default is not a single character')
    flat = pos[0].arg
    body = [s for s in fn.body if not (isinstance(s, ast.Expr) and isinstance(s.value, ast.Constant))]
    if not (len(body) == 3 and isinstance(body[0], ast.Assign) and len(body[0].targets) == 1 and isinstance(body[0].targets[0], ast.Name)
            and isinstance(body[1], ast.For) and isinstance(body[2], ast.Return)):
        raise ValueError('statement list is not: root = {}, for, return')
    root = body[0].targets[0].id
    if not (isinstance(body[0].value, ast.Dict) and not body[0].value.keys and is_name(body[2].value, root)):
        raise ValueError('root is not {} / not returned')
    loop = body[1]
    it = loop.iter
    items = f'{flat}.items()'
    if ast.unparse(it) == f'sorted({items})':
        is_sorted = True
    elif ast.unparse(it) == items:
        is_sorted = False
    else:
        raise ValueError('iteration is neither sorted(flat.items()) nor flat.items(): ' + ast.unparse(it)[:60])
    if not (isinstance(loop.target, ast.Tuple) and len(loop.target.elts) == 2 and all(isinstance(e, ast.Name) for e in loop.target.elts)):
        raise ValueError('loop target')
    key, value = (e.id for e in loop.target.elts)
    lb = loop.body
    if len(lb) != 3:
        raise ValueError('loop body is not: split, current = root, try')
    sp = lb[0]
    if not (isinstance(sp, ast.Assign) and isinstance(sp.targets[0], ast.Tuple) and len(sp.targets[0].elts) == 2
            and isinstance(sp.targets[0].elts[0], ast.Starred) and isinstance(sp.targets[0].elts[1], ast.Name)
            and ast.unparse(sp.value) == f'{key}.split(sep)'):
        raise ValueError('split statement is not *ancestors, attribute = key.split(sep)')
    ancestors, attribute = sp.targets[0].elts[0].value.id, sp.targets[0].elts[1].id
    cur = lb[1]
    if not (isinstance(cur, ast.Assign) and isinstance(cur.targets[0], ast.Name) and is_name(cur.value, root)):
        raise ValueError('current = root')
    current = cur.targets[0].id
    tr = lb[2]
    if not (isinstance(tr, ast.Try) and len(tr.body) == 2 and not tr.orelse and not tr.finalbody and len(tr.handlers) == 1):
        raise ValueError('try shape')
    descent, store = tr.body
    if not (isinstance(descent, ast.For) and is_name(descent.iter, ancestors) and isinstance(descent.target, ast.Name) and len(descent.body) == 1
            and ast.unparse(descent.body[0]) == f'{current} = {current}.setdefault({descent.target.id}, {{}})'):
        raise ValueError('descent is not current = current.setdefault(x, {})')
    if ast.unparse(store) != f'{current}[{attribute}] = {value}':
        raise ValueError('store is not current[attribute] = value')
    h = tr.handlers[0]
    if not (len(h.body) == 1 and isinstance(h.body[0], ast.Raise) and isinstance(h.body[0].exc, ast.Call)):
        raise ValueError('handler does not raise')
    raised = ast.unparse(h.body[0].exc.func).split('.')[-1]
    msg = const_str(h.body[0].exc.args[0]) if h.body[0].exc.args else None
    return {'sep': sep, 'sorted': is_sorted, 'catches': exc_names(h.type), 'raises': raised, 'message': msg or ''}


def guess_shape(fn):
    if fn is None:
        raise ValueError('guess_type not found')
    v = fn.args.args[0].arg
    body = [s for s in fn.body if not (isinstance(s, ast.Expr) and isinstance(s.value, ast.Constant))]
    # optional pass-through of non-str values
    if body and isinstance(body[0], ast.If) and ast.unparse(body[0].test) == f'not isinstance({v}, str)' \
            and len(body[0].body) == 1 and isinstance(body[0].body[0], ast.Return) and is_name(body[0].body[0].value, v):
        body = body[1:]
    if len(body) != 2 or not isinstance(body[0], ast.If) or not isinstance(body[1], ast.Try):
        raise ValueError('statement list is not: [non-str passthrough], if …: title, try')
    ti = body[0]
    t = ti.test
    if not (isinstance(t, ast.Compare) and len(t.ops) == 1 and isinstance(t.ops[0], ast.In) and ast.unparse(t.left) == f'{v}.lower()'
            and isinstance(t.comparators[0], (ast.Set, ast.Tuple, ast.List)) and all(const_str(e) is not None for e in t.comparators[0].elts)):
        raise ValueError('title test is not value.lower() in {literals}')
    words = sorted(const_str(e) for e in t.comparators[0].elts)
    if not all(w and all('a' <= c <= 'z' for c in w) for w in words):
        raise ValueError('title words are not lower-case ASCII letters')
    if not (len(ti.body) == 1 and not ti.orelse and ast.unparse(ti.body[0]) == f'{v} = {v}.title()'):
        raise ValueError('title statement')
    tr = body[1]
    if not (len(tr.body) == 1 and isinstance(tr.body[0], ast.Return) and isinstance(tr.body[0].value, ast.Call)
            and len(tr.body[0].value.args) == 1 and is_name(tr.body[0].value.args[0], v) and len(tr.handlers) == 1
            and len(tr.handlers[0].body) == 1 and isinstance(tr.handlers[0].body[0], ast.Return) and is_name(tr.handlers[0].body[0].value, v)
            and not tr.orelse and not tr.finalbody):
        raise ValueError('try shape is not: return <eval>(value) / except …: return value')
    return {'words': words, 'eval': ast.unparse(tr.body[0].value.func), 'catches': exc_names(tr.handlers[0].type)}


def main_chain(tree, ctx):
    main = ctx.find_func(tree, 'main')
    handler = ctx.find_func(tree, '_cmd_handler')
    if main is None or handler is None:
        raise ValueError('main / _cmd_handler not found')
    steps = []
    actions = None
    unknown = settings = parser = flat = None
    for s in main.body:
        # _, unknown_args = main_parser.parse_known_args(namespace=args)
        if (isinstance(s, ast.Assign) and isinstance(s.targets[0], ast.Tuple) and len(s.targets[0].elts) == 2 and isinstance(s.value, ast.Call)
                and isinstance(s.value.func, ast.Attribute) and s.value.func.attr == 'parse_known_args' and isinstance(s.targets[0].elts[1], ast.Name)
                and any(k.arg == 'namespace' for k in s.value.keywords)):
            unknown = s.targets[0].elts[1].id
            parser = ast.unparse(s.value.func.value)
            steps.append('.secondParse')
        elif unknown and isinstance(s, ast.Assign) and isinstance(s.targets[0], ast.Name) and isinstance(s.value, ast.Constant) and s.value.value is None \
                and 'secondParse' in ''.join(steps) and settings is None:
            settings = s.targets[0].id
            steps.append('.settingsNone')
        elif unknown and settings and isinstance(s, ast.If) and isinstance(s.test, ast.BoolOp) and isinstance(s.test.op, ast.And) and len(s.test.values) == 2 \
                and is_name(s.test.values[0], unknown):
            memb = s.test.values[1]
            if not (isinstance(memb, ast.Compare) and len(memb.ops) == 1 and isinstance(memb.ops[0], ast.In) and ast.unparse(memb.left) == 'args.action'
                    and isinstance(memb.comparators[0], (ast.Set, ast.Tuple, ast.List)) and all(const_str(e) for e in memb.comparators[0].elts)):
                raise ValueError('action test')
            actions = sorted(const_str(e) for e in memb.comparators[0].elts)
            inner = [x for x in s.body if not (isinstance(x, ast.Expr) and isinstance(x.value, ast.Call) and ast.unparse(x.value.func).startswith('logger.'))]
            if len(inner) != 2:
                raise ValueError('settings branch is not: parse; if clean: nest')
            p, n = inner
            if not (isinstance(p, ast.Assign) and isinstance(p.targets[0], ast.Tuple) and len(p.targets[0].elts) == 2
                    and isinstance(p.targets[0].elts[0], ast.Name) and is_name(p.targets[0].elts[1], unknown)
                    and isinstance(p.value, ast.Call) and ast.unparse(p.value.func).split('.')[-1] == 'parse_cli_settings'
                    and len(p.value.args) == 1 and is_name(p.value.args[0], unknown)):
                raise ValueError('parse_cli_settings call')
            flat = p.targets[0].elts[0].id
            steps.append('.parseCliSettings')
            if not (isinstance(n, ast.If) and ast.unparse(n.test) == f'not {unknown}' and len(n.body) == 1 and not n.orelse
                    and assign_to(n.body[0], settings) is not None and isinstance(n.body[0].value, ast.Call)
                    and ast.unparse(n.body[0].value.func).split('.')[-1] == 'flat_to_nested'
                    and len(n.body[0].value.args) == 1 and is_name(n.body[0].value.args[0], flat) and not n.body[0].value.keywords):
                raise ValueError('flat_to_nested call')
            steps.append('.flatToNestedIfClean')
        elif unknown and isinstance(s, ast.If) and is_name(s.test, unknown) and len(s.body) == 1 and isinstance(s.body[0], ast.Expr) \
                and isinstance(s.body[0].value, ast.Call) and ast.unparse(s.body[0].value.func) == f'{parser}.error':
            steps.append('.errorIfUnknown')
        elif (isinstance(s, ast.Expr) and isinstance(s.value, ast.Call) and ast.unparse(s.value.func) == 'asyncio.run'
              and s.value.args and isinstance(s.value.args[0], ast.Call) and is_name(s.value.args[0].func, '_cmd_handler')):
            call = s.value.args[0]
            params = [a.arg for a in handler.args.args]
            passed = None
            for i, a in enumerate(call.args):
                if is_name(a, settings) and i < len(params):
                    passed = params[i]
            for k in call.keywords:
                if is_name(k.value, settings):
                    passed = k.arg
            if passed is None:
                raise ValueError('custom settings are not handed to _cmd_handler')
            steps.append('.runHandler')
            hparam = passed
    if actions is None or 'runHandler' not in ''.join(steps):
        raise ValueError('chain incomplete: ' + ' '.join(steps))
    # _cmd_handler: which repository methods receive settings=<hparam>, under which action
    passes = []
    for node in ast.walk(handler):
        if isinstance(node, ast.If):
            t = node.test
            if isinstance(t, ast.Compare) and ast.unparse(t.left) == 'args.action' and len(t.ops) == 1 and isinstance(t.ops[0], ast.Eq) and const_str(t.comparators[0]):
                act = const_str(t.comparators[0])
                for sub in node.body:
                    for c in ast.walk(sub):
                        if isinstance(c, ast.Call) and isinstance(c.func, ast.Attribute) and is_name(c.func.value, 'repository') \
                                and any(k.arg == 'settings' and is_name(k.value, hparam) for k in c.keywords):
                            passes.append((act, c.func.attr))
    return {'steps': steps, 'actions': actions, 'passes': sorted(set(passes))}


def section(ctx):
    emit = ctx.emit
    emit(PRELUDE)
    utils_src = (ctx.REPO / 'replicat' / 'utils' / '__init__.py').read_text()
    cli_src = (ctx.REPO / 'replicat' / 'utils' / 'cli.py').read_text()
    main_src = (ctx.REPO / 'replicat' / '__main__.py').read_text()
    utils_tree, cli_tree, main_tree = ast.parse(utils_src), ast.parse(cli_src), ast.parse(main_src)
    pfn = ctx.find_func(cli_tree, 'parse_cli_settings')
    ffn = ctx.find_func(utils_tree, 'flat_to_nested')
    gfn = ctx.find_func(utils_tree, 'guess_type')
    ctx.fp('cli.parse_cli_settings', pfn)
    ctx.fp('utils.flat_to_nested', ffn)
    ctx.fp('utils.guess_type', gfn)
    ctx.fp('__main__.main', ctx.find_func(main_tree, 'main'))
    # ---- parse loop
    try:
        p = parse_loop(pfn)
        ok = True
    except (ValueError, AttributeError, IndexError, KeyError) as e:
        ctx.notes['settingscli:parse_cli_settings'] = f'not recognised: {e}'
        p = {'prefix': '--', 'ops': [], 'coercion': '?', 'key_expr': '?'}
        ok = False
    emit(f'def cliFlagPrefix : List Char := {lchars(p["prefix"])}')
    emit(f'def cliKeyOps : List CliKeyOp := [{", ".join(p["ops"])}]')
    emit(f'def cliCoercion : String := {lstr(p["coercion"])}')
    emit(f'def cliLoopRecognised : Bool := {"true" if ok else "false"}')
    ctx.notes['settingscli:key_expr'] = p['key_expr']
    # ---- flat_to_nested
    try:
        f = flat_shape(ffn)
        ok = True
    except (ValueError, AttributeError, IndexError, KeyError) as e:
        ctx.notes['settingscli:flat_to_nested'] = f'not recognised: {e}'
        f = {'sep': '.', 'sorted': False, 'catches': [], 'raises': '?', 'message': ''}
        ok = False
    emit(f'def flatSep : Char := {lchar(f["sep"])}')
    emit(f'def flatSorted : Bool := {"true" if f["sorted"] else "false"}')
    emit(f'def flatConflictCatches : List String := {lstrs(f["catches"])}')
    emit(f'def flatConflictRaises : String := {lstr(f["raises"])}')
    emit(f'def flatConflictMessage : String := {lstr(f["message"])}')
    emit(f'def flatDescentRecognised : Bool := {"true" if ok else "false"}')
    # ---- guess_type
    try:
        g = guess_shape(gfn)
        ok = True
    except (ValueError, AttributeError, IndexError, KeyError) as e:
        ctx.notes['settingscli:guess_type'] = f'not recognised: {e}'
        g = {'words': [], 'eval': '?', 'catches': []}
        ok = False
    emit(f'def guessTitleWords : List (List Char) := [{", ".join(lchars(w) for w in g["words"])}]')
    emit(f'def guessEval : String := {lstr(g["eval"])}')
    emit(f'def guessCatches : List String := {lstrs(g["catches"])}')
    emit(f'def guessRecognised : Bool := {"true" if ok else "false"}')
    # ---- main()
    try:
        m = main_chain(main_tree, ctx)
        ok = True
    except (ValueError, AttributeError, IndexError, KeyError) as e:
        ctx.notes['settingscli:main'] = f'not recognised: {e}'
        m = {'steps': [], 'actions': [], 'passes': []}
        ok = False
    emit(f'def mainCliChain : List CliStep := [{", ".join(m["steps"])}]')
    emit(f'def mainSettingsActions : List String := {lstrs(m["actions"])}')
    emit('def mainHandlerPassesSettings : List (String × String) := [' + ', '.join(f'({lstr(a)}, {lstr(b)})' for a, b in m['passes']) + ']')
    emit(f'def mainChainRecognised : Bool := {"true" if ok else "false"}')
