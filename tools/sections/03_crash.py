"""C03: the order constraints the mutation plans of `Repo.lean` encode, and the shape of the local backend's upload, read from the AST.

repository.py
  * `snapshotAfterWorkers`  — in `snapshot` the single `await self._upload_data(location, serialized_snapshot)` comes after the statement
                              that awaits `asyncio.gather(*(_worker() …))` (stage 1 = chunk uploads, stage 2 = the snapshot object);
  * `abortOnWorkerFailure`  — that `gather` sits in `try … except: abort.set(); raise`;
  * `deleteSnapshotsFirst`  — in `delete_snapshots` the `gather` over `_delete_snapshot` precedes the `gather` over `_delete_chunk`,
                              and both come after the last `raise` (all refusals happen before the first mutation);
  * `cleanSingleStage`      — `clean` has exactly one `gather` of deletions.
backends/local.py
  * `localTempSuffix` / `localTempSameDir` — `NamedTemporaryFile(prefix=…, suffix='.tmp', dir=destination.parent, delete=False)`;
  * `localListExcludes`     — the suffix `list_files` skips;
  * `localUploadShape`      — `upload` / `upload_stream`: write to the temporary, then `temp.replace(destination)`, and on any exception
                              `temp.unlink(missing_ok=True)` before re-raising.
"""
import ast


def _stmts_in_order(fn):
    """top-level-first flattening of a function body in source order (does not descend into nested function definitions)"""
    out = []

    def walk(body):
        for st in body:
            out.append(st)
            if isinstance(st, (ast.FunctionDef, ast.AsyncFunctionDef)):
                continue
            for fld in ('body', 'orelse', 'finalbody'):
                sub = getattr(st, fld, None)
                if isinstance(sub, list):
                    walk(sub)
            for h in getattr(st, 'handlers', []) or []:
                walk(h.body)
    walk(fn.body)
    return out


def section(ctx):
    un = ctx.unparse
    rtree = ast.parse((ctx.REPO / 'replicat' / 'repository.py').read_text())
    # ---------------- snapshot
    sn = ctx.find_func(rtree, 'Repository', 'snapshot')
    after, abort_ok = False, False
    if sn is not None:
        sts = _stmts_in_order(sn)
        texts = [un(s) for s in sts]
        ups = [i for i, t in enumerate(texts) if t.startswith('await self._upload_data(')]
        all_ups = [n for n in ast.walk(sn) if isinstance(n, ast.Call) and un(n.func) in ('self._upload_data', 'self.backend.upload')]
        gathers = [i for i, s in enumerate(sts) if isinstance(s, ast.Try) and any(
            un(x) == 'await asyncio.gather(*(_worker() for _ in range(self._concurrent)))' for x in s.body)]
        if len(ups) == 1 and len(all_ups) == 1 and len(gathers) == 1:
            after = gathers[0] < ups[0]
            tr = sts[gathers[0]]
            abort_ok = (len(tr.handlers) == 1 and tr.handlers[0].type is None
                        and [un(x) for x in tr.handlers[0].body] == ['abort.set()', 'raise'])
    if not after:
        ctx.notes['crash.snapshot'] = 'snapshot: snapshot upload after the worker gather not recognised'
    ctx.emit(f'def snapshotAfterWorkers : Bool := {"true" if after else "false"}')
    ctx.emit(f'def crashAbortOnWorkerFailure : Bool := {"true" if abort_ok else "false"}')
    # ---------------- delete
    ds = ctx.find_func(rtree, 'Repository', 'delete_snapshots')
    del_ok = False
    if ds is not None:
        sts = _stmts_in_order(ds)
        texts = [un(s) for s in sts]
        g1 = [i for i, t in enumerate(texts) if t == 'await asyncio.gather(*map(_delete_snapshot, snapshots_locations))']
        g2 = [i for i, t in enumerate(texts) if t == 'await asyncio.gather(*map(_delete_chunk, chunks_to_delete))']
        raises = [i for i, s in enumerate(sts) if isinstance(s, ast.Raise)]
        dels = [n for n in ast.walk(ds) if isinstance(n, ast.Call) and un(n.func) == 'self._delete']
        if len(g1) == 1 and len(g2) == 1 and len(dels) == 2:
            del_ok = g1[0] < g2[0] and all(r < g1[0] for r in raises)
    if not del_ok:
        ctx.notes['crash.delete'] = 'delete_snapshots: snapshots-then-chunks order not recognised'
    ctx.emit(f'def deleteSnapshotsFirst : Bool := {"true" if del_ok else "false"}')
    # ---------------- clean
    cl = ctx.find_func(rtree, 'Repository', 'clean')
    clean_ok = False
    if cl is not None:
        gs = [n for n in ast.walk(cl) if isinstance(n, ast.Call) and un(n.func) == 'asyncio.gather']
        dels = [n for n in ast.walk(cl) if isinstance(n, ast.Call) and un(n.func) == 'self._delete']
        ups = [n for n in ast.walk(cl) if isinstance(n, ast.Call) and 'upload' in un(n.func)]
        clean_ok = len(gs) == 1 and len(dels) == 1 and not ups
    ctx.emit(f'def cleanSingleStage : Bool := {"true" if clean_ok else "false"}')
    # ---------------- local backend
    ltree = ast.parse((ctx.REPO / 'replicat' / 'backends' / 'local.py').read_text())
    for nm in ('upload', 'upload_stream', '_destination_temp', 'list_files', 'exists', 'download', 'delete'):
        ctx.fp(f'local.{nm}', ctx.find_func(ltree, 'Local', nm))
    dt = ctx.find_func(ltree, 'Local', '_destination_temp')
    suffix, same_dir = None, False
    if dt is not None:
        for n in ast.walk(dt):
            if isinstance(n, ast.Call) and un(n.func) == 'NamedTemporaryFile':
                kw = {k.arg: k.value for k in n.keywords}
                if isinstance(kw.get('suffix'), ast.Constant) and isinstance(kw['suffix'].value, str):
                    suffix = kw['suffix'].value
                same_dir = ('dir' in kw and un(kw['dir']) == 'destination.parent' and 'delete' in kw and un(kw['delete']) == 'False')
    import json
    ctx.emit(f'def crashLocalTempSuffix : String := {json.dumps(suffix)}' if suffix is not None else 'opaque crashLocalTempSuffix : String')
    ctx.emit(f'def localTempSameDir : Bool := {"true" if same_dir else "false"}')
    lf = ctx.find_func(ltree, 'Local', 'list_files')
    excl = None
    if lf is not None:
        for n in ast.walk(lf):
            if isinstance(n, ast.If) and isinstance(n.test, ast.Call) and un(n.test.func) == 'path.endswith' and len(n.test.args) == 1 \
                    and isinstance(n.test.args[0], ast.Constant) and [un(x) for x in n.body] == ['continue']:
                excl = n.test.args[0].value
    ctx.emit(f'def localListExcludes : String := {json.dumps(excl)}' if excl is not None else 'opaque localListExcludes : String')

    def shape(fn, writes):
        """try: … <write into temp> … ; temp.replace(destination)  except: … temp.unlink(missing_ok=True) … ; raise
        (other statements such as logging are tolerated; the replace must be the last statement of the try body, after the write)"""
        if fn is None:
            return False
        tries = [s for s in fn.body if isinstance(s, ast.Try)]
        if len(tries) != 1 or 'destination, temp = self._destination_temp(name)' not in [un(x) for x in fn.body]:
            return False
        t = tries[0]
        body = [un(x) for x in t.body]
        w = [i for i, x in enumerate(body) if writes(x)]
        if not w or body[-1] != 'temp.replace(destination)' or len(t.handlers) != 1 or t.handlers[0].type is not None:
            return False
        if any('destination' in x for x in body[:-1]):      # nothing touches the destination before the replace
            return False
        h = [un(x) for x in t.handlers[0].body]
        return 'temp.unlink(missing_ok=True)' in h and h[-1] == 'raise'
    up = shape(ctx.find_func(ltree, 'Local', 'upload'), lambda x: x == 'temp.write_bytes(data)')
    ups = shape(ctx.find_func(ltree, 'Local', 'upload_stream'),
                lambda x: x.startswith("with temp.open('wb') as file:") and 'shutil.copyfileobj(stream, file, length=chunk_size)' in x)
    if not (up and ups):
        ctx.notes['crash.local'] = f'local upload shape not recognised (upload={up}, upload_stream={ups})'
    ctx.emit(f'def localUploadShape : Bool := {"true" if (up and ups) else "false"}')
