"""C03: the order constraints the mutation plans of `Repo.lean` encode, and the shape of the local backend's upload, read from the AST.

repository.py  (queries over the symbolically executed commands: what reaches `self.backend.<op>`, in which awaited gather)
  * `snapshotAfterWorkers`  — in `snapshot` every chunk upload is run by ONE awaited `asyncio.gather`; the only other upload (one
                              location, outside every loop — the snapshot object) is invoked after that await (stage 1, stage 2);
  * `abortOnWorkerFailure`  — that await sits in a `try` whose catch-all handler sets the Event the producer polls, and re-raises;
  * `deleteSnapshotsFirst`  — in `delete_snapshots` the deletions of non-chunk locations are one awaited gather that completes before
                              any deletion of a location built from CHUNK_PREFIX (a second awaited gather); every `raise` of the
                              method itself happens before the first deletion (all refusals precede the first mutation);
  * `cleanSingleStage`      — `clean`: all deletions are one awaited gather, nothing is uploaded.
backends/local.py
  (recognised on the symbolically executed methods — `tools/symflow.py`; the queries are `symfacts.local_upload_shape` /
   `symfacts.local_listing`; independent of names, helper boundaries, branch order, hoisted constants, added logging)
  * `crashLocalTempSuffix` / `localTempSameDir` — the temporary whose rename publishes the object is created (NamedTemporaryFile /
                              mkstemp) with this constant suffix, `dir=` the parent of the rename's destination, `delete=False`;
  * `localListExcludes`     — the suffix S such that every path `list_files` yields is guarded by `not <that path>.endswith(S)`;
  * `localUploadShape`      — `upload` / `upload_stream`: the payload is written into the temporary, then ONE rename temporary →
                              destination is the last effect of the `try` body, the destination itself is not touched before, and the
                              catch-all handler unconditionally unlinks the temporary (tolerating its absence) and re-raises.
"""
import ast

import symflow as sf
import symfacts


def _own(e):
    return not any(c[0] in ('inline', 'deferred') for c in e.ctx)


def _group_ids(e):
    """ids of the comprehensions / map() applications the event happens in (one element of a gathered batch)"""
    return {c[1] for c in e.ctx if c[0] in ('comp', 'for')}


def _gathers(events):
    """[(gather call event, its await event or None, ids of the batches it is given)] for every `asyncio.gather` that PROPAGATES the
    first exception of its batch (no `return_exceptions=True`: a stage that swallows failures is no barrier for the next one)"""
    out = []
    for e in events:
        g = sf.global_call(e.value, ('asyncio.gather',)) if e.kind == 'call' else None
        if g is not None and g[2].get('return_exceptions', sf.FALSE) == sf.FALSE and '**' not in g[2]:
            ids = {t[3] for t in sf.subterms(e.value) if t[0] == 'comp'}
            aw = next((x for x in events if x.kind == 'await' and x.seq > e.seq and x.value == e.value), None)
            out.append((e, aw, ids))
    return out


def _stage(events, invs, gathers):
    """the awaited gather that runs every one of these backend invocations → (gather event, await event) or None"""
    found = set()
    for e, _, _ in invs:
        mine = [(g, aw) for g, aw, ids in gathers if ids & _group_ids(e) and g.seq > e.seq]
        if not mine or mine[0][1] is None:
            return None
        found.add((mine[0][0].seq, mine[0][1].seq))
    if len(found) != 1:
        return None
    gs, aws = next(iter(found))
    return events[gs], events[aws]


def snapshot_order(interp):
    """`snapshot`:
       after  — every chunk upload (`backend.upload_stream` / `upload` inside the batch of workers) is run by ONE awaited
                `asyncio.gather`, and the only other upload (the snapshot object: one location, outside every loop) is invoked after
                that await;
       abort  — that await sits in a `try` whose catch-all handler sets the `threading.Event` the chunk producer polls
                (`is_set()`), and re-raises."""
    out = {'after': False, 'abort': False, 'why': ''}
    events, _ = interp.run('snapshot')
    if not events:
        return out
    ups = symfacts.invocations_of(events, 'upload') + symfacts.invocations_of(events, 'upload_stream')
    gathers = _gathers(events)
    batch = [u for u in ups if any(ids & _group_ids(u[0]) for _, _, ids in gathers)]
    single = [u for u in ups if u not in batch]
    if not batch or not single:
        out['why'] = f'{len(batch)} batched and {len(single)} single uploads'
        return out
    st = _stage(events, batch, gathers)
    if st is None:
        out['why'] = 'the chunk uploads are not run by one awaited gather'
        return out
    g, aw = st
    locs = {symfacts.arg_of(a, k, 0, 'name') for _, a, k in single}
    in_loop = any(c[0] in ('for', 'while', 'comp') for e, _, _ in single for c in e.ctx)
    out['after'] = len(locs) == 1 and not in_loop and all(e.seq > aw.seq for e, _, _ in single)
    if not out['after']:
        out['why'] = 'the snapshot upload is not a single upload after the awaited gather'
    tries = [c[1] for c in aw.ctx if c[0] == 'try-body']
    for tid in reversed(tries):
        hs = interp.trys[tid]['handlers']
        for i, h in enumerate(hs):
            if h['type'] == sf.NONE or (h['type'][0] == 'global' and h['type'][1].split('.')[-1] == 'BaseException'):
                lo, hi = h['events']
                sets = [sf.method_call(e.value, ('set',))[0] for e in events[lo:hi] if e.kind == 'call' and sf.method_call(e.value, ('set',)) is not None
                        and e.guard <= aw.guard]
                polled = {sf.method_call(e.value, ('is_set',))[0] for e in events if e.kind == 'call' and sf.method_call(e.value, ('is_set',)) is not None}
                is_event = lambda t: sf.global_call(t, ('threading.Event',)) is not None  # noqa: E731
                out['abort'] = h['term'] == 'raise' and any(is_event(x) and x in polled for x in sets) \
                    and not any(hs[j]['term'] != 'raise' for j in range(i))
                return out
    return out


def delete_order(interp, chunk_prefix):
    """`delete_snapshots`: the backend deletions fall into two batches — locations built from the chunk prefix (chunks) and the others
    (snapshots) —, each run by one awaited `asyncio.gather`; the await of the snapshot batch precedes every chunk deletion; every
    `raise` and early `return` of the method itself precedes the first deletion."""
    events, _ = interp.run('delete_snapshots')
    if not events:
        return False
    dels = symfacts.invocations_of(events, 'delete')
    is_chunk = lambda inv: chunk_prefix is not None and sf.mentions(symfacts.arg_of(inv[1], inv[2], 0, 'name') or sf.NONE, ('const', chunk_prefix))  # noqa: E731
    chunks = [d for d in dels if is_chunk(d)]
    snaps = [d for d in dels if not is_chunk(d)]
    if not chunks or not snaps:
        return False
    gathers = _gathers(events)
    s1, s2 = _stage(events, snaps, gathers), _stage(events, chunks, gathers)
    if s1 is None or s2 is None or s1[0].seq == s2[0].seq:
        return False
    first = min(e.seq for e, _, _ in dels)
    raises = [e for e in events if _own(e) and e.kind == 'raise']
    return s1[1].seq < min(e.seq for e, _, _ in chunks) and all(e.seq < first for e in raises)


def clean_single_stage(interp):
    """`clean`: all backend deletions are one batch run by one awaited gather; nothing is uploaded"""
    events, _ = interp.run('clean')
    if not events:
        return False
    dels = symfacts.invocations_of(events, 'delete')
    ups = symfacts.invocations_of(events, 'upload') + symfacts.invocations_of(events, 'upload_stream')
    if not dels or ups:
        return False
    return _stage(events, dels, _gathers(events)) is not None and len({symfacts.arg_of(a, k, 0, 'name') for _, a, k in dels}) == 1


def section(ctx):
    src = (ctx.REPO / 'replicat' / 'repository.py').read_text()
    mod = sf.Module(src)

    def guarded(what, fn, default):
        try:
            return fn(sf.Interp(mod, 'Repository'))
        except Exception as e:  # noqa: BLE001
            ctx.notes['crash.' + what] = f'query failed: {e!r}'
            return default
    # ---------------- snapshot
    so = guarded('snapshot', snapshot_order, {'after': False, 'abort': False, 'why': 'failed'})
    after, abort_ok = bool(so['after']), bool(so['abort'])
    if not after:
        ctx.notes['crash.snapshot'] = 'snapshot: snapshot upload after the worker gather not recognised: ' + so.get('why', '')
    ctx.emit(f'def snapshotAfterWorkers : Bool := {"true" if after else "false"}')
    ctx.emit(f'def crashAbortOnWorkerFailure : Bool := {"true" if abort_ok else "false"}')
    # ---------------- delete
    prefix = None
    try:
        prefix = ast.literal_eval(sf.class_assigns(mod.classes['Repository'])['CHUNK_PREFIX'])
    except Exception:  # noqa: BLE001
        pass
    del_ok = bool(guarded('delete', lambda it: delete_order(it, prefix), False))
    if not del_ok:
        ctx.notes['crash.delete'] = 'delete_snapshots: snapshots-then-chunks order not recognised'
    ctx.emit(f'def deleteSnapshotsFirst : Bool := {"true" if del_ok else "false"}')
    # ---------------- clean
    clean_ok = bool(guarded('clean', clean_single_stage, False))
    ctx.emit(f'def cleanSingleStage : Bool := {"true" if clean_ok else "false"}')
    # ---------------- local backend (symbolic execution, see tools/symflow.py / tools/symfacts.py)
    ltree = ast.parse((ctx.REPO / 'replicat' / 'backends' / 'local.py').read_text())
    for nm in ('upload', 'upload_stream', '_destination_temp', 'list_files', 'exists', 'download', 'delete'):
        ctx.fp(f'local.{nm}', ctx.find_func(ltree, 'Local', nm))
    import json
    try:
        lf = symfacts.local_facts(ctx.REPO)
    except Exception as e:  # noqa: BLE001
        ctx.notes['crash.local'] = f'symbolic execution of local.py failed: {e!r}'
        lf = {}
    up, ups, listing = lf.get('up') or {}, lf.get('ups') or {}, lf.get('listing') or {}
    # the suffix of the temporary both upload paths create (it must be ONE creation site semantically: same suffix, same directory)
    suffix = up.get('suffix') if up.get('suffix') is not None and up.get('suffix') == ups.get('suffix') else None
    same_dir = bool(up.get('same_dir')) and bool(ups.get('same_dir'))
    ctx.emit(f'def crashLocalTempSuffix : String := {json.dumps(suffix)}' if suffix is not None else 'opaque crashLocalTempSuffix : String')
    ctx.emit(f'def localTempSameDir : Bool := {"true" if same_dir else "false"}')
    excl = listing.get('exclude')
    if excl is None:
        ctx.notes['crash.local.list'] = 'list_files: ' + (listing.get('why') or 'not recognised')
    ctx.emit(f'def localListExcludes : String := {json.dumps(excl)}' if excl is not None else 'opaque localListExcludes : String')
    if not (up.get('ok') and ups.get('ok')):
        ctx.notes['crash.local'] = f'local upload shape not recognised (upload: {up.get("why") or up.get("ok")}; upload_stream: {ups.get("why") or ups.get("ok")})'
    ctx.emit(f'def localUploadShape : Bool := {"true" if (up.get("ok") and ups.get("ok")) else "false"}')
