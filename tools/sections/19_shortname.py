"""C19 plug-in of the extractor: WHICH NAME prefixes the environment variables of a backend's options.

`config.backend_env_option(cls, name)` = `f'{cls.short_name}_{name}'.upper()`; `cls.short_name` is computed once per class by
`Backend.__init_subclass__` from the class keyword `short_name=` and, when that is missing, from a FALLBACK expression.  The
fallback decides whether a backend class that derives from another concrete backend (S3 from S3Compatible; a custom backend
from Local / S3Compatible / another custom backend) has a name of its OWN — the documented `<CLASS NAME>_<OPTION>` — or takes
over the name that `__init_subclass__` stored on its parent.

Emitted (namespace `Replicat.Gen`):
  * `OptShortNameRule` / `optShortNameRule` — the fallback, classified from the AST of `Backend.__init_subclass__`:
      `.className`      `cls.__name__`
      `.ownAttr`        the class's OWN `short_name` attribute (`cls.__dict__` / `vars(cls)`), else `cls.__name__`
      `.inheritedAttr`  `getattr(cls, 'short_name', …)` — sees the attribute stored on a PARENT class — else `cls.__name__`
      `.other`          anything else (also: the keyword is not taken first, the result is not stored in `cls.short_name`)
    `Options.shortNameOf` interprets it; `C19.env_name_never_inherited` needs it to be one of the first two.
  * `optBackendEnvJoinRecognised` — `backend_env_option` has the shape above (short name, '_', option, upper-cased).
  * `optShippedBackendClasses` — for every shipped backend module: the chain of class declarations from `Client` up to (not
    including) `Backend`, each (class name, `short_name=` keyword, plain `short_name` class attribute), read from the ASTs of
    `replicat/backends/*.py`; `C19.shipped_backend_env_names` ties the environment variables of the generated option table
    (taken from the live parsers) to what the model computes from these declarations.
"""
import ast


def _norm(node):
    return ast.unparse(node).replace('"', "'").replace(' ', '')


def classify_fallback(expr):
    s = _norm(expr)
    if s == 'cls.__name__':
        return 'className'
    own = ("cls.__dict__.get('short_name')orcls.__name__", "cls.__dict__.get('short_name',None)orcls.__name__",
           "cls.__dict__.get('short_name',cls.__name__)", "vars(cls).get('short_name')orcls.__name__",
           "vars(cls).get('short_name',None)orcls.__name__", "vars(cls).get('short_name',cls.__name__)")
    if s in own:
        return 'ownAttr'
    inherited = ("getattr(cls,'short_name',None)orcls.__name__", "getattr(cls,'short_name',cls.__name__)",
                 "getattr(cls,'short_name','')orcls.__name__")
    if s in inherited:
        return 'inheritedAttr'
    return 'other'


def short_name_rule(ctx, fn):
    """`fn` = AST of Backend.__init_subclass__"""
    if fn is None:
        return 'other', '__init_subclass__ not found'
    a = fn.args
    params = [x.arg for x in a.posonlyargs + a.args + a.kwonlyargs]
    if 'short_name' not in params or not params or params[0] != 'cls':
        return 'other', 'no short_name parameter'
    pos = a.posonlyargs + a.args
    defaults = dict(zip([x.arg for x in pos[len(pos) - len(a.defaults):]], a.defaults))
    defaults.update({k.arg: d for k, d in zip(a.kwonlyargs, a.kw_defaults) if d is not None})
    d = defaults.get('short_name')
    if not (isinstance(d, ast.Constant) and d.value is None):
        return 'other', 'short_name does not default to None'
    fallback, stored = None, 0

    def kw_else(expr):
        """`expr` = "the keyword when given, else X" in one of the usual spellings → X (AST), else None"""
        if isinstance(expr, ast.IfExp):
            t = _norm(expr.test)
            if t == 'short_nameisNone' and _norm(expr.orelse) == 'short_name':
                return expr.body
            if t == 'short_nameisnotNone' and _norm(expr.body) == 'short_name':
                return expr.orelse
        if isinstance(expr, ast.BoolOp) and isinstance(expr.op, ast.Or) and len(expr.values) == 2 and _norm(expr.values[0]) == 'short_name':
            return expr.values[1]
        return None

    for st in fn.body:
        names = {n.id for n in ast.walk(st) if isinstance(n, ast.Name) and isinstance(n.ctx, ast.Store)}
        attrs = {n.attr for n in ast.walk(st) if isinstance(n, ast.Attribute) and isinstance(n.ctx, ast.Store)
                 and isinstance(n.value, ast.Name) and n.value.id == 'cls'}
        if 'short_name' in names:
            x = None
            if (isinstance(st, ast.If) and _norm(st.test) == 'short_nameisNone' and not st.orelse and len(st.body) == 1
                    and isinstance(st.body[0], ast.Assign) and len(st.body[0].targets) == 1
                    and isinstance(st.body[0].targets[0], ast.Name) and st.body[0].targets[0].id == 'short_name'):
                x = st.body[0].value
            elif (isinstance(st, ast.Assign) and len(st.targets) == 1 and isinstance(st.targets[0], ast.Name)
                  and st.targets[0].id == 'short_name'):
                x = kw_else(st.value)
            if x is None or stored or fallback is not None:
                return 'other', 'short_name is assigned in an unrecognised way: ' + ast.unparse(st)[:80]
            fallback = x
        if 'short_name' in attrs:
            if not (isinstance(st, ast.Assign) and len(st.targets) == 1 and _norm(st.targets[0]) == 'cls.short_name') or stored:
                return 'other', 'cls.short_name is assigned in an unrecognised way: ' + ast.unparse(st)[:80]
            if _norm(st.value) != 'short_name':
                x = kw_else(st.value)
                if x is None or fallback is not None:
                    return 'other', 'cls.short_name is assigned in an unrecognised way: ' + ast.unparse(st)[:80]
                fallback = x
            stored += 1
    if stored != 1 or fallback is None:
        return 'other', f'{stored} assignments to cls.short_name, fallback {"not " if fallback is None else ""}found'
    rule = classify_fallback(fallback)
    return rule, 'fallback: ' + ast.unparse(fallback)


def class_chain(backends_dir, module, seen=()):
    """[(class name, short_name= keyword | None, plain class attribute | None)] from the class `Client` names in
    `<module>.py` up to (not including) `Backend`; None when something is not a plain single-inheritance declaration"""
    path = backends_dir / f'{module}.py'
    if module in seen or not path.exists():
        return None
    tree = ast.parse(path.read_text())
    classes = {n.name: n for n in tree.body if isinstance(n, ast.ClassDef)}
    imported = {}     # local name → (module, name there)
    for n in tree.body:
        if isinstance(n, ast.ImportFrom) and n.level == 1 and n.module:
            for al in n.names:
                imported[al.asname or al.name] = (n.module, al.name)
    aliases = {}
    for n in tree.body:
        if isinstance(n, ast.Assign) and len(n.targets) == 1 and isinstance(n.targets[0], ast.Name) and isinstance(n.value, ast.Name):
            aliases[n.targets[0].id] = n.value.id

    def resolve(name, depth=0):
        """→ chain starting at the class bound to `name` in this module"""
        if depth > 8:
            return None
        if name in classes:
            c = classes[name]
            if len(c.bases) != 1 or not isinstance(c.bases[0], ast.Name):
                return None
            kw = None
            for k in c.keywords:
                if k.arg == 'short_name':
                    if not (isinstance(k.value, ast.Constant) and isinstance(k.value.value, str)):
                        return None
                    kw = k.value.value
                elif k.arg is None:
                    return None
            attr = None
            for st in c.body:
                tg = st.targets if isinstance(st, ast.Assign) else [st.target] if isinstance(st, ast.AnnAssign) else []
                if any(isinstance(t, ast.Name) and t.id == 'short_name' for t in tg):
                    if not (isinstance(st.value, ast.Constant) and isinstance(st.value.value, str)):
                        return None
                    attr = st.value.value
            base = c.bases[0].id
            if base == 'Backend' and imported.get('Backend') == ('base', 'Backend'):
                return [(c.name, kw, attr)]
            rest = resolve(base, depth + 1)
            return None if rest is None else [(c.name, kw, attr)] + rest
        if name in aliases:
            return resolve(aliases[name], depth + 1)
        if name in imported:
            mod, there = imported[name]
            if mod == 'base':
                return None
            sub = class_chain(backends_dir, mod, (*seen, module))
            if sub is None:
                return None
            if there == 'Client' or there == sub[0][0]:
                return sub
            return None
        return None

    return resolve('Client')


def lstr(s):
    return '"' + s.replace('\\', '\\\\').replace('"', '\\"') + '"'


def lopt(s):
    return 'none' if s is None else f'some {lstr(s)}'


def section(ctx):
    emit = ctx.emit
    base = ast.parse((ctx.REPO / 'replicat' / 'backends' / 'base.py').read_text())
    fn = ctx.find_func(base, 'Backend', '__init_subclass__')
    ctx.fp('Backend.__init_subclass__', fn)
    rule, why = short_name_rule(ctx, fn)
    emit('/-- how `Backend.__init_subclass__` computes `cls.short_name` when the class keyword `short_name=` is not given -/')
    emit('inductive OptShortNameRule | className | ownAttr | inheritedAttr | other')
    emit('  deriving DecidableEq, Repr, Inhabited')
    emit(f'def optShortNameRule : OptShortNameRule := .{rule}')
    cfg = ast.parse((ctx.REPO / 'replicat' / 'utils' / 'config.py').read_text())
    beo = ctx.find_func(cfg, 'backend_env_option')
    ctx.fp('config.backend_env_option', beo)
    join_ok = False
    if beo is not None and [x.arg for x in beo.args.args] == ['backend_type', 'option_name']:
        body = [s for s in beo.body if not (isinstance(s, ast.Expr) and isinstance(s.value, ast.Constant))]
        join_ok = len(body) == 1 and isinstance(body[0], ast.Return) and \
            _norm(body[0].value) == "f'{backend_type.short_name}_{option_name}'.upper()"
    emit(f'def optBackendEnvJoinRecognised : Bool := {"true" if join_ok else "false"}')
    bdir = ctx.REPO / 'replicat' / 'backends'
    chains = []
    for p in sorted(bdir.glob('*.py')):
        if p.stem in ('base', '__init__'):
            continue
        ch = class_chain(bdir, p.stem)
        if ch is None:
            ctx.notes[f'shortname:{p.stem}'] = 'class declaration chain not recognised'
            continue
        chains.append((p.stem, ch))
    emit('/-- shipped backend module ↦ class declarations from `Client` up to `Backend`: (class name, `short_name=` keyword, plain')
    emit('`short_name` class attribute) -/')
    emit('def optShippedBackendClasses : List (String × List (String × Option String × Option String)) := [' + ', '.join(
        f'({lstr(m)}, [' + ', '.join(f'({lstr(n)}, {lopt(k)}, {lopt(a)})' for n, k, a in ch) + '])' for m, ch in chains) + ']')
    ctx.notes['options:short-name'] = (f'rule={rule} ({why}); env join recognised={join_ok}; chains: '
                                       + '; '.join(m + '=' + '<'.join(n + (f'[{k}]' if k else '') for n, k, _ in ch) for m, ch in chains))
