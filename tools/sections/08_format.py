"""C08: the PARSING side of the location format (`parse_chunk_location`, `parse_snapshot_location`), read from the AST.

The building side (`CHUNK_PREFIX`, `SNAPSHOT_PREFIX`, the `tag[:a] / tag[a:b] / tag[b:]` slicing) is extracted by the main
translator (`Gen.chunkPrefix`, `Gen.snapshotPrefix`, `Gen.chunkLocSplit`, `Gen.snapLocSplit`).  Here: the separator given to
`rpartition`, the separator and `maxsplit` of `rsplit`, and the indices of the parts that are concatenated into the tag.
`ReplicatModel/Format.lean` is parameterised by these; `location_roundtrip` is proved about whatever they currently say.
A shape that is not recognised yields `opaque` constants: the round-trip lemmas then stop compiling (reported), the model still builds.
"""
import ast
import re


def _parse_shape(ctx, fn, prefix_attr):
    """→ (rpartition sep, rsplit sep, maxsplit, [indices]) or None"""
    if fn is None:
        return None
    stmts = [ctx.unparse(s) for s in fn.body if not (isinstance(s, ast.Expr) and isinstance(getattr(s, 'value', None), ast.Constant))]
    if len(stmts) != 4:
        return None
    guard, part, split, ret = stmts
    if not re.fullmatch(r"if not location\.startswith\(self\.%s\):\n\s+raise ValueError\(.*\)" % prefix_attr, guard):
        return None
    m1 = re.fullmatch(r"head, _, name = location\.rpartition\('(.)'\)", part)
    m2 = re.fullmatch(r"parts = head\.rsplit\('(.)', (\d+)\)", split)
    m3 = re.fullmatch(r"return LocationParts\(name=name, tag=(parts\[\d+\](?: \+ parts\[\d+\])*)\)", ret)
    if not (m1 and m2 and m3):
        return None
    idx = [int(x) for x in re.findall(r'parts\[(\d+)\]', m3.group(1))]
    return m1.group(1), m2.group(1), int(m2.group(2)), idx


def section(ctx):
    src = (ctx.REPO / 'replicat' / 'repository.py').read_text()
    tree = ast.parse(src)
    for lean, fname, attr in (('chunk', 'parse_chunk_location', 'CHUNK_PREFIX'), ('snap', 'parse_snapshot_location', 'SNAPSHOT_PREFIX')):
        fn = ctx.find_func(tree, 'Repository', fname)
        shape = None
        try:
            shape = _parse_shape(ctx, fn, attr)
        except Exception as e:  # noqa: BLE001
            ctx.notes['format.' + fname] = f'failed: {e!r}'
        if shape is None:
            ctx.notes.setdefault('format.' + fname, 'shape not recognised')
            ctx.emit(f'opaque {lean}ParseNameSep : Char')
            ctx.emit(f'opaque {lean}ParseDirSep : Char')
            ctx.emit(f'opaque {lean}ParseSplits : Nat')
            ctx.emit(f'opaque {lean}ParseIdx : List Nat')
        else:
            nsep, dsep, n, idx = shape
            ctx.emit(f"def {lean}ParseNameSep : Char := '{nsep}'")
            ctx.emit(f"def {lean}ParseDirSep : Char := '{dsep}'")
            ctx.emit(f'def {lean}ParseSplits : Nat := {n}')
            ctx.emit(f'def {lean}ParseIdx : List Nat := [{", ".join(map(str, idx))}]')
    # the separator between tag remainder and name on the building side (f'{tag[k:]}-{name}')
    for lean, fname in (('chunk', 'get_chunk_location'), ('snap', 'get_snapshot_location')):
        fn = ctx.find_func(tree, 'Repository', fname)
        txt = ctx.unparse(fn.body[-1]) if fn is not None else ''
        m = re.search(r"f'\{tag\[\d+:\]\}(.)\{name\}'\)$", txt)
        if m and txt.startswith('return posixpath.join('):
            ctx.emit(f"def {lean}BuildNameSep : Char := '{m.group(1)}'")
        else:
            ctx.notes['format.' + fname] = 'name separator not recognised'
            ctx.emit(f'opaque {lean}BuildNameSep : Char')
