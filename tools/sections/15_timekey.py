"""C15: WHAT the snapshot order is computed from — the sort keys of `restore`, `list_snapshots`, `list_files` and the value
`snapshot` records as 'utc_timestamp' — classified by a small abstract interpretation of the source expressions:

    utc-string    the recorded 'utc_timestamp' string (or str() / isoformat() of the naive UTC datetime)        code 0
    naive-utc     a naive datetime holding the UTC value (fromisoformat of the string; utcnow())               code 1
    utc-instant   an aware datetime / epoch number obtained by declaring the value to be UTC                    code 2
    local-epoch   the naive UTC value RE-READ AS LOCAL TIME (`naive.timestamp()`, `time.mktime`,
                  `naive.astimezone()`): depends on the zone of the running process, not monotone across a DST gap   code 3
    local-wall    the instant shown on the LOCAL WALL CLOCK (`datetime.now()`, `fromtimestamp(x)` without a zone,
                  `time.localtime`): depends on the zone, goes backwards across a DST fold                     code 4
    unrecognised  anything else (a lossy or unknown operation, several disagreeing sort sites, no sort found)   code 5

The classification is semantic, not textual: `sorted(…)` instead of `.sort`, renamed variables, a helper method, an
`itemgetter`, a tuple key whose first component is the time, `or ''` / conditional None handling are all followed.
Emitted as `Replicat.Gen.*Code : Nat`; `ReplicatModel/TimeKey.lean` turns them into `KeyKind`s and `Properties/C15.lean`
(`order_zone_independent`, `recorded_clock_zone_independent`) only compiles when no key is zone-dependent (codes 3, 4).
`unrecognised` does not break a proof (the theorems carry it as an explicit hypothesis) — it is written to the extraction notes
as `select.timekey.*`, which doubles the number of worlds (time-zone worlds included) of the C15 check: the tie decides.
"""
import ast

CODES = {'utc-string': 0, 'naive-utc': 1, 'utc-instant': 2, 'local-epoch': 3, 'local-wall': 4, 'unrecognised': 5}
ZONE_FREE = ('utc-string', 'naive-utc', 'utc-instant')
# internal kinds besides the six above: 'opaque' (not a time: a snapshot body, a row, a counter), 'none' (None / '' placeholders),
# 'aware' and 'utc-epoch' (both reported as utc-instant), ('tuple', [kinds]), ('tt', kind) = time tuple of a datetime of that kind
UTC_NAMES = ('timezone.utc', 'UTC', 'datetime.UTC', 'datetime.timezone.utc', 'utc', 'tz.utc', 'pytz.utc', 'pytz.UTC')


def _name(node):
    try:
        return ast.unparse(node)
    except Exception:  # noqa: BLE001
        return ''


def _is_datetime_cls(node):
    return _name(node) in ('datetime', 'datetime.datetime', 'dt.datetime', '_dt.datetime')


class Interp:
    def __init__(self, tree, cls_name='Repository'):
        self.cls = next((n for n in ast.walk(tree) if isinstance(n, ast.ClassDef) and n.name == cls_name), None)
        self.methods = {}
        if self.cls is not None:
            for n in self.cls.body:
                if isinstance(n, (ast.FunctionDef, ast.AsyncFunctionDef)):
                    self.methods[n.name] = n
        self.module_funcs = {n.name: n for n in tree.body if isinstance(n, (ast.FunctionDef, ast.AsyncFunctionDef))}

    # ------------------------------------------------------------------ helpers
    @staticmethod
    def join(kinds):
        ks = [k for k in kinds if k != 'none']
        if not ks:
            return 'none'
        first = ks[0]
        return first if all(k == first for k in ks) else 'unrecognised'

    def assigned(self, name, func, env, depth):
        """kinds of everything assigned to local `name` in `func` (None placeholders dropped)"""
        vals = []
        unpacked = []
        for n in ast.walk(func):
            if isinstance(n, ast.Assign):
                for t in n.targets:
                    if isinstance(t, ast.Name) and t.id == name:
                        vals.append(n.value)
                    elif isinstance(t, (ast.Tuple, ast.List)):        # `a, b = pair`
                        for i, e in enumerate(t.elts):
                            if isinstance(e, ast.Name) and e.id == name:
                                k = self.kind(n.value, env, func, depth + 1)
                                unpacked.append(k[1][i] if isinstance(k, tuple) and k[0] == 'tuple' and i < len(k[1]) else
                                                'opaque' if k in ('opaque', 'none') else 'unrecognised')
            elif isinstance(n, ast.AnnAssign) and isinstance(n.target, ast.Name) and n.target.id == name and n.value is not None:
                vals.append(n.value)
            elif isinstance(n, ast.NamedExpr) and n.target.id == name:
                vals.append(n.value)
        if not vals and not unpacked:
            return 'opaque'
        return self.join([self.kind(v, env, func, depth + 1) for v in vals] + unpacked)

    def call_function(self, fdef, arg_kinds, kw_kinds, depth, bound_self=True):
        """a helper with a single `return <expr>` (doc string allowed): bind the parameters and classify the expression"""
        body = [s for s in fdef.body if not (isinstance(s, ast.Expr) and isinstance(s.value, ast.Constant))]
        params = [a.arg for a in fdef.args.posonlyargs + fdef.args.args]
        if bound_self and params and params[0] in ('self', 'cls'):
            params = params[1:]
        env = {}
        for p, k in zip(params, arg_kinds):
            env[p] = k
        for a in fdef.args.kwonlyargs + fdef.args.args:
            if a.arg in kw_kinds:
                env[a.arg] = kw_kinds[a.arg]
        rets = [n for n in ast.walk(fdef) if isinstance(n, ast.Return) and n.value is not None]
        if not rets:
            return 'unrecognised'
        return self.join([self.kind(r.value, env, fdef, depth + 1) for r in rets])

    # ------------------------------------------------------------------ expressions
    def kind(self, node, env, func, depth=0):
        if depth > 12:
            return 'unrecognised'
        K = lambda n: self.kind(n, env, func, depth + 1)   # noqa: E731
        if isinstance(node, ast.Constant):
            return 'none' if node.value in (None, '', 0, b'') else 'opaque'
        if isinstance(node, ast.NamedExpr):
            return K(node.value)
        if isinstance(node, ast.Name):
            if node.id in env:
                return env[node.id]
            return self.assigned(node.id, func, env, depth) if func is not None else 'opaque'
        if isinstance(node, ast.Tuple):
            return ('tuple', [K(e) for e in node.elts])
        if isinstance(node, ast.BoolOp) and isinstance(node.op, ast.Or):
            return self.join([K(v) for v in node.values])
        if isinstance(node, ast.IfExp):
            return self.join([K(node.body), K(node.orelse)])
        if isinstance(node, ast.UnaryOp) and isinstance(node.op, (ast.USub, ast.UAdd)):
            return K(node.operand)
        if isinstance(node, ast.Subscript):
            sl = node.slice
            if isinstance(sl, ast.Constant) and sl.value == 'utc_timestamp':
                return 'utc-string'
            base = K(node.value)
            if isinstance(base, tuple) and base[0] == 'tuple' and isinstance(sl, ast.Constant) and isinstance(sl.value, int) and -len(base[1]) <= sl.value < len(base[1]):
                return base[1][sl.value]
            if base in ('opaque', 'none'):
                return 'opaque'
            return 'unrecognised'
        if isinstance(node, ast.Attribute):
            base = K(node.value)
            return 'opaque' if base in ('opaque', 'none') else 'unrecognised'
        if isinstance(node, ast.Call):
            return self.call(node, env, func, depth)
        if isinstance(node, (ast.BinOp, ast.Compare, ast.JoinedStr)):
            parts = [K(c) for c in ast.iter_child_nodes(node) if isinstance(c, ast.expr)]
            return 'opaque' if all(p in ('opaque', 'none') for p in parts) else 'unrecognised'
        return 'opaque' if isinstance(node, (ast.List, ast.Dict, ast.Set, ast.ListComp, ast.DictComp, ast.GeneratorExp)) else 'unrecognised'

    def call(self, node, env, func, depth):
        K = lambda n: self.kind(n, env, func, depth + 1)   # noqa: E731
        f = node.func
        fname = _name(f)
        args = node.args
        kws = {k.arg: k.value for k in node.keywords if k.arg}
        utc_arg = any(_name(a) in UTC_NAMES for a in list(args) + [kws[k] for k in ('tz', 'tzinfo') if k in kws])
        has_zone_arg = bool(args[1:]) or 'tz' in kws
        # ---- clocks
        if isinstance(f, ast.Attribute) and _is_datetime_cls(f.value):
            if f.attr == 'utcnow':
                return 'naive-utc'
            if f.attr in ('now', 'today'):
                if not args and 'tz' not in kws:
                    return 'local-wall'
                return 'aware' if utc_arg else 'unrecognised'
            if f.attr in ('fromisoformat', 'strptime') and args:
                a = K(args[0])
                return {'utc-string': 'naive-utc', 'local-wall': 'local-wall'}.get(a, 'opaque' if a == 'opaque' else 'unrecognised')
            if f.attr == 'utcfromtimestamp' and args:
                return {'utc-epoch': 'naive-utc'}.get(K(args[0]), 'unrecognised')
            if f.attr == 'fromtimestamp' and args:
                a = K(args[0])
                if a == 'utc-epoch':
                    return ('aware' if utc_arg else 'unrecognised') if has_zone_arg else 'local-wall'
                return 'unrecognised'
        if fname in ('time.time', 'time.time_ns'):
            return 'utc-epoch'
        if fname in ('time.mktime',) and args:
            a = K(args[0])
            return 'local-epoch' if a == ('tt', 'naive-utc') else 'unrecognised'
        if fname in ('calendar.timegm', 'timegm') and args:
            a = K(args[0])
            return 'utc-epoch' if a in (('tt', 'naive-utc'), ('tt', 'aware-utc')) else 'unrecognised'
        if fname in ('time.localtime',) :
            return 'local-wall' if args and K(args[0]) == 'utc-epoch' else 'local-wall' if not args else 'unrecognised'
        if fname in ('time.gmtime',):
            return 'naive-utc' if (not args or K(args[0]) == 'utc-epoch') else 'unrecognised'
        # ---- conversions that keep the order
        if fname in ('str', 'float', 'repr') and len(args) == 1:
            a = K(args[0])
            if a == 'naive-utc':
                return 'utc-string' if fname != 'float' else 'unrecognised'
            return a if a in ('utc-string', 'local-wall', 'local-epoch', 'utc-epoch', 'opaque', 'none') else 'unrecognised'
        # ---- methods of datetime values
        if isinstance(f, ast.Attribute):
            recv = K(f.value)
            m = f.attr
            if recv in ('naive-utc', 'aware', 'local-wall', 'local-epoch-aware'):
                if m == 'timestamp':
                    return {'naive-utc': 'local-epoch', 'aware': 'utc-epoch', 'local-epoch-aware': 'local-epoch'}.get(recv, 'unrecognised')
                if m == 'astimezone':
                    return {'naive-utc': 'local-epoch-aware', 'aware': 'aware', 'local-epoch-aware': 'local-epoch-aware'}.get(recv, 'unrecognised')
                if m == 'replace':
                    if set(kws) == {'tzinfo'}:
                        if _name(kws['tzinfo']) in UTC_NAMES and recv == 'naive-utc':
                            return 'aware'
                        if isinstance(kws['tzinfo'], ast.Constant) and kws['tzinfo'].value is None:
                            return {'aware': 'naive-utc', 'naive-utc': 'naive-utc', 'local-wall': 'local-wall'}.get(recv, 'unrecognised')
                    return 'unrecognised'
                if m in ('isoformat', '__str__'):
                    if 'timespec' in kws or len(args) > 1:
                        return 'unrecognised'          # drops the fraction: no longer injective
                    return {'naive-utc': 'utc-string', 'local-wall': 'local-wall'}.get(recv, 'unrecognised')
                if m == 'timetuple':
                    return ('tt', recv) if recv in ('naive-utc', 'local-wall') else 'unrecognised'
                if m == 'utctimetuple':
                    return ('tt', 'aware-utc') if recv in ('aware', 'naive-utc') else 'unrecognised'
                return 'unrecognised'
            if m == 'get' and args and isinstance(args[0], ast.Constant) and args[0].value == 'utc_timestamp':
                return 'utc-string'
            # ---- helper methods of the class / module-level helpers: follow them
            if isinstance(f.value, ast.Name) and f.value.id in ('self', 'cls') and m in self.methods:
                return self.call_function(self.methods[m], [K(a) for a in args], {k: K(v) for k, v in kws.items()}, depth)
            if recv in ('opaque', 'none'):
                return 'opaque'
            return 'unrecognised'
        if isinstance(f, ast.Name):
            target = None
            if func is not None:
                for n in ast.walk(func):
                    if isinstance(n, (ast.FunctionDef, ast.AsyncFunctionDef)) and n.name == f.id and n is not func:
                        target = n
                    if isinstance(n, ast.Assign) and isinstance(n.value, ast.Lambda) and any(isinstance(t, ast.Name) and t.id == f.id for t in n.targets):
                        return self.apply_key(n.value, [K(a) for a in args], env, func, depth)
            target = target or self.module_funcs.get(f.id)
            if target is not None:
                return self.call_function(target, [K(a) for a in args], {k: K(v) for k, v in kws.items()}, depth, bound_self=False)
            parts = [K(a) for a in args]
            return 'opaque' if all(p in ('opaque', 'none') for p in parts) else 'unrecognised'
        return 'unrecognised'

    # ------------------------------------------------------------------ sort sites
    def apply_key(self, key, elem_kinds, env, func, depth=0):
        """kind of key(elem)"""
        elem = elem_kinds[0] if elem_kinds else 'opaque'
        if key is None:
            return elem
        if isinstance(key, ast.Lambda):
            params = [a.arg for a in key.args.posonlyargs + key.args.args]
            env2 = dict(env)
            for p, k in zip(params, elem_kinds):
                env2[p] = k
            return self.kind(key.body, env2, func, depth + 1)
        if isinstance(key, ast.Call) and _name(key.func) in ('operator.itemgetter', 'itemgetter') and len(key.args) == 1:
            fake = ast.Subscript(value=ast.Name(id='__elem__', ctx=ast.Load()), slice=key.args[0], ctx=ast.Load())
            return self.kind(fake, dict(env, __elem__=elem), func, depth + 1)
        if isinstance(key, ast.Attribute) and isinstance(key.value, ast.Name) and key.value.id in ('self', 'cls') and key.attr in self.methods:
            return self.call_function(self.methods[key.attr], [elem], {}, depth)
        if isinstance(key, ast.Name):
            if func is not None:
                for n in ast.walk(func):
                    if isinstance(n, (ast.FunctionDef, ast.AsyncFunctionDef)) and n.name == key.id and n is not func:
                        return self.call_function(n, [elem], {}, depth, bound_self=False)
                    if isinstance(n, ast.Assign) and any(isinstance(t, ast.Name) and t.id == key.id for t in n.targets):
                        return self.apply_key(n.value, elem_kinds, env, func, depth + 1)
            if key.id in self.module_funcs:
                return self.call_function(self.module_funcs[key.id], [elem], {}, depth, bound_self=False)
        return 'unrecognised'

    def element_kind(self, coll, func):
        """kind of the elements of the local list `coll` (a Name): from `.append(E)` calls / a list comprehension"""
        if not isinstance(coll, ast.Name):
            return 'opaque'
        kinds = []
        for n in ast.walk(func):
            if isinstance(n, ast.Call) and isinstance(n.func, ast.Attribute) and n.func.attr == 'append' and _name(n.func.value) == coll.id and n.args:
                kinds.append(self.kind(n.args[0], {}, func))
            if isinstance(n, ast.Assign) and any(isinstance(t, ast.Name) and t.id == coll.id for t in n.targets) and isinstance(n.value, ast.ListComp):
                env = {}
                for g in n.value.generators:
                    for t in ast.walk(g.target):
                        if isinstance(t, ast.Name):
                            env[t.id] = 'opaque'
                kinds.append(self.kind(n.value.elt, env, func))
        return self.join(kinds) if kinds else 'opaque'

    def sort_sites(self, func):
        """[(line, kind of the sort key as a function of the snapshot's recorded timestamp)] for every sort in `func`"""
        out = []
        for n in ast.walk(func):
            if not isinstance(n, ast.Call):
                continue
            kws = {k.arg: k.value for k in n.keywords if k.arg}
            if isinstance(n.func, ast.Attribute) and n.func.attr == 'sort':
                coll = n.func.value
            elif _name(n.func) in ('sorted', 'heapq.nlargest', 'heapq.nsmallest', 'max', 'min') and n.args:
                coll = n.args[-1] if _name(n.func).startswith('heapq') else n.args[0]
            else:
                continue
            k = self.apply_key(kws.get('key'), [self.element_kind(coll, func)], {}, func)
            if isinstance(k, tuple) and k[0] == 'tuple':
                k = k[1][0] if k[1] else 'opaque'
            out.append((n.lineno, k))
        return out


def report(k):
    if k in ('aware', 'utc-epoch'):
        return 'utc-instant'
    if k == 'local-epoch-aware':
        return 'local-epoch'
    return k if k in CODES else 'unrecognised'


def classify_order(interp, func):
    """the kind of THE snapshot order of a command: the sort sites whose key is a time (sorts of other things are ignored)"""
    if func is None:
        return 'unrecognised', 'function not found'
    sites = [(ln, k) for ln, k in interp.sort_sites(func) if k not in ('opaque', 'none')]
    if not sites:
        return 'unrecognised', 'no sort by a snapshot time found'
    kinds = {report(k) for _, k in sites}
    bad = sorted(k for k in kinds if k in ('local-epoch', 'local-wall'))
    if bad:
        return bad[0], 'lines ' + ','.join(str(ln) for ln, _ in sites)
    if len(kinds) == 1:
        return kinds.pop(), 'line ' + ','.join(str(ln) for ln, _ in sites)
    return 'unrecognised', 'sort sites disagree: ' + repr(sites)


def classify_recorded(interp, func):
    if func is None:
        return 'unrecognised', 'function not found'
    vals = []
    for n in ast.walk(func):
        if isinstance(n, ast.Dict):
            for k, v in zip(n.keys, n.values):
                if isinstance(k, ast.Constant) and k.value == 'utc_timestamp':
                    vals.append(v)
        if isinstance(n, ast.Assign) and any(isinstance(t, ast.Subscript) and isinstance(t.slice, ast.Constant) and t.slice.value == 'utc_timestamp' for t in n.targets):
            vals.append(n.value)
    if not vals:
        return 'unrecognised', "no value stored under 'utc_timestamp'"
    k = report(interp.join([interp.kind(v, {}, func) for v in vals]))
    return k, 'line ' + ','.join(str(v.lineno) for v in vals)


def section(ctx):
    src = (ctx.REPO / 'replicat' / 'repository.py').read_text()
    tree = ast.parse(src)
    interp = Interp(tree)
    ctx.emit('/-! snapshot-order keys and the recorded clock, by kind (see tools/sections/15_timekey.py): 0 utc-string, 1 naive-utc, '
             '2 utc-instant, 3 local-epoch (zone-dependent), 4 local-wall (zone-dependent), 5 unrecognised -/')
    for lean, meth, what in (('restoreSortKeyCode', 'restore', 'order'), ('listSnapshotsSortKeyCode', 'list_snapshots', 'order'),
                             ('listFilesSortKeyCode', 'list_files', 'order'), ('recordedClockCode', 'snapshot', 'recorded')):
        f = ctx.find_func(tree, 'Repository', meth)
        kind, where = (classify_order if what == 'order' else classify_recorded)(interp, f)
        if what == 'recorded' and kind == 'naive-utc':
            kind, where = 'unrecognised', where + ' (a datetime object is stored, not its string)'
        ctx.emit(f'def {lean} : Nat := {CODES[kind]}   -- {kind} ({meth})')
        ctx.notes['timekey.' + meth] = kind
        if kind not in ZONE_FREE:
            ctx.notes['select.timekey.' + meth] = f'{kind}: {where}'
