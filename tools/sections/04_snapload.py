"""C04 (commands that select among SEVERAL snapshots): can the loader DROP a listed snapshot object of the client's own key family?

`14_format.py` establishes that `_download_snapshot_threadsafe` contains the guard `if hash_digest(<downloaded>) != <expected>:
raise`.  That says what happens to an object that REACHES the comparison.  A command that reads several snapshots (an unfiltered
restore, list-files, list-snapshots, a filter that matches more than one name) is only sound if, in addition, a listed object of
the own family cannot leave the loader as "nothing" (`None` = `_load_snapshots` goes on without it): then an older version of every
file is restored "successfully", or a named snapshot lists no file.

`Repository._load_snapshots` is EXECUTED symbolically (tools/symflow.py): the function it hands to the executor for every listed
path (whatever it is called), the methods and helpers that one calls (inlined a few levels deep, whatever they are called), with
locals resolved, conditions normalised (nested `if`s, early exits, `==` / `!=` with swapped branches, De Morgan, conditional
expressions) and the values of `try / except / else` joined.  `Gen.snapLoadNeverSkipsListedOwn = true` iff

 (a) the LOADER (the function run per listed path; it is the one that reads objects from the backend) returns `None` — a literal, a
     conditional expression with a `None` arm, the `None` a callee returned — only on paths whose condition contains the snapshot
     FILTER MISS (`<pattern derived from an argument of _load_snapshots>.search(name)` is None / falsy) or the TAG MISMATCH (`mac(…) == tag` false /
     `!=` true, also through `hmac.compare_digest`); every other path returns something else or raises;
 (b) neither the loader nor any helper inlined into it that returns values can also fall off its end (an implicit `None`);
 (c) the consumer (the `yield`s of `_load_snapshots`) drops a result only under `… is None`.

`ReplicatModel/SymMulti.lean::loadSnapshotL` is parameterised by the flag; `Properties/C04.lean::listed_snapshot_is_verified_or_error`,
`damaged_listed_snapshot_fails_every_selecting_command`, `ok_after_damage_is_the_undamaged_result` discharge it by `decide`.
"""
import ast

import symflow as sf

def _own_nodes(fn):
    """nodes of `fn` without the bodies of nested functions / classes / lambdas"""
    out = []
    stack = list(fn.body)
    while stack:
        n = stack.pop()
        out.append(n)
        for ch in ast.iter_child_nodes(n):
            if isinstance(ch, (ast.FunctionDef, ast.AsyncFunctionDef, ast.ClassDef, ast.Lambda)):
                continue
            stack.append(ch)
    return out


def _is_none(e):
    return e is None or (isinstance(e, ast.Constant) and e.value is None)


def _completes(stmts):
    """may the block complete normally (fall through its end)?"""
    if not stmts:
        return True
    last = stmts[-1]
    if isinstance(last, (ast.Return, ast.Raise, ast.Continue, ast.Break)):
        return False
    if isinstance(last, ast.If):
        return _completes(last.body) or _completes(last.orelse)
    if isinstance(last, (ast.With, ast.AsyncWith)):
        return _completes(last.body)
    if isinstance(last, ast.Try):
        if last.finalbody and not _completes(last.finalbody):
            return False
        return _completes(last.body + last.orelse) or any(_completes(h.body) for h in last.handlers)
    return True


def _none_paths(t, depth=0):
    """the conditions (lists of guard items) under which the value is None"""
    if t == sf.NONE:
        return [[]]
    if not isinstance(t, tuple) or not t or depth > 30:
        return []
    if t[0] == 'phi':
        return ([sf.literals(t[1], True) + p for p in _none_paths(t[2], depth + 1)]
                + [sf.literals(t[1], False) + p for p in _none_paths(t[3], depth + 1)])
    if t[0] == 'join':
        return [p for a in t[2] for p in _none_paths(a, depth + 1)]
    if t[0] in ('or', 'and'):          # `x or None`, `cond and value`
        return [[]] if any(_none_paths(x, depth + 1) for x in t[1]) else []
    return []


def _is_or_item(it):
    return isinstance(it[0], tuple) and it[0] and it[0][0] == 'or' and isinstance(it[0][1], frozenset)


def _is_regex_probe(t):
    """`<pattern derived from an argument of _load_snapshots>.search(…)` (or match / fullmatch / re.search(<derived>, …))"""
    if t[0] != 'call' or not sf.contains(t, lambda x: x[0] == 'arg'):
        return False
    f = t[1]
    return (f[0] == 'attr' and f[2] in ('search', 'match', 'fullmatch')) or (f[0] == 'global' and f[1] in ('re.search', 're.match', 're.fullmatch'))


def _is_filter(it):
    """the snapshot filter MISSED: the probe of the name with the pattern derived from an argument of `_load_snapshots` is None / falsy"""
    if _is_or_item(it):
        return False
    atom, pol = it
    if pol and atom[0] == 'isnone':
        return _is_regex_probe(atom[1])
    return (not pol) and _is_regex_probe(atom)


def _has_mac(t):
    return sf.contains(t, lambda x: x[0] == 'call' and x[1][0] == 'attr' and x[1][2] == 'mac')


def _is_tag_mismatch(it):
    """`mac(…) == <tag>` is false"""
    if _is_or_item(it):
        return False
    atom, pol = it
    if pol:
        return False
    if atom[0] == 'eq':
        return _has_mac(atom[1]) != _has_mac(atom[2])
    if atom[0] == 'call' and atom[1][0] == 'global' and atom[1][1].endswith('compare_digest') and len(atom[2]) == 2:
        return _has_mac(atom[2][0]) != _has_mac(atom[2][1])
    return False


def _cond_justifies(c, pol):
    """does the condition `c` (taken with polarity `pol`) imply: the name misses the filter, or the tag is not ours?"""
    if not isinstance(c, tuple) or not c:
        return False
    if c[0] == 'not':
        return _cond_justifies(c[1], not pol)
    if c[0] in ('and', 'or') and isinstance(c[1], tuple):
        conj = (c[0] == 'and') == pol          # a conjunction implies what one member implies; a disjunction what all imply
        return (any if conj else all)(_cond_justifies(x, pol) for x in c[1])
    return _is_filter((c, pol)) or _is_tag_mismatch((c, pol))


def _justifies(it):
    """the guard item implies: the name does not match the filter, or the tag is not ours"""
    if _is_or_item(it):
        return all(_justifies(x) for x in it[0][1])
    return _cond_justifies(it[0], it[1])


def _reads_backend(e):
    """a call of the backend's download API (not one of the repository's own helpers, those are inlined)"""
    if e.kind != 'call' or e.callee[0] != 'attr' or not e.callee[2].startswith('download'):
        return False
    return True


def _returns_value(fn):
    return any(isinstance(n, ast.Return) and not _is_none(n.value) for n in _own_nodes(fn))


def _is_generator(fn):
    return any(isinstance(n, (ast.Yield, ast.YieldFrom)) for n in _own_nodes(fn))


def analyse(source, cls='Repository', fn='_load_snapshots'):
    """-> list of problems (empty = the flag is true)"""
    mod = sf.Module(source)
    cnode = mod.classes.get(cls)
    if cnode is None:
        return [f'class {cls} not found']
    defs = {}
    for n in ast.walk(cnode):
        if isinstance(n, (ast.FunctionDef, ast.AsyncFunctionDef)):
            defs.setdefault(n.name, n)
    for name, n in mod.funcs.items():
        defs.setdefault(name, n)
    interp = sf.Interp(mod, cls)
    try:
        evs, _ = interp.run(fn)
    except (sf.TooBig, RecursionError):
        evs = None
    if evs is None:
        return [f'{fn} not found / too large']
    problems = []
    # frames of functions handed to an executor / callback: ctx = (…, ('deferred', id), ('inline', call, name), …)
    frames = {}
    for e in evs:
        for i, c in enumerate(e.ctx):
            if c[0] == 'deferred':
                if i + 1 < len(e.ctx) and e.ctx[i + 1][0] == 'inline' and len(e.ctx[i + 1]) >= 3:
                    frames.setdefault(c[1], (i + 2, e.ctx[i + 1][2], []))[2].append(e)
                break
    loaders = {k: v for k, v in frames.items() if any(_reads_backend(e) for e in v[2])}
    if not loaders:
        return ['no function that reads listed objects is handed to an executor in ' + fn]
    for did, (plen, name, fe) in sorted(loaders.items()):
        entry = frozenset.intersection(*[e.guard for e in fe])
        rets = [e for e in fe if e.kind == 'return' and not any(c[0] in ('inline', 'deferred') for c in e.ctx[plen:])]
        if not rets:
            problems.append(f'{name} returns nothing')
        for e in rets:
            for lits in _none_paths(e.value):
                rel = set(e.guard - entry) | set(lits)
                if not any(_justifies(it) for it in rel):
                    problems.append(f'{name}: a listed object leaves the loader as None under {sf.show_guard(frozenset(rel))[:160] or "no condition"}, '
                                    'which contains neither the snapshot filter nor the tag mismatch')
        node = defs.get(name)
        if node is None:
            problems.append(f'{name}: definition not found')
        elif _completes(node.body):
            problems.append(f'{name} can fall off its end (returns None)')
        for nm in sorted({c[2] for e in fe for c in e.ctx[plen:] if c[0] == 'inline' and len(c) >= 3}):
            h = defs.get(nm)
            if h is not None and not isinstance(h, ast.Lambda) and not _is_generator(h) and _returns_value(h) and _completes(h.body):
                problems.append(f'{nm} returns a value on some paths and falls off its end (None) on others')
    # the consumer
    own = [e for e in evs if e.kind == 'yield' and not any(c[0] in ('inline', 'deferred') for c in e.ctx)]
    if not own:
        problems.append(f'{fn} yields nothing itself')
    for e in own:
        lids = [c[1] for c in e.ctx if c[0] == 'for']
        loop = interp.loops.get(lids[-1]) if lids else None
        if loop is None:
            problems.append(f'{fn}: a result is yielded outside a loop over the loaded snapshots')
            continue
        for it in e.guard - loop.outer_guard:
            if _is_or_item(it) or it[1] or it[0][0] != 'isnone':
                problems.append(f'{fn} drops a loaded snapshot under a condition other than `is None`: ¬({sf.show_guard(frozenset([it]))[:120]})')
    return list(dict.fromkeys(problems))


def section(ctx):
    problems = analyse((ctx.REPO / 'replicat' / 'repository.py').read_text())
    if problems:
        ctx.notes['load.never_skips_listed_own'] = '; '.join(problems)
    ctx.emit('/-- a listed snapshot object of the own key family leaves the loader as a verified body or as an error — never as "nothing" -/')
    ctx.emit(f'def snapLoadNeverSkipsListedOwn : Bool := {"false" if problems else "true"}')
