"""C04 (commands that select among SEVERAL snapshots): can the loader DROP a listed snapshot object of the client's own key family?

`14_format.py` establishes that `_download_snapshot_threadsafe` contains the guard `if hash_digest(<downloaded>) != <expected>:
raise`.  That says what happens to an object that REACHES the comparison.  A command that reads several snapshots (an unfiltered
restore, list-files, list-snapshots, a filter that matches more than one name) is only sound if, in addition, a listed object of
the own family cannot leave the loader as "nothing" (`None` = `_load_snapshots` goes on without it): then an older version of every
file is restored "successfully", or a named snapshot lists no file.

`Gen.snapLoadNeverSkipsListedOwn = true` iff
 (a) no path through `_download_snapshot_threadsafe` (and the `self.<method>`s whose value it returns, e.g. `_decrypt_snapshot_body`)
     returns `None`: no bare `return`, no `return None`, no returned name that is assigned `None` somewhere, no falling off the end;
 (b) in `_load_snapshots._download_snapshot` every `None`-return sits in a top-level `if` BEFORE the first statement that reads the
     object (so it cannot depend on the content) whose test is the snapshot filter (mentions a value derived from the
     `snapshot_regex` parameter) or the tag check (contains a `.mac(…)` call); everything returned afterwards is never `None` by (a);
 (c) the consumer loop of `_load_snapshots` drops a result only under `… is None`.
Structural (AST) analysis, independent of names of locals, comments, logging and of how the guards are wrapped.
`ReplicatModel/SymMulti.lean::loadSnapshotL` is parameterised by the flag; `Properties/C04.lean::listed_snapshot_is_verified_or_error`,
`damaged_listed_snapshot_fails_every_selecting_command`, `ok_after_damage_is_the_undamaged_result` discharge it by `decide`.
"""
import ast


def _own_nodes(fn):
    """nodes of `fn` without the bodies of nested functions / classes / lambdas"""
    out = []
    stack = list(fn.body)
    while stack:
        n = stack.pop()
        out.append(n)
        for ch in ast.iter_child_nodes(n):
            if isinstance(ch, (ast.FunctionDef, ast.AsyncFunctionDef, ast.ClassDef, ast.Lambda)):
                continue
            stack.append(ch)
    return out


def _is_none(e):
    return e is None or (isinstance(e, ast.Constant) and e.value is None)


def _completes(stmts):
    """may the block complete normally (fall through its end)?"""
    if not stmts:
        return True
    last = stmts[-1]
    if isinstance(last, (ast.Return, ast.Raise, ast.Continue, ast.Break)):
        return False
    if isinstance(last, ast.If):
        return _completes(last.body) or _completes(last.orelse)
    if isinstance(last, (ast.With, ast.AsyncWith)):
        return _completes(last.body)
    if isinstance(last, ast.Try):
        if last.finalbody and not _completes(last.finalbody):
            return False
        return _completes(last.body + last.orelse) or any(_completes(h.body) for h in last.handlers)
    return True


class _NoneAnalysis:
    def __init__(self, methods):
        self.methods = methods
        self.memo = {}
        self.why = []

    def maybe_none_expr(self, e, fn, depth):
        if _is_none(e):
            return True
        if isinstance(e, ast.IfExp):
            return self.maybe_none_expr(e.body, fn, depth) or self.maybe_none_expr(e.orelse, fn, depth)
        if isinstance(e, ast.BoolOp):
            return any(self.maybe_none_expr(v, fn, depth) for v in e.values)
        if isinstance(e, ast.NamedExpr):
            return self.maybe_none_expr(e.value, fn, depth)
        if isinstance(e, ast.Await):
            return self.maybe_none_expr(e.value, fn, depth)
        if isinstance(e, ast.Name):
            vals = []
            for n in _own_nodes(fn):
                if isinstance(n, ast.Assign) and any(isinstance(t, ast.Name) and t.id == e.id for t in n.targets):
                    vals.append(n.value)
                elif isinstance(n, ast.AnnAssign) and isinstance(n.target, ast.Name) and n.target.id == e.id and n.value is not None:
                    vals.append(n.value)
                elif isinstance(n, ast.NamedExpr) and n.target.id == e.id:
                    vals.append(n.value)
            return any(self.maybe_none_expr(v, fn, depth) for v in vals)
        if isinstance(e, ast.Call) and isinstance(e.func, ast.Attribute) and isinstance(e.func.value, ast.Name) and e.func.value.id == 'self':
            m = self.methods.get(e.func.attr)
            if m is not None and depth < 4:
                return self.maybe_none_fn(m, depth + 1)
        return False

    def maybe_none_fn(self, fn, depth=0):
        """may `fn` return None on some path that does not raise?"""
        if fn.name in self.memo:
            return self.memo[fn.name]
        self.memo[fn.name] = False       # cycles: assume the best, the other members decide
        res = False
        if any(isinstance(n, (ast.Yield, ast.YieldFrom)) for n in _own_nodes(fn)):
            res = False
        else:
            if _completes(fn.body):
                res = True
                self.why.append(f'{fn.name} can fall off its end')
            for n in _own_nodes(fn):
                if isinstance(n, ast.Return) and self.maybe_none_expr(n.value, fn, depth):
                    res = True
                    self.why.append(f'{fn.name}: `{ast.unparse(n)}` (line {n.lineno}) may return None')
        self.memo[fn.name] = res
        return res


def _reads_object(node):
    for n in ast.walk(node):
        if isinstance(n, ast.Call):
            f = ast.unparse(n.func)
            last = f.rsplit('.', 1)[-1]
            if 'download' in last or last in ('_get_cached', 'read_bytes', 'open'):
                return True
    return False


def _derived_from(fn, seeds):
    """names of `fn` (own body) whose value mentions one of `seeds` (transitively)"""
    names = set(seeds)
    changed = True
    while changed:
        changed = False
        for n in _own_nodes(fn):
            if isinstance(n, ast.Assign):
                used = {x.id for x in ast.walk(n.value) if isinstance(x, ast.Name)}
                if used & names:
                    for t in n.targets:
                        for x in ast.walk(t):
                            if isinstance(x, ast.Name) and x.id not in names:
                                names.add(x.id)
                                changed = True
    return names


def section(ctx):
    rtree = ast.parse((ctx.REPO / 'replicat' / 'repository.py').read_text())
    cls = ctx.find_func(rtree, 'Repository')
    methods = {n.name: n for n in (cls.body if cls is not None else []) if isinstance(n, (ast.FunctionDef, ast.AsyncFunctionDef))}
    ls = methods.get('_load_snapshots')
    ds = methods.get('_download_snapshot_threadsafe')
    inner = ctx.find_func(ls, '_download_snapshot') if ls is not None else None
    problems = []
    if ls is None or ds is None or inner is None:
        problems.append('_load_snapshots / _download_snapshot / _download_snapshot_threadsafe not found')
    else:
        an = _NoneAnalysis(methods)
        # (a)
        if an.maybe_none_fn(ds):
            problems += an.why
        # (b)
        params = {a.arg for a in ls.args.args + ls.args.kwonlyargs} - {'self'}
        filt = _derived_from(ls, params)
        reached = False
        for st in inner.body:
            if not reached and _reads_object(st):
                reached = True
            if reached:
                for n in ast.walk(st):
                    if isinstance(n, ast.Return) and an.maybe_none_expr(n.value, inner, 0):
                        problems.append(f'_download_snapshot: `{ast.unparse(n)}` (line {n.lineno}) may yield None once the object is being read')
                continue
            rets = [n for n in ast.walk(st) if isinstance(n, ast.Return)]
            if not rets:
                continue
            if not isinstance(st, ast.If):
                problems.append(f'_download_snapshot: return outside an `if` before the object is read (line {st.lineno})')
                continue
            names = {x.id for x in ast.walk(st.test) if isinstance(x, ast.Name)}
            is_filter = bool(names & filt)
            is_tag = any(isinstance(c, ast.Call) and ast.unparse(c.func).endswith('.mac') for c in ast.walk(st.test))
            if not (is_filter or is_tag):
                problems.append(f'_download_snapshot: an object is skipped under `{ast.unparse(st.test)}` (line {st.lineno}), which is neither the '
                                'snapshot filter nor the tag check')
        if not reached:
            problems.append('_download_snapshot never reads the object')
        elif _completes(inner.body):
            problems.append('_download_snapshot can fall off its end (returns None) after reading the object')
        an.why = []
        # (c)
        for n in _own_nodes(ls):
            if isinstance(n, ast.If) and any(isinstance(x, (ast.Continue, ast.Break)) for b in (n.body, n.orelse) for x in b):
                t = n.test
                ok = isinstance(t, ast.Compare) and len(t.ops) == 1 and isinstance(t.ops[0], ast.Is) and _is_none(t.comparators[0])
                if not ok:
                    problems.append(f'_load_snapshots drops a loaded snapshot under `{ast.unparse(t)}` (line {n.lineno})')
    if problems:
        ctx.notes['load.never_skips_listed_own'] = '; '.join(dict.fromkeys(problems))
    ctx.emit('/-- a listed snapshot object of the own key family leaves the loader as a verified body or as an error — never as "nothing" -/')
    ctx.emit(f'def snapLoadNeverSkipsListedOwn : Bool := {"false" if problems else "true"}')
