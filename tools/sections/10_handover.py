"""C10: in which ORDER `gclmulchunker.__call__` (a) reads a piece it was handed and (b) asks the producer for the following one.

By the iterator protocol a producer may rewrite the buffer behind piece N as soon as it is asked for piece N+1 (the
`readinto()` / single-scratch-buffer idiom).  `Chunker.lean::seenPieces` therefore takes the bytes of a piece "now" (when it
was yielded) or "later" (after the next pull) depending on `Gen.adapterCopiesBeforePull`; `C10.chunk_handover_indep` needs `true`.

The flag is computed by a small abstract interpretation of the function body (no text matching): every value obtained from
the piece iterator (`next(it, …)`, the target of `for … in it`) gets a generation number; a pull increments the current
generation; any READ (`buffer += x`, `buffer.extend(x)`, `len(x)`, `not x`, passing `x` to a call, yielding `x` from a helper
generator, …) of a value whose generation is older than the current one is a read-after-pull.  Aliasing (`chunk = next_chunk`)
and identity tests (`x is None`) are not reads.  Loops are walked twice so loop-carried aliases are seen.  A module-level
helper generator that receives the iterator (e.g. a look-ahead wrapper) is analysed the same way, its `yield`s being the
reads.  Anything that hides the iterator from the analysis (unknown callables, attribute stores, …) is "not recognised":
the flag is emitted `opaque`, so the dependent theorem stops compiling instead of assuming an order.
"""
import ast


class _Unrecognised(Exception):
    pass


class _Flow:
    def __init__(self, ctx, module, fn, src_param, depth=0):
        self.ctx = ctx
        self.module = module
        self.fn = fn
        self.src = {src_param}      # names bound to the piece iterator
        self.yield_shapes = set()   # (helper generators) which positions of a yielded item carry a piece
        self.bytearrays = set()     # names bound to a fresh `bytearray(...)` (the reassembly buffer): `.extend(x)` copies x
        self.gen = {}               # piece-valued name -> generation
        self.latest = 0
        self.stale_reads = []       # descriptions of reads-after-pull
        self.reads = 0
        self.is_helper = depth > 0
        self.depth = depth

    # ---- events
    def pull(self):
        self.latest += 1
        return self.latest

    def read(self, name, node):
        self.reads += 1
        if self.gen[name] < self.latest:
            self.stale_reads.append(f'line {getattr(node, "lineno", "?")}: `{name}` read after the following piece was requested')

    # ---- expressions
    def is_src(self, node):
        if isinstance(node, ast.Name) and node.id in self.src:
            return True
        return (isinstance(node, ast.Call) and isinstance(node.func, ast.Name) and node.func.id == 'iter'
                and len(node.args) == 1 and not node.keywords and self.is_src(node.args[0]))

    def value(self, node):
        """Evaluate `node` where a piece may flow on unchanged (alias position).  Returns a generation, 'src', a tuple, or None."""
        if isinstance(node, ast.Name):
            if node.id in self.gen:
                return self.gen[node.id]
            if node.id in self.src:
                return 'src'
            return None
        if self.is_src(node):
            return 'src'
        if isinstance(node, ast.Call) and isinstance(node.func, ast.Name) and node.func.id == 'next' and node.args and self.is_src(node.args[0]):
            for a in node.args[1:]:
                self.reads_in(a)
            return self.pull()
        if isinstance(node, ast.NamedExpr):
            v = self.value(node.value)
            self.bind(node.target, v)
            return v
        if isinstance(node, ast.Tuple):
            return tuple(self.value(e) for e in node.elts)
        if isinstance(node, ast.IfExp):
            self.reads_in(node.test)
            a, b = self.value(node.body), self.value(node.orelse)
            ints = [x for x in (a, b) if isinstance(x, int)]
            return min(ints) if ints else (a if a is not None else b)
        self.reads_in(node)
        return None

    def reads_in(self, node):
        """Evaluate `node` in a position where a piece reaching it is READ."""
        if node is None:
            return
        if isinstance(node, ast.Name):
            if node.id in self.gen:
                self.read(node.id, node)
            elif node.id in self.src:
                raise _Unrecognised(f'piece iterator `{node.id}` escapes at line {node.lineno}')
            return
        if isinstance(node, ast.Compare) and all(isinstance(o, (ast.Is, ast.IsNot)) for o in node.ops):
            for e in [node.left] + node.comparators:
                if not (isinstance(e, ast.Name) and e.id in self.gen):
                    self.reads_in(e)
            return
        if isinstance(node, (ast.NamedExpr,)) or self.is_src(node) or (
                isinstance(node, ast.Call) and isinstance(node.func, ast.Name) and node.func.id == 'next' and node.args and self.is_src(node.args[0])):
            v = self.value(node)
            if v == 'src':
                raise _Unrecognised(f'piece iterator used as a value at line {node.lineno}')
            return
        if isinstance(node, (ast.Yield, ast.YieldFrom)):
            if isinstance(node, ast.YieldFrom) and self.is_src(node.value):
                raise _Unrecognised('yield from the piece iterator')
            # what a helper generator yields is what the caller will read (a tuple item such as `(piece, is_last)` included)
            elts = node.value.elts if isinstance(node.value, ast.Tuple) else [node.value]
            pos = frozenset(i for i, e in enumerate(elts) if isinstance(e, ast.Name) and e.id in self.gen)
            self.yield_shapes.add(('tuple', len(elts), pos) if isinstance(node.value, ast.Tuple) else ('item', 1, pos))
            for e in elts:
                self.reads_in(e)
            return
        if isinstance(node, (ast.List, ast.Tuple, ast.Set, ast.Dict, ast.Starred)):
            # a piece put into a container can be read at any later time: the order of read and pull is no longer visible here
            for e in ast.iter_child_nodes(node):
                if isinstance(e, ast.Name) and e.id in self.gen:
                    raise _Unrecognised(f'piece `{e.id}` stored in a container at line {node.lineno}')
        if isinstance(node, ast.Call):
            held = [a for a in list(node.args) + [k.value for k in node.keywords] if isinstance(a, ast.Name) and a.id in self.gen]
            copies = ((isinstance(node.func, ast.Name) and node.func.id in ('len', 'bool', 'bytes', 'bytearray'))
                      or (isinstance(node.func, ast.Attribute) and isinstance(node.func.value, ast.Name)
                          and node.func.value.id in self.bytearrays and node.func.attr in ('extend', '__iadd__')))
            if held and not copies:
                # e.g. `pending.append(chunk)`, `memoryview(chunk)`: the callee may keep the object and read it later
                raise _Unrecognised(f'piece `{held[0].id}` passed to `{self.ctx.unparse(node.func)}` at line {node.lineno} (may be retained)')
        if isinstance(node, (ast.Lambda, ast.GeneratorExp, ast.ListComp, ast.SetComp, ast.DictComp)):
            for n in ast.walk(node):
                if isinstance(n, ast.Name) and (n.id in self.src or n.id in self.gen):
                    raise _Unrecognised(f'piece / iterator captured by a comprehension or lambda at line {node.lineno}')
            return
        if isinstance(node, ast.Call) and any(self.is_src(a) for a in list(node.args) + [k.value for k in node.keywords]):
            raise _Unrecognised(f'piece iterator passed to `{self.ctx.unparse(node.func)}` at line {node.lineno}')
        for ch in ast.iter_child_nodes(node):
            if isinstance(ch, ast.expr):
                self.reads_in(ch)
            elif isinstance(ch, (ast.keyword, ast.comprehension, ast.FormattedValue)):
                self.reads_in(getattr(ch, 'value', None))

    def bind(self, target, v):
        if isinstance(target, ast.Name):
            self.gen.pop(target.id, None)
            self.src.discard(target.id) if v != 'src' else None
            if v == 'src':
                self.src.add(target.id)
            elif isinstance(v, int):
                self.gen[target.id] = v
            elif isinstance(v, tuple):
                raise _Unrecognised(f'tuple holding a piece bound to `{target.id}`')
            return
        if isinstance(target, (ast.Tuple, ast.List)):
            if isinstance(v, tuple) and len(v) == len(target.elts):
                for t, x in zip(target.elts, v):
                    self.bind(t, x)
            elif isinstance(v, int):
                # unpacking a compound item produced by a (clean) helper: every element is as fresh as the item
                for t in target.elts:
                    self.bind(t, v)
            else:
                for t in target.elts:
                    self.bind(t, None)
            return
        if isinstance(v, int) or v == 'src' or (isinstance(v, tuple) and any(x is not None for x in v)):
            raise _Unrecognised(f'piece / iterator stored into `{self.ctx.unparse(target)}`')
        self.reads_in(target)

    # ---- statements
    def loop_source(self, it):
        """→ 'direct' when `for … in <piece iterator>`, the yield shape when it goes through an analysed helper generator, None otherwise"""
        if self.is_src(it):
            return 'direct'
        if (isinstance(it, ast.Call) and isinstance(it.func, ast.Name) and len(it.args) == 1 and not it.keywords
                and self.is_src(it.args[0]) and self.depth == 0):
            helper = next((n for n in self.module.body if isinstance(n, ast.FunctionDef) and n.name == it.func.id), None)
            if helper is None or len(helper.args.args) != 1 or not any(isinstance(n, (ast.Yield, ast.YieldFrom)) for n in ast.walk(helper)):
                raise _Unrecognised(f'piece iterator wrapped by `{it.func.id}` (not a module-level generator with one parameter)')
            sub = _Flow(self.ctx, self.module, helper, helper.args.args[0].arg, depth=1)
            sub.block(helper.body)
            self.ctx.fp(f'adapters.{helper.name}', helper)
            if sub.stale_reads:
                self.stale_reads += [f'{helper.name}: {x}' for x in sub.stale_reads]
            if sub.reads == 0:
                raise _Unrecognised(f'helper `{helper.name}` never hands a piece on')
            if len(sub.yield_shapes) != 1:
                raise _Unrecognised(f'helper `{helper.name}` yields items of different shapes')
            return next(iter(sub.yield_shapes))
        return None

    def block(self, stmts):
        for s in stmts:
            self.stmt(s)

    def stmt(self, s):
        if isinstance(s, ast.Assign):
            v = self.value(s.value)
            for t in s.targets:
                if isinstance(t, ast.Name):
                    if isinstance(s.value, ast.Call) and isinstance(s.value.func, ast.Name) and s.value.func.id == 'bytearray':
                        self.bytearrays.add(t.id)
                    else:
                        self.bytearrays.discard(t.id)
            for t in s.targets:
                self.bind(t, v)
        elif isinstance(s, ast.AnnAssign):
            if s.value is not None:
                self.bind(s.target, self.value(s.value))
        elif isinstance(s, ast.AugAssign):
            self.reads_in(s.value)
            if isinstance(s.target, ast.Name) and s.target.id in self.gen:
                self.read(s.target.id, s.target)
            elif not isinstance(s.target, ast.Name):
                self.reads_in(s.target)
        elif isinstance(s, ast.Expr):
            self.reads_in(s.value)
        elif isinstance(s, ast.Return):
            self.reads_in(s.value)
        elif isinstance(s, ast.While):
            for _ in range(2):
                self.reads_in_test(s.test)
                self.block(s.body)
            self.reads_in_test(s.test)
            self.block(s.orelse)
        elif isinstance(s, ast.For):
            kind = self.loop_source(s.iter)
            if kind is None:
                self.reads_in(s.iter)
            for _ in range(2):
                if kind == 'direct' or (kind is not None and kind[0] == 'item'):
                    self.bind(s.target, self.pull())
                elif kind is not None:
                    # items `(…, piece, …)` of a helper generator: only the positions that carry a piece become pieces
                    g = self.pull()
                    if not (isinstance(s.target, (ast.Tuple, ast.List)) and len(s.target.elts) == kind[1]):
                        raise _Unrecognised('compound item of a helper generator is not unpacked in the `for` target')
                    self.bind(s.target, tuple(g if i in kind[2] else None for i in range(kind[1])))
                else:
                    self.bind(s.target, None)
                self.block(s.body)
            if kind is not None:
                self.pull()             # the pull answered by StopIteration
            self.block(s.orelse)
        elif isinstance(s, ast.If):
            self.reads_in_test(s.test)
            self.block(s.body)
            self.block(s.orelse)
        elif isinstance(s, ast.Try):
            self.block(s.body)
            for h in s.handlers:
                self.block(h.body)
            self.block(s.orelse)
            self.block(s.finalbody)
        elif isinstance(s, ast.With):
            for it in s.items:
                self.reads_in(it.context_expr)
            self.block(s.body)
        elif isinstance(s, (ast.Delete,)):
            for t in s.targets:
                if isinstance(t, ast.Name):
                    self.gen.pop(t.id, None)
                else:
                    self.reads_in(t)
        elif isinstance(s, (ast.Pass, ast.Break, ast.Continue, ast.Import, ast.ImportFrom, ast.Global, ast.Nonlocal)):
            pass
        elif isinstance(s, (ast.FunctionDef, ast.AsyncFunctionDef, ast.ClassDef)):
            for n in ast.walk(s):
                if isinstance(n, ast.Name) and (n.id in self.src or n.id in self.gen):
                    raise _Unrecognised(f'piece / iterator captured by nested `{s.name}`')
        elif isinstance(s, (ast.Raise, ast.Assert)):
            for ch in ast.iter_child_nodes(s):
                if isinstance(ch, ast.expr):
                    self.reads_in(ch)
        else:
            raise _Unrecognised(f'statement {type(s).__name__} at line {s.lineno}')

    def reads_in_test(self, test):
        # `while (chunk := next(it, None)) is not None`, `while chunk is not None`, `while chunk:` (the last one reads the piece)
        self.reads_in(test)


def section(ctx):
    asrc = (ctx.REPO / 'replicat' / 'utils' / 'adapters.py').read_text()
    module = ast.parse(asrc)
    call = ctx.find_func(module, 'gclmulchunker', '__call__')
    verdict = None
    why = ''
    if call is None or len(call.args.args) < 2:
        why = 'gclmulchunker.__call__(self, <pieces>, …) not found'
    else:
        flow = _Flow(ctx, module, call, call.args.args[1].arg)
        try:
            flow.block(call.body)
            if flow.reads == 0:
                why = 'no statement reads a piece obtained from the iterator'
            elif flow.latest == 0:
                why = 'the piece iterator is never advanced'
            else:
                verdict = not flow.stale_reads
                if flow.stale_reads:
                    why = '; '.join(list(dict.fromkeys(flow.stale_reads))[:3])
        except _Unrecognised as e:
            why = f'not recognised: {e}'
            if flow.stale_reads:        # a definite read-after-pull was already seen
                verdict = False
                why = '; '.join(list(dict.fromkeys(flow.stale_reads))[:3]) + f' (analysis stopped: {e})'
    if verdict is None:
        ctx.emit('opaque adapterCopiesBeforePull : Bool')
        ctx.notes['adapter.handover'] = why
    else:
        ctx.emit(f'def adapterCopiesBeforePull : Bool := {"true" if verdict else "false"}')
        if not verdict:
            ctx.notes['adapter.handover'] = 'a piece is read after the following piece was requested: ' + why
