"""C10: in which ORDER `gclmulchunker.__call__` (a) reads a piece it was handed and (b) asks the producer for the following one.

By the iterator protocol a producer may rewrite the buffer behind piece N as soon as it is asked for piece N+1 (the
`readinto()` / single-scratch-buffer idiom).  `Chunker.lean::seenPieces` therefore takes the bytes of a piece "now" (when it
was yielded) or "later" (after the next pull) depending on `Gen.adapterCopiesBeforePull`; `C10.chunk_handover_indep` needs `true`.

The flag is computed by a small ABSTRACT INTERPRETER of the function (class `Engine` below; no text matching, no variable
names).  It is shared with `11_chunksync.py` (which loads this file by path) for the finality fact and for `chunkify`.

* values: the piece iterator (`src`), pieces with an AGE (= how many pulls of the iterator happened since the piece was
  obtained; 0 = the newest, the look-ahead), fresh reassembly buffers, symbolic Booleans over the atoms "pull of age a hit the
  end of the input" / "<pure expression> is None" / "<pure expression> is truthy", constants, sentinels (`object()`), tuples,
  closures, bound methods, generator objects, pure symbolic expressions (`self.private['chunker_params']`);
* a state = (environment, what is known about each recent pull, which recent pieces were appended whole to a buffer, facts
  about symbolic atoms).  Branches FORK the state (conditions are evaluated by their meaning: `not`, `and`/`or`, `is`/`==`
  with the sentinel, truthiness, conditional expressions, walrus), loops are iterated to a fixpoint over the set of states
  reaching the loop head (ages saturate, so the set is finite), `break` / `continue` / `return` / `StopIteration` are followed;
* calls to methods of the class (`self.m`, `cls.m`, `Class.m`, static / class methods, properties), nested functions,
  lambdas, `functools.partial` objects and module-level functions are INLINED with their arguments (a few levels deep);
  helper generators are run as coroutines of the `for` loop / `yield from` that consumes them;
* pulls: `next(it, sentinel)`, `next(it)` / `it.__next__()` under `try … except StopIteration` or
  `with suppress(StopIteration)`, `for … in it`, `for … in enumerate(it)`, `for … in iter(callable, sentinel)`;
  comprehensions / generator expressions are run as the anonymous generators they are; `memoryview(piece)` is another
  handle on the same piece; `operator.is_` / `is_not` / `iadd` mean what the operators mean.
Not followed (=> not recognised): recursion, helper CLASSES holding the buffer, pieces kept in containers / attributes,
`match`, `async`, `*args` carrying a piece.

A READ of a piece = anything that looks at its bytes (`buffer += x`, `buffer.extend(x)`, `len(x)`, truthiness, slicing,
`bytes(x)`, logging it, yielding it to the consumer …); aliasing, identity tests, `isinstance` are not reads.  A read of a
piece of age > 0 is a read-after-pull.  A piece that is stored in a container / attribute or handed to a callable the
interpreter cannot see into may be read at any later time: "not recognised" — the flag is emitted `opaque`, so the
dependent theorem stops compiling instead of assuming an order.
"""
import ast
import builtins

AGE_MAX = 3
UNKNOWN = ('unknown',)
SELF = ('self',)
SRC = ('src',)
MAX_DEPTH = 6
BUDGET = 400000
LOG_METHODS = {'debug', 'info', 'warning', 'warn', 'error', 'exception', 'critical', 'log'}
COPY_CALLS = {'len', 'bytes', 'bytearray', 'bool', 'str', 'repr', 'hash', 'sum', 'min', 'max', 'any', 'all', 'print', 'format', 'int', 'sorted'}
IDENTITY_CALLS = {'isinstance', 'type', 'id', 'callable'}


class Unrecognised(Exception):
    pass


_Unrecognised = Unrecognised


def const(v):
    return ('const', v)


def vmap(v, f):
    """apply f to every piece / pcopy / exhaustion atom inside a value"""
    if not isinstance(v, tuple) or not v:
        return v
    if v[0] in ('piece', 'pcopy', 'plen', 'pempty') or (v[0] == 'b' and v[1][0] == 'exh'):
        return f(v)
    if v[0] in ('tuple',):
        return ('tuple', tuple(vmap(x, f) for x in v[1]))
    if v[0] == 'partial':
        return ('partial', vmap(v[1], f), tuple(vmap(x, f) for x in v[2]), tuple((k, vmap(x, f)) for k, x in v[3]))
    if v[0] == 'calliter':
        return ('calliter', vmap(v[1], f), vmap(v[2], f))
    if v[0] == 'enum':
        return v
    return v


def _older(v):
    if v[0] == 'piece':
        return ('piece', min(v[1] + 1, AGE_MAX), v[2], v[3])
    if v[0] in ('pcopy', 'plen', 'pempty'):
        return (v[0], min(v[1] + 1, AGE_MAX)) + tuple(v[2:])
    return ('b', ('exh', min(v[1][1] + 1, AGE_MAX)), v[2])


def holds(v, kinds):
    """does the value contain a value of one of the kinds (anywhere inside tuples / partials)"""
    if not isinstance(v, tuple) or not v:
        return False
    if v[0] in kinds:
        return True
    if v[0] == 'tuple':
        return any(holds(x, kinds) for x in v[1])
    if v[0] == 'partial':
        return holds(v[1], kinds) or any(holds(x, kinds) for x in v[2]) or any(holds(x, kinds) for _, x in v[3])
    if v[0] == 'calliter':
        return holds(v[1], kinds) or holds(v[2], kinds)
    if v[0] == 'enum':
        return 'src' in kinds
    return False


class St:
    """one abstract state (treated as immutable: every change goes through a copy)"""
    __slots__ = ('env', 'known', 'app', 'atoms')

    def __init__(self, env=None, known=(None,) * (AGE_MAX + 1), app=frozenset(), atoms=()):
        self.env = env if env is not None else {}
        self.known = known
        self.app = app
        self.atoms = atoms          # sorted tuple of (atom, bool)

    def copy(self):
        return St(dict(self.env), self.known, self.app, self.atoms)

    def key(self):
        return (tuple(sorted(self.env.items(), key=lambda kv: kv[0])), self.known, self.app, self.atoms)

    def set(self, k, v):
        s = self.copy()
        s.env[k] = v
        return s

    def drop_frame(self, fid):
        s = self.copy()
        for k in [k for k in s.env if k[0] == fid]:
            del s.env[k]
        return s

    def with_known(self, age, val):
        if age >= AGE_MAX:
            return self
        k = list(self.known)
        k[age] = val
        return St(self.env, tuple(k), self.app, self.atoms)

    def with_app(self, age):
        if age >= AGE_MAX:
            return self
        return St(self.env, self.known, self.app | {age}, self.atoms)

    def atom(self, a):
        for k, v in self.atoms:
            if k == a:
                return v
        return None

    def with_atom(self, a, val):
        d = dict(self.atoms)
        d[a] = val
        return St(self.env, self.known, self.app, tuple(sorted(d.items())))

    def pulled(self):
        """the iterator was asked for one more piece: everything obtained so far is one pull older"""
        env = {k: vmap(v, _older) for k, v in self.env.items()}
        kn = self.known
        last = kn[AGE_MAX - 1] if kn[AGE_MAX - 1] == kn[AGE_MAX] else None
        known = (None,) + tuple(kn[:AGE_MAX - 1]) + (last,)
        return St(env, known, frozenset(min(a + 1, AGE_MAX) for a in self.app if a + 1 < AGE_MAX), self.atoms)


def local_names(fn):
    """names bound in the scope of `fn` (a FunctionDef / Lambda), Python's rule; (locals, nonlocal-or-global names)"""
    bound, outer = set(), set()
    a = fn.args
    for p in a.posonlyargs + a.args + a.kwonlyargs + ([a.vararg] if a.vararg else []) + ([a.kwarg] if a.kwarg else []):
        bound.add(p.arg)

    def visit(n, in_comp):
        if isinstance(n, (ast.FunctionDef, ast.AsyncFunctionDef, ast.ClassDef)):
            if not in_comp:
                bound.add(n.name)
            return
        if isinstance(n, ast.Lambda):
            return
        if isinstance(n, (ast.Global, ast.Nonlocal)):
            outer.update(n.names)
            return
        if isinstance(n, ast.NamedExpr) and isinstance(n.target, ast.Name):
            bound.add(n.target.id)
        if isinstance(n, (ast.ListComp, ast.SetComp, ast.DictComp, ast.GeneratorExp)):
            for ch in ast.iter_child_nodes(n):
                visit(ch, True)
            return
        if isinstance(n, ast.Name) and isinstance(n.ctx, (ast.Store, ast.Del)) and not in_comp:
            bound.add(n.id)
        if isinstance(n, (ast.Import, ast.ImportFrom)) and not in_comp:
            for al in n.names:
                bound.add((al.asname or al.name).split('.')[0])
        if isinstance(n, ast.ExceptHandler) and n.name and not in_comp:
            bound.add(n.name)
        for ch in ast.iter_child_nodes(n):
            visit(ch, in_comp)
    body = fn.body if isinstance(fn.body, list) else [fn.body]
    for st in body:
        visit(st, False)
    return bound - outer, outer


def is_generator(fn):
    if isinstance(fn, ast.Lambda):
        return False

    def visit(n):
        if isinstance(n, (ast.Yield, ast.YieldFrom)):
            return True
        if isinstance(n, (ast.FunctionDef, ast.AsyncFunctionDef, ast.Lambda, ast.ClassDef)):
            return False
        return any(visit(ch) for ch in ast.iter_child_nodes(n))
    return any(visit(st) for st in fn.body)


class Frame:
    def __init__(self, fid, fn, parent, cls):
        self.fid = fid
        self.fn = fn
        self.parent = parent        # lexically enclosing Frame (closures) or None
        self.cls = cls              # ClassDef the function is a method of (for `self.x`)
        self.locals, self.outer = local_names(fn) if fn is not None else (set(), set())
        self.yield_cbs = []


class Engine:
    """the abstract interpreter; `run_adapter` / `run_plain` are the entry points"""

    def __init__(self, ctx, module, fp_prefix='adapters'):
        self.ctx = ctx
        self.module = module
        self.fp_prefix = fp_prefix
        self.frames = {}
        self.reads = 0
        self.pulls = 0
        self.stale = []             # reads of a piece after a later pull
        self.cuts = []              # (ok, description) per evaluation of a `.next_cut(buffer, final)` call
        self.delegated = []         # (state, value) of `yield from <call result>` (chunkify written as a generator)
        self.stop_sinks = []
        self.steps = 0
        self.inlined = {}
        self.module_cache = {}
        self.comp_cache = {}

    # ------------------------------------------------------------------------------------------- bookkeeping
    def tick(self, node=None):
        self.steps += 1
        if self.steps > BUDGET:
            raise Unrecognised('analysis budget exceeded')

    def read(self, st, v, node):
        self.reads += 1
        if v[1] > 0:
            self.stale.append(f'line {getattr(node, "lineno", "?")}: a piece is read after the following piece was requested')

    def raise_stop(self, st):
        if self.stop_sinks:
            self.stop_sinks[-1].append(st)
        else:
            # no visible handler (inside a generator this would be a RuntimeError; a `with suppress(...)` is not followed)
            raise Unrecognised('StopIteration of the piece iterator is not caught by a visible `try`')

    # ------------------------------------------------------------------------------------------- names
    def module_value(self, name):
        if name in self.module_cache:
            return self.module_cache[name]
        found = None

        def scan(stmts):
            nonlocal found
            for s in stmts:
                if isinstance(s, (ast.FunctionDef, ast.AsyncFunctionDef)) and s.name == name:
                    found = ('func', s, None)
                elif isinstance(s, ast.ClassDef) and s.name == name:
                    found = ('class', s)
                elif isinstance(s, ast.Assign) and any(isinstance(t, ast.Name) and t.id == name for t in s.targets):
                    found = self.static_value(s.value, name)
                elif isinstance(s, ast.AnnAssign) and isinstance(s.target, ast.Name) and s.target.id == name and s.value is not None:
                    found = self.static_value(s.value, name)
                elif isinstance(s, (ast.Import, ast.ImportFrom)):
                    for al in s.names:
                        if (al.asname or al.name.split('.')[0]) == name:
                            found = ('sym', import_path(s, al))
                elif isinstance(s, (ast.If, ast.Try)):
                    for part in ('body', 'orelse', 'finalbody'):
                        scan(getattr(s, part, []))
        scan(self.module.body)
        if found is None:
            found = ('builtin', name) if hasattr(builtins, name) else ('sym', name)
        self.module_cache[name] = found
        return found

    def static_value(self, node, name):
        """value of a module / class level constant"""
        if isinstance(node, ast.Constant):
            return const(node.value)
        if isinstance(node, ast.Call) and isinstance(node.func, ast.Name) and node.func.id == 'object' and not node.args:
            return ('sentinel', (node.lineno, node.col_offset))
        if isinstance(node, ast.Name) and node.id != name:
            return self.module_value(node.id)
        if isinstance(node, ast.Lambda):
            return ('func', node, None)
        return ('sym', name)

    def owner(self, fr, name):
        """the frame whose variable `name` is, seen from `fr` (None = module level / builtin)"""
        f = fr
        first = True
        while f is not None:
            if name in f.locals and not (first and name in f.outer):
                return f
            first = False
            f = f.parent
        return None

    def lookup(self, name, st, fr):
        f = self.owner(fr, name)
        if f is not None:
            return st.env.get((f.fid, name), UNKNOWN)
        return self.module_value(name)

    def bind_name(self, name, v, st, fr):
        f = self.owner(fr, name)
        if f is None:
            if holds(v, ('piece', 'src', 'genobj')):
                raise Unrecognised(f'piece / iterator stored in the global `{name}`')
            return st
        return st.set((f.fid, name), v)

    def class_attr(self, cls, attr, seen=()):
        """FunctionDef / constant value of a class attribute, searching the bases defined in the same module"""
        if cls is None or cls in seen:
            return None
        for s in cls.body:
            if isinstance(s, (ast.FunctionDef, ast.AsyncFunctionDef)) and s.name == attr:
                decos = {d.id if isinstance(d, ast.Name) else d.attr if isinstance(d, ast.Attribute) else
                         (d.func.id if isinstance(d, ast.Call) and isinstance(d.func, ast.Name) else '') for d in s.decorator_list}
                kind = 'static' if 'staticmethod' in decos else 'class' if 'classmethod' in decos else \
                    'property' if decos & {'property', 'cached_property'} else 'inst'
                if decos - {'staticmethod', 'classmethod', 'property', 'cached_property'}:
                    return None
                return ('method', s, kind, cls)
            if isinstance(s, ast.Assign) and any(isinstance(t, ast.Name) and t.id == attr for t in s.targets):
                # a class constant — unless some method stores an attribute of that name (instance state), then the value is not known
                if any(isinstance(n, ast.Attribute) and n.attr == attr and isinstance(n.ctx, (ast.Store, ast.Del)) for n in ast.walk(self.module)):
                    return None
                v = self.static_value(s.value, '')
                return v if v[0] in ('const', 'sentinel') else None
            if isinstance(s, ast.AnnAssign) and isinstance(s.target, ast.Name) and s.target.id == attr:
                return None         # an annotated field (dataclass): the instance value is not the default
        for b in cls.bases:
            if isinstance(b, ast.Name):
                bv = self.module_value(b.id)
                if bv[0] == 'class':
                    r = self.class_attr(bv[1], attr, seen + (cls,))
                    if r is not None:
                        return r
        return None

    # ------------------------------------------------------------------------------------------- Booleans
    def mk_b(self, st, atom, pol):
        k = st.known[atom[1]] if atom[0] == 'exh' and atom[1] < AGE_MAX else st.atom(atom) if atom[0] != 'exh' else None
        if k is not None:
            return const(k == pol)
        return ('b', atom, pol)

    def truth(self, v, st, node):
        """[(state, bool)]: the value tested for truthiness; facts learnt are recorded in the states"""
        t = v[0]
        if t == 'const':
            return [(st, bool(v[1]))]
        if t == 'b':
            w = self.mk_b(st, v[1], v[2])
            if w[0] == 'const':
                return [(st, w[1])]
            atom, pol = v[1], v[2]
            if atom[0] == 'exh':
                return [(st.with_known(atom[1], True), pol), (st.with_known(atom[1], False), not pol)]
            return [(st.with_atom(atom, True), pol), (st.with_atom(atom, False), not pol)]
        if t == 'piece':
            self.read(st, v, node)
            age, sent, whole = v[1], v[2], v[3]
            if sent == 'strict' or st.known[age] is False:
                # a real piece: empty or not; an empty piece appended or not makes no difference
                return [(st, True), (st.with_app(age) if whole else st, False)]
            if st.known[age] is True and sent == 'none':
                return [(st, False)]
            if sent == 'none':
                return [(st.with_known(age, False), True), (st.with_app(age) if whole else st, False)]
            return [(st, True), (st.with_app(age) if whole else st, False)]
        if t == 'pempty':
            return [(st.with_app(v[1]), v[2]), (st, not v[2])]
        if t == 'plen':
            # the length of a piece tested: an EMPTY piece appended or not makes no difference (no read: it was read by len())
            return [(st, True), (st.with_app(v[1]), False)]
        if t == 'sym':
            k = st.atom(('truthy', v[1]))
            if k is not None:
                return [(st, k)]
            return [(st.with_atom(('truthy', v[1]), True), True), (st.with_atom(('truthy', v[1]), False), False)]
        if t == 'tuple':
            return [(st, bool(v[1]))]
        if t in ('func', 'method', 'partial', 'class', 'builtin', 'sentinel', 'self', 'genobj', 'src'):
            return [(st, True)]
        return [(st, True), (st, False)]

    def cond(self, node, st, fr):
        self.tick()
        if isinstance(node, ast.BoolOp):
            want = isinstance(node.op, ast.And)
            res, cur = [], [st]
            for vn in node.values:
                nxt = []
                for s in cur:
                    for s2, t in self.cond(vn, s, fr):
                        (nxt if t == want else res).append(s2 if t == want else (s2, t))
                cur = nxt
            return res + [(s, want) for s in cur]
        if isinstance(node, ast.UnaryOp) and isinstance(node.op, ast.Not):
            return [(s, not t) for s, t in self.cond(node.operand, st, fr)]
        out = []
        for s, v in self.ev(node, st, fr, True):
            out += self.truth(v, s, node)
        return out

    def compare(self, op, a, b, st, node):
        """value of `a <op> b` for a single comparison"""
        ident = isinstance(op, (ast.Is, ast.IsNot))
        eq = isinstance(op, (ast.Eq, ast.NotEq))
        pos = isinstance(op, (ast.Is, ast.Eq))
        if ident or eq:
            for x, y in ((a, b), (b, a)):
                if x[0] == 'piece':
                    is_sent = (y == const(None) and x[2] == 'none') or (y[0] == 'sentinel' and x[2] == y)
                    other_sent = y == const(None) or y[0] == 'sentinel'
                    if is_sent:
                        return self.mk_b(st, ('exh', x[1]), pos)
                    if other_sent and (ident or y == const(None)):
                        if x[2] == 'strict' or st.known[x[1]] is False:
                            return const(not pos)
                        return UNKNOWN
                    if ident:
                        if y[0] == 'piece' and y[:3] == x[:3] and y[3] and x[3]:
                            return const(pos)
                        return UNKNOWN
            for x, y in ((a, b), (b, a)):
                if x[0] == 'b' and y[0] == 'const' and isinstance(y[1], bool):
                    return self.mk_b(st, x[1], x[2] if y[1] == pos else not x[2])
            if a[0] == 'const' and b[0] == 'const':
                same = (a[1] is b[1]) if ident else (a[1] == b[1] and type(a[1]) is type(b[1]))
                if ident and not (a[1] is None or b[1] is None or isinstance(a[1], bool) or isinstance(b[1], bool)):
                    return UNKNOWN
                return const(same == pos)
            if a[0] == 'sentinel' and b[0] == 'sentinel':
                return const((a == b) == pos)
            if {a[0], b[0]} == {'sentinel', 'const'}:
                return const(not pos)
            for x, y in ((a, b), (b, a)):
                if x[0] == 'sym' and y == const(None):
                    return self.mk_b(st, ('isnone', x[1]), pos)
        # len(piece) against 0 / 1: "the piece is empty"
        for x, y, flip in ((a, b, False), (b, a, True)):
            if x[0] == 'plen' and y[0] == 'const' and type(y[1]) is int:
                name = type(op).__name__
                if flip:
                    name = {'Lt': 'Gt', 'Gt': 'Lt', 'LtE': 'GtE', 'GtE': 'LtE'}.get(name, name)
                empty_if = {('Eq', 0): True, ('NotEq', 0): False, ('Gt', 0): False, ('LtE', 0): True, ('Lt', 1): True, ('GtE', 1): False}.get((name, y[1]))
                if empty_if is not None:
                    return ('pempty', x[1], empty_if)
        if not ident:
            self.consume(a, st, node)
            self.consume(b, st, node)
        return UNKNOWN

    # ------------------------------------------------------------------------------------------- uses of values
    def consume(self, v, st, node):
        """the value is used in a position that looks at it now (and does not keep it)"""
        t = v[0] if isinstance(v, tuple) and v else None
        if t == 'piece':
            self.read(st, v, node)
        elif t in ('src', 'enum'):
            raise Unrecognised(f'piece iterator used as a value at line {getattr(node, "lineno", "?")}')
        elif t == 'genobj':
            raise Unrecognised(f'generator object used as a value at line {getattr(node, "lineno", "?")}')
        elif t in ('tuple', 'partial', 'calliter'):
            if holds(v, ('piece', 'src', 'genobj')):
                raise Unrecognised(f'piece / iterator inside a compound value used at line {getattr(node, "lineno", "?")}')

    def escape_check(self, v, st, fr, node, what):
        """the value is handed to something the interpreter cannot see into"""
        if holds(v, ('piece',)):
            raise Unrecognised(f'piece passed to `{what}` at line {getattr(node, "lineno", "?")} (may be retained)')
        if holds(v, ('src', 'genobj')):
            raise Unrecognised(f'piece iterator passed to `{what}` at line {getattr(node, "lineno", "?")}')
        if holds(v, ('func',)):
            self.closure_check(v, st, node, what)

    def closure_check(self, v, st, node, what):
        if v[0] == 'func':
            fn, dfid = v[1], v[2]
            dfr = self.frames.get(dfid)
            if dfr is None:
                return
            for n in ast.walk(fn):
                if isinstance(n, ast.Name):
                    f = self.owner(dfr, n.id)
                    if f is not None and holds(st.env.get((f.fid, n.id), UNKNOWN), ('piece', 'src', 'genobj')):
                        raise Unrecognised(f'piece / iterator captured by a function passed to `{what}` at line {getattr(node, "lineno", "?")}')
                if isinstance(n, ast.Attribute) and n.attr == 'next_cut':
                    raise Unrecognised(f'next_cut inside a function passed to `{what}`')
        elif v[0] in ('tuple',):
            for x in v[1]:
                if isinstance(x, tuple):
                    self.closure_check(x, st, node, what)
        elif v[0] == 'partial':
            self.closure_check(v[1], st, node, what)

    def append(self, st, v, node):
        """`buffer += v` / `buffer.extend(v)`: the bytes of v are copied into a reassembly buffer now"""
        if v[0] == 'piece':
            self.read(st, v, node)
            return st.with_app(v[1]) if v[3] else st
        if v[0] == 'pcopy':
            return st.with_app(v[1])
        self.consume(v, st, node)
        return st

    # ------------------------------------------------------------------------------------------- expressions
    def ev_list(self, nodes, st, fr, alias=True):
        """[(state, [values])] — the expressions evaluated left to right"""
        outs = [(st, [])]
        for n in nodes:
            nxt = []
            for s, vs in outs:
                for s2, v in self.ev(n, s, fr, alias):
                    nxt.append((s2, vs + [v]))
            outs = nxt
        return outs

    def ev(self, node, st, fr, alias=False):
        """[(state, value)].  alias=True: a piece reaching this position flows on unchanged (no read)."""
        outs = self.ev_(node, st, fr)
        if not alias:
            for s, v in outs:
                self.consume(v, s, node)
        return outs

    def ev_(self, node, st, fr):
        self.tick()
        if node is None:
            return [(st, const(None))]
        if isinstance(node, ast.Constant):
            return [(st, const(node.value))]
        if isinstance(node, ast.Name):
            return [(st, self.lookup(node.id, st, fr))]
        if isinstance(node, ast.NamedExpr):
            return [(self.bind(node.target, v, s, fr), v) for s, v in self.ev(node.value, st, fr, True)]
        if isinstance(node, ast.Tuple):
            if any(isinstance(e, ast.Starred) for e in node.elts):
                return self.opaque_children(node, st, fr)
            return [(s, ('tuple', tuple(vs))) for s, vs in self.ev_list(node.elts, st, fr)]
        if isinstance(node, ast.IfExp):
            out = []
            for s, t in self.cond(node.test, st, fr):
                out += self.ev(node.body if t else node.orelse, s, fr, True)
            return out
        if isinstance(node, ast.BoolOp):
            return self.ev_boolop(node, st, fr)
        if isinstance(node, ast.UnaryOp):
            out = []
            for s, v in self.ev(node.operand, st, fr, True):
                if isinstance(node.op, ast.Not):
                    if v[0] == 'b':
                        out.append((s, self.mk_b(s, v[1], not v[2])))
                        continue
                    if v[0] == 'const':
                        out.append((s, const(not v[1])))
                        continue
                    if v[0] == 'sym':
                        out.append((s, self.mk_b(s, ('truthy', v[1]), False)))
                        continue
                    if v[0] == 'pempty':
                        out.append((s, ('pempty', v[1], not v[2])))
                        continue
                self.consume(v, s, node)
                out.append((s, UNKNOWN))
            return out
        if isinstance(node, ast.Compare):
            if len(node.ops) != 1:
                return self.opaque_children(node, st, fr)
            out = []
            for s, (a, b) in self.ev_list([node.left, node.comparators[0]], st, fr):
                out.append((s, self.compare(node.ops[0], a, b, s, node)))
            return out
        if isinstance(node, ast.Call):
            return self.ev_call(node, st, fr)
        if isinstance(node, ast.Attribute):
            out = []
            for s, b in self.ev(node.value, st, fr, True):
                if node.attr == 'next_cut':
                    self.consume(b, s, node)
                    out.append((s, ('attr', UNKNOWN, 'next_cut')))
                else:
                    out += self.attribute(b, node.attr, s, fr, node)
            return out
        if isinstance(node, ast.Subscript):
            return self.ev_subscript(node, st, fr)
        if isinstance(node, ast.BinOp):
            out = []
            for s, (a, b) in self.ev_list([node.left, node.right], st, fr):
                if isinstance(node.op, ast.Add) and a[0] in ('buf', 'unknown') and b[0] in ('piece', 'pcopy'):
                    out.append((self.append(s, b, node), a))        # `buffer + piece`: a concatenation copies the bytes now
                    continue
                self.consume(a, s, node)
                self.consume(b, s, node)
                out.append((s, UNKNOWN))
            return out
        if isinstance(node, ast.Lambda):
            return [(st, ('func', node, fr.fid))]
        if isinstance(node, (ast.Yield,)):
            out = []
            for s, v in self.ev(node.value, st, fr, True) if node.value is not None else [(st, const(None))]:
                for s2 in self.do_yield(s, v, fr, node):
                    out.append((s2, UNKNOWN))
            return out
        if isinstance(node, ast.YieldFrom):
            out = []
            for s, v in self.ev(node.value, st, fr, True):
                if v[0] == 'genobj':
                    for s2 in self.run_gen(v, s, lambda s3, y, _fr=fr, _n=node: self.do_yield(s3, y, _fr, _n), node):
                        out.append((s2, UNKNOWN))
                elif v[0] in ('src', 'enum'):
                    raise Unrecognised('yield from the piece iterator')
                elif v[0] == 'tuple':
                    cur = [s]
                    for x in v[1]:
                        cur = [s3 for s2 in cur for s3 in self.do_yield(s2, x, fr, node)]
                    out += [(s2, UNKNOWN) for s2 in cur]
                else:
                    self.consume(v, s, node)
                    self.delegated.append((s, v))
                    out.append((s, UNKNOWN))
            return out
        if isinstance(node, (ast.JoinedStr, ast.FormattedValue)):
            return self.opaque_children(node, st, fr)
        if isinstance(node, (ast.List, ast.Set, ast.Dict)):
            outs = self.ev_list([c for c in ast.iter_child_nodes(node) if isinstance(c, ast.expr) and not isinstance(c, ast.expr_context)], st, fr)
            for s, vs in outs:
                for v in vs:
                    if holds(v, ('piece', 'src', 'genobj')):
                        raise Unrecognised(f'piece / iterator stored in a container at line {node.lineno}')
            return [(s, UNKNOWN) for s, _ in outs]
        if isinstance(node, (ast.ListComp, ast.SetComp, ast.GeneratorExp)):
            # a comprehension = an anonymous generator `for … in …: if …: yield elt` (its variables are its own)
            fn = self.comprehension_function(node)
            outs = self.call_function(('func', fn, fr.fid), [], {}, st, fr, node)
            if isinstance(node, ast.GeneratorExp):
                return outs
            res = []
            for s, g in outs:
                res += [(s2, UNKNOWN) for s2 in self.run_gen(g, s, lambda s3, y, _n=node: self.into_container(s3, y, _n), node)]
            return res
        if isinstance(node, ast.DictComp):
            for n in ast.walk(node):
                if isinstance(n, ast.Name) and isinstance(n.ctx, ast.Load):
                    if holds(self.lookup(n.id, st, fr), ('piece', 'src', 'genobj')):
                        raise Unrecognised(f'piece / iterator captured by a comprehension at line {node.lineno}')
                if isinstance(n, ast.Attribute) and n.attr == 'next_cut':
                    raise Unrecognised('next_cut inside a comprehension')
            return [(st, UNKNOWN)]
        if isinstance(node, ast.Starred):
            return self.opaque_children(node, st, fr)
        if isinstance(node, ast.Slice):
            return self.opaque_children(node, st, fr)
        if isinstance(node, (ast.Await,)):
            raise Unrecognised(f'expression {type(node).__name__} at line {node.lineno}')
        return self.opaque_children(node, st, fr)

    def comprehension_function(self, node):
        if node in self.comp_cache:
            return self.comp_cache[node]
        body = [ast.Expr(value=ast.Yield(value=node.elt))]
        for gen in reversed(node.generators):
            if gen.is_async:
                raise Unrecognised(f'async comprehension at line {node.lineno}')
            for test in reversed(gen.ifs):
                body = [ast.If(test=test, body=body, orelse=[])]
            body = [ast.For(target=gen.target, iter=gen.iter, body=body, orelse=[])]
        fn = ast.FunctionDef(name='<comprehension>', args=ast.arguments(posonlyargs=[], args=[], vararg=None, kwonlyargs=[], kw_defaults=[],
                                                                        kwarg=None, defaults=[]), body=body, decorator_list=[], returns=None)
        ast.copy_location(fn, node)
        for n in ast.walk(fn):
            if not hasattr(n, 'lineno'):
                ast.copy_location(n, node)
        ast.fix_missing_locations(fn)
        self.comp_cache[node] = fn
        return fn

    def into_container(self, st, v, node):
        if holds(v, ('piece', 'src', 'genobj')):
            raise Unrecognised(f'piece / iterator stored in a container at line {getattr(node, "lineno", "?")}')
        return [st]

    def drain_gen(self, g, st, node):
        """a generator object handed to something that consumes it now and looks at every item (sum, any, b''.join, …)"""
        def on_yield(s, y):
            self.consume(y, s, node)
            return [s]
        return self.run_gen(g, st, on_yield, node)

    def opaque_children(self, node, st, fr):
        """evaluate the sub-expressions for their effects (reads), the result is unknown"""
        kids = [c for c in ast.iter_child_nodes(node) if isinstance(c, ast.expr)]
        for c in ast.iter_child_nodes(node):
            if isinstance(c, (ast.keyword, ast.FormattedValue)) and not isinstance(c, ast.expr):
                kids.append(c.value)
        outs = self.ev_list(kids, st, fr, alias=False)
        return [(s, UNKNOWN) for s, _ in outs]

    def ev_boolop(self, node, st, fr):
        want = isinstance(node.op, ast.And)
        res, cur = [], [st]
        for i, vn in enumerate(node.values):
            last = i == len(node.values) - 1
            nxt = []
            for s in cur:
                for s2, v in self.ev(vn, s, fr, True):
                    if last:
                        res.append((s2, v))
                        continue
                    for s3, t in self.truth(v, s2, vn):
                        if t == want:
                            nxt.append(s3)
                        else:
                            res.append((s3, const(t) if v[0] == 'b' else v))
            cur = nxt
        return res

    def attribute(self, b, attr, st, fr, node):
        if b == SELF or b[0] == 'class':
            cls = fr_cls(self, fr) if b == SELF else b[1]
            if b == SELF and attr == '__class__' and cls is not None:
                return [(st, ('class', cls))]
            r = self.class_attr(cls, attr)
            if r is not None and r[0] == 'method':
                if r[2] == 'property' and b == SELF:
                    return self.call_function(('func', r[1], None), [SELF], {}, st, fr, node, cls=r[3])
                return [(st, ('bound', r, b))]
            if r is not None:
                return [(st, r)]
            return [(st, ('sym', ('self' if b == SELF else b[1].name) + '.' + attr))]
        if b[0] == 'sym':
            return [(st, ('sym', b[1] + '.' + attr))]
        if b[0] in ('src', 'buf', 'genobj'):
            return [(st, ('attr', b, attr))]
        if b[0] == 'piece':
            self.read(st, b, node)
            return [(st, UNKNOWN)]
        if b[0] == 'callres' or b[0] == 'unknown':
            return [(st, ('attr', UNKNOWN, attr))]
        self.consume(b, st, node)
        return [(st, ('attr', UNKNOWN, attr))]

    def ev_subscript(self, node, st, fr):
        out = []
        for s, b in self.ev(node.value, st, fr, True):
            sl = node.slice
            if b[0] == 'piece':
                for s2, _ in self.ev(sl, s, fr, False):
                    if isinstance(sl, ast.Slice):
                        out.append((s2, ('piece', b[1], b[2], False)))      # a view / copy of part of the piece
                    else:
                        self.read(s2, b, node)
                        out.append((s2, UNKNOWN))
                continue
            if b[0] == 'sym' and isinstance(sl, ast.Constant):
                out.append((s, ('sym', f'{b[1]}[{sl.value!r}]')))
                continue
            if b[0] == 'tuple' and isinstance(sl, ast.Constant) and isinstance(sl.value, int) and -len(b[1]) <= sl.value < len(b[1]):
                out.append((s, b[1][sl.value]))
                continue
            self.consume(b, s, node)
            for s2, _ in self.ev(sl, s, fr, False):
                out.append((s2, UNKNOWN))
        return out

    # ------------------------------------------------------------------------------------------- calls
    def pull(self, st, sent):
        self.pulls += 1
        s = st.pulled()
        if sent == 'strict':
            ok = s.with_known(0, False)
            self.raise_stop(s.with_known(0, True))
            return [(ok, ('piece', 0, 'strict', True))]
        return [(s, ('piece', 0, sent, True))]

    def sentinel_of(self, v, node):
        if v == const(None):
            return 'none'
        if v[0] == 'sentinel':
            return v
        raise Unrecognised(f'default of next() at line {node.lineno} is neither None nor an `object()` sentinel')

    def ev_call(self, node, st, fr):
        f = node.func
        if any(isinstance(a, ast.Starred) for a in node.args) or any(k.arg is None for k in node.keywords):
            outs = self.ev_list([f] + [a.value if isinstance(a, ast.Starred) else a for a in node.args] + [k.value for k in node.keywords], st, fr)
            for s, vs in outs:
                for v in vs[1:]:
                    self.escape_check(v, s, fr, node, self.ctx.unparse(f))
            return [(s, UNKNOWN) for s, _ in outs]
        out = []
        for s0, fv in self.ev(f, st, fr, True):
            for s, vals in self.ev_list(list(node.args) + [k.value for k in node.keywords], s0, fr):
                args = vals[:len(node.args)]
                kwargs = {k.arg: v for k, v in zip(node.keywords, vals[len(node.args):])}
                out += self.apply(fv, args, kwargs, s, fr, node)
        return out

    def apply(self, fv, args, kwargs, st, fr, node):
        self.tick()
        what = self.ctx.unparse(node.func) if isinstance(node, ast.Call) else '<callable>'
        t = fv[0]
        # --- the native chunker
        if t == 'attr' and fv[2] == 'next_cut':
            self.cut_site(args, kwargs, st, node)
            for v in args + list(kwargs.values()):
                if v[0] != 'buf':
                    self.consume(v, st, node)
            return [(st, UNKNOWN)]
        # --- the iterator protocol
        if t == 'builtin' and fv[1] == 'next' and args and not kwargs:
            if args[0][0] == 'src':
                if len(args) == 1:
                    return self.pull(st, 'strict')
                return self.pull(st, self.sentinel_of(args[1], node))
            if args[0][0] in ('genobj', 'enum'):
                raise Unrecognised(f'next() on a helper generator at line {node.lineno}')
        if t == 'attr' and fv[1] == SRC and fv[2] == '__next__' and not args:
            return self.pull(st, 'strict')
        if t == 'attr' and fv[1] == SRC and fv[2] == '__iter__' and not args:
            return [(st, SRC)]
        if t == 'builtin' and fv[1] == 'iter' and not kwargs:
            if len(args) == 1:
                if args[0][0] in ('src', 'genobj', 'sym', 'enum'):
                    return [(st, args[0])]
                if args[0][0] == 'tuple':
                    return [(st, args[0])]
            if len(args) == 2:
                return [(st, ('calliter', args[0], args[1]))]
        if t == 'builtin' and fv[1] == 'enumerate' and args and args[0][0] == 'src':
            for v in args[1:] + list(kwargs.values()):
                self.consume(v, st, node)
            return [(st, ('enum', SRC))]
        # --- builtins with a known meaning
        if t == 'builtin':
            name = fv[1]
            if name == 'bool' and len(args) == 1 and not kwargs:
                v = args[0]
                if v[0] == 'b':
                    return [(st, v)]
                if v[0] == 'const':
                    return [(st, const(bool(v[1])))]
                if v[0] == 'sym':
                    return [(st, self.mk_b(st, ('truthy', v[1]), True))]
                self.consume(v, st, node)
                return [(st, UNKNOWN)]
            if name == 'object' and not args:
                return [(st, ('sentinel', (node.lineno, node.col_offset)))]
            if name == 'bytearray' and not kwargs and all(v[0] == 'const' for v in args):
                return [(st, ('buf', (node.lineno, node.col_offset)))]
            if name in ('bytes', 'bytearray') and len(args) == 1 and args[0][0] == 'piece' and args[0][3]:
                self.read(st, args[0], node)
                return [(st, ('pcopy', args[0][1]))]
            if name == 'type' and args == [SELF] and not kwargs and fr_cls(self, fr) is not None:
                return [(st, ('class', fr_cls(self, fr)))]
            if name == 'len' and len(args) == 1 and not kwargs and args[0][0] == 'piece' and args[0][3]:
                self.read(st, args[0], node)
                return [(st, ('plen', args[0][1], args[0][2]))]
            if name in IDENTITY_CALLS:
                for v in args + list(kwargs.values()):
                    if v[0] != 'piece':
                        self.consume(v, st, node)
                return [(st, UNKNOWN)]
            if name in COPY_CALLS | {'list', 'tuple', 'set', 'frozenset'} and any(v[0] == 'genobj' for v in args):
                cur = [st]
                for v in args + list(kwargs.values()):
                    if v[0] == 'genobj':
                        cur = [s2 for s in cur for s2 in (self.drain_gen(v, s, node) if name in COPY_CALLS else
                                                          self.run_gen(v, s, lambda s3, y: self.into_container(s3, y, node), node))]
                    else:
                        for s in cur:
                            self.consume(v, s, node)
                return [(s, UNKNOWN) for s in cur]
            if name in COPY_CALLS:
                for v in args + list(kwargs.values()):
                    if holds(v, ('src', 'genobj')) and v[0] != 'piece':
                        raise Unrecognised(f'piece iterator passed to `{name}` at line {node.lineno}')
                    self.consume(v, st, node)
                return [(st, UNKNOWN)]
            if name == 'partial' or name == 'functools.partial':
                pass
            if name == 'memoryview' and len(args) == 1 and not kwargs and args[0][0] == 'piece':
                return [(st, args[0])]          # another handle on the same bytes: reading it is reading the piece, whenever that happens
        if t == 'sym' and fv[1].startswith('operator.') and not kwargs:
            op = fv[1].split('.', 1)[1]
            if op in ('is_', 'is_not', 'eq', 'ne') and len(args) == 2:
                cmpop = {'is_': ast.Is, 'is_not': ast.IsNot, 'eq': ast.Eq, 'ne': ast.NotEq}[op]()
                return [(st, self.compare(cmpop, args[0], args[1], st, node))]
            if op in ('iadd', 'add', 'concat', 'iconcat') and len(args) == 2 and args[0][0] in ('buf', 'unknown') and args[1][0] in ('piece', 'pcopy'):
                return [(self.append(st, args[1], node), args[0])]
            if op in ('not_', 'truth') and len(args) == 1 and args[0][0] in ('b', 'const'):
                v = args[0]
                neg = op == 'not_'
                return [(st, const(bool(v[1]) != neg) if v[0] == 'const' else self.mk_b(st, v[1], v[2] != neg))]
        if (t == 'sym' and fv[1] in ('partial', 'functools.partial')) and args:
            return [(st, ('partial', args[0], tuple(args[1:]), tuple(sorted(kwargs.items()))))]
        # --- inlining
        if t == 'partial':
            return self.apply(fv[1], list(fv[2]) + args, {**dict(fv[3]), **kwargs}, st, fr, node)
        if t == 'func':
            return self.call_function(fv, args, kwargs, st, fr, node)
        if t == 'bound':
            meth, recv = fv[1], fv[2]
            fn, kind, cls = meth[1], meth[2], meth[3]
            if kind == 'static':
                return self.call_function(('func', fn, None), args, kwargs, st, fr, node, cls=cls)
            if kind == 'class':
                return self.call_function(('func', fn, None), [('class', cls)] + args, kwargs, st, fr, node, cls=cls)
            if recv == SELF:
                return self.call_function(('func', fn, None), [SELF] + args, kwargs, st, fr, node, cls=cls)
            return self.call_function(('func', fn, None), args, kwargs, st, fr, node, cls=cls)
        if t == 'class':
            pass
        # --- the reassembly buffer
        if t in ('attr', 'sym') and (fv[2] if t == 'attr' else fv[1].rsplit('.', 1)[-1]) in ('extend', '__iadd__') \
                and len(args) == 1 and not kwargs and args[0][0] in ('piece', 'pcopy'):
            return [(self.append(st, args[0], node), UNKNOWN)]      # copies the bytes now, whatever kind of buffer it is
        if t == 'attr' and fv[1][0] == 'buf':
            for v in args + list(kwargs.values()):
                self.consume(v, st, node)
            return [(st, UNKNOWN)]
        if isinstance(node, ast.Call) and isinstance(node.func, ast.Attribute) and node.func.attr == 'join' and len(args) == 1 and args[0][0] == 'genobj':
            return [(s, UNKNOWN) for s in self.drain_gen(args[0], st, node)]
        # --- logging: formats (reads) its arguments now
        if isinstance(node, ast.Call) and isinstance(node.func, ast.Attribute) and node.func.attr in LOG_METHODS and t in ('sym', 'attr'):
            for v in args + list(kwargs.values()):
                self.consume(v, st, node)
            return [(st, UNKNOWN)]
        # --- anything else: not visible
        for v in args + list(kwargs.values()):
            self.escape_check(v, st, fr, node, what)
        if t == 'sym':
            res = ('callres', fv[1], tuple(args), tuple(sorted(kwargs.items())))
            return [(st, res if depth_of(res) <= 3 else UNKNOWN)]
        return [(st, UNKNOWN)]

    def cut_site(self, args, kwargs, st, node):
        fin = args[1] if len(args) > 1 else kwargs.get('final', const(False))
        ok, why = False, ''
        if fin[0] == 'b' and fin[1] == ('exh', 0):
            ok = fin[2]
            why = '' if ok else 'the finality flag is the NEGATION of "the look-ahead piece is the end marker"'
        elif fin[0] == 'const' and isinstance(fin[1], bool):
            ok = st.known[0] is not None and st.known[0] == fin[1]
            why = '' if ok else f'finality {fin[1]} is passed where the look-ahead is not known to be {"the end marker" if fin[1] else "a piece"}'
        elif fin[0] == 'b' and fin[1][0] == 'exh':
            why = f'finality is decided by a piece obtained {fin[1][1]} pull(s) before the look-ahead'
        else:
            why = 'finality is not "the most recently requested piece is the end marker"'
        if ok and 0 in st.app:
            ok = False
            why = 'the most recently requested piece is already in the buffer when next_cut runs (no look-ahead)'
        elif ok and 1 not in st.app:
            ok = False
            why = 'next_cut runs although the piece before the look-ahead was not appended whole to the buffer'
        self.cuts.append((ok, f'line {node.lineno}: {why}' if why else ''))

    def call_function(self, fv, args, kwargs, st, fr, node, cls=None):
        fn, dfid = fv[1], fv[2]
        site = (getattr(node, 'lineno', 0), getattr(node, 'col_offset', 0), getattr(fn, 'lineno', 0))
        fid = fr.fid + (site,)
        if len(fid) > MAX_DEPTH or sum(1 for x in fid if x[2] == site[2]) > 2:
            raise Unrecognised(f'calls nested too deeply / recursion at line {getattr(node, "lineno", "?")}')
        parent = self.frames.get(dfid) if dfid is not None else None
        if cls is None and parent is not None:
            cls = fr_cls(self, parent)
        new = self.frames.get(fid)
        if new is None:
            new = self.frames[fid] = Frame(fid, fn, parent, cls)
        name = getattr(fn, 'name', '<lambda>')
        if name not in self.inlined and not isinstance(fn, ast.Lambda) and name != '<comprehension>':
            self.inlined[name] = fn
        st = st.drop_frame(fid)
        # --- bind the parameters
        a = fn.args
        pos = a.posonlyargs + a.args
        if len(args) > len(pos) and a.vararg is None:
            raise Unrecognised(f'call of `{name}` at line {getattr(node, "lineno", "?")} with too many arguments')
        defaults = dict(zip([p.arg for p in pos][len(pos) - len(a.defaults):], a.defaults))
        defaults.update({p.arg: d for p, d in zip(a.kwonlyargs, a.kw_defaults) if d is not None})
        kwargs = dict(kwargs)
        for i, p in enumerate(pos + a.kwonlyargs):
            if i < len(pos) and i < len(args):
                v = args[i]
            elif p.arg in kwargs:
                v = kwargs.pop(p.arg)
            elif p.arg in defaults:
                d = defaults[p.arg]
                v = const(d.value) if isinstance(d, ast.Constant) else UNKNOWN
            else:
                v = UNKNOWN
            st = st.set((fid, p.arg), v)
        extra = list(args[len(pos):]) + list(kwargs.values())
        for v in extra:
            if holds(v, ('piece', 'src', 'genobj')):
                raise Unrecognised(f'piece / iterator passed through *args / **kwargs of `{name}`')
        if a.vararg:
            st = st.set((fid, a.vararg.arg), UNKNOWN)
        if a.kwarg:
            st = st.set((fid, a.kwarg.arg), UNKNOWN)
        if isinstance(fn, ast.Lambda):
            return [(s.drop_frame(fid), v) for s, v in self.ev(fn.body, st, new, True)]
        if is_generator(fn):
            return [(st, ('genobj', fn, fid))]
        out = []
        for kind, s, v in self.block(fn.body, st, new):
            if kind == 'next':
                out.append((s.drop_frame(fid), const(None)))
            elif kind == 'return':
                out.append((s.drop_frame(fid), v))
            else:
                raise Unrecognised(f'`{kind}` leaves the function `{name}`')
        return out

    def run_gen(self, g, st, on_yield, node):
        """run a helper generator to its end; every value it yields goes to on_yield(state, value) -> [states that resume it]"""
        fn, fid = g[1], g[2]
        fr = self.frames[fid]
        fr.yield_cbs.append(on_yield)
        try:
            outs = self.block(fn.body, st, fr)
        finally:
            fr.yield_cbs.pop()
        res = []
        for kind, s, v in outs:
            if kind in ('next', 'return'):
                res.append(s.drop_frame(fid))
            else:
                raise Unrecognised(f'`{kind}` leaves the generator `{fn.name}`')
        return res

    def do_yield(self, st, v, fr, node):
        if fr.yield_cbs:
            return fr.yield_cbs[-1](st, v)
        # the analysed function itself: the value goes to the consumer, who may look at it at any later time
        if holds(v, ('piece', 'src', 'genobj')):
            raise Unrecognised(f'a piece / the iterator itself is yielded to the consumer at line {getattr(node, "lineno", "?")} (may be read later)')
        return [st]

    # ------------------------------------------------------------------------------------------- binding
    def bind(self, target, v, st, fr):
        if isinstance(target, ast.Name):
            return self.bind_name(target.id, v, st, fr)
        if isinstance(target, (ast.Tuple, ast.List)):
            if any(isinstance(e, ast.Starred) for e in target.elts):
                if holds(v, ('piece', 'src', 'genobj')):
                    raise Unrecognised('piece / iterator unpacked with a starred target')
                for e in target.elts:
                    st = self.bind(e.value if isinstance(e, ast.Starred) else e, UNKNOWN, st, fr)
                return st
            if v[0] == 'tuple' and len(v[1]) == len(target.elts):
                for t, x in zip(target.elts, v[1]):
                    st = self.bind(t, x, st, fr)
                return st
            if holds(v, ('piece', 'src', 'genobj')):
                raise Unrecognised(f'piece / iterator unpacked at line {target.lineno}')
            for t in target.elts:
                st = self.bind(t, UNKNOWN, st, fr)
            return st
        if isinstance(target, ast.Starred):
            return self.bind(target.value, UNKNOWN, st, fr)
        # attribute / subscript store
        if isinstance(target, ast.Subscript):
            for s, b in self.ev(target.value, st, fr, True):
                if b[0] == 'buf' and v[0] in ('piece', 'pcopy'):
                    # `buffer[len(buffer):] = piece`: copied now
                    st = self.append(s, ('piece', v[1], v[2], False) if v[0] == 'piece' else v, target)
                    for s2, _ in self.ev(target.slice, st, fr, False):
                        st = s2
                    return st
        if holds(v, ('piece', 'src', 'genobj')):
            raise Unrecognised(f'piece / iterator stored into `{self.ctx.unparse(target)}`')
        for s, _ in self.ev(target.value, st, fr, True):
            st = s
        if isinstance(target, ast.Subscript):
            for s, _ in self.ev(target.slice, st, fr, False):
                st = s
        return st

    # ------------------------------------------------------------------------------------------- statements
    def block(self, stmts, st, fr):
        """[(kind, state, value)], kind in next / break / continue / return"""
        cur = [st]
        out = []
        for s in stmts:
            nxt = []
            seen = set()
            for c in cur:
                for kind, s2, v in self.stmt(s, c, fr):
                    if kind == 'next':
                        k = s2.key()
                        if k not in seen:
                            seen.add(k)
                            nxt.append(s2)
                    else:
                        out.append((kind, s2, v))
            cur = nxt
            if not cur:
                break
        return out + [('next', c, None) for c in cur]

    def loop(self, heads, step, orelse, fr):
        """fixpoint over the states reaching the loop head.  step(state) -> (body outcomes [(kind, state, value)], [exit states])"""
        out = []
        seen = set()
        work = list(heads)
        exits = []
        while work:
            h = work.pop()
            k = h.key()
            if k in seen:
                continue
            seen.add(k)
            self.tick()
            body, done = step(h)
            exits += done
            for kind, s, v in body:
                if kind in ('next', 'continue'):
                    work.append(s)
                elif kind == 'break':
                    out.append(('next', s, None))
                else:
                    out.append((kind, s, v))
        dd = set()
        for e in exits:
            if e.key() in dd:
                continue
            dd.add(e.key())
            out += self.block(orelse, e, fr) if orelse else [('next', e, None)]
        return out

    def stmt(self, s, st, fr):
        self.tick(s)
        N = lambda states: [('next', x, None) for x in states]  # noqa: E731
        if isinstance(s, ast.Expr):
            return N([s2 for s2, _ in self.ev(s.value, st, fr, isinstance(s.value, (ast.Yield, ast.YieldFrom, ast.Call, ast.NamedExpr)))])
        if isinstance(s, ast.Assign):
            out = []
            for s2, v in self.ev(s.value, st, fr, True):
                for t in s.targets:
                    s2 = self.bind(t, v, s2, fr)
                out.append(s2)
            return N(out)
        if isinstance(s, ast.AnnAssign):
            if s.value is None:
                return N([st])
            return N([self.bind(s.target, v, s2, fr) for s2, v in self.ev(s.value, st, fr, True)])
        if isinstance(s, ast.AugAssign):
            out = []
            for s2, v in self.ev(s.value, st, fr, True):
                if isinstance(s.target, ast.Name):
                    cur = self.lookup(s.target.id, s2, fr)
                    if isinstance(s.op, ast.Add) and (cur[0] == 'buf' or (v[0] in ('piece', 'pcopy') and cur[0] in ('unknown', 'sym'))):
                        # `buffer += piece`: the bytes are copied now, whatever kind of buffer it is
                        out.append(self.append(s2, v, s))
                        continue
                    self.consume(v, s2, s)
                    self.consume(cur, s2, s)
                    out.append(self.bind_name(s.target.id, UNKNOWN, s2, fr))
                else:
                    hit = False
                    for s3, b in self.ev(s.target, s2, fr, True):
                        if b[0] == 'buf' and isinstance(s.op, ast.Add):
                            out.append(self.append(s3, v, s))
                        else:
                            self.consume(v, s3, s)
                            self.consume(b, s3, s)
                            out.append(s3)
                        hit = True
                    if not hit:
                        out.append(s2)
            return N(out)
        if isinstance(s, ast.Return):
            return [('return', s2, v) for s2, v in self.ev(s.value, st, fr, True)]
        if isinstance(s, ast.If):
            out = []
            for s2, t in self.cond(s.test, st, fr):
                out += self.block(s.body if t else s.orelse, s2, fr)
            return out
        if isinstance(s, ast.While):
            def step(h):
                body, done = [], []
                for s2, t in self.cond(s.test, h, fr):
                    if t:
                        body += self.block(s.body, s2, fr)
                    else:
                        done.append(s2)
                return body, done
            return self.loop([st], step, s.orelse, fr)
        if isinstance(s, ast.For):
            return self.for_stmt(s, st, fr)
        if isinstance(s, ast.Try):
            return self.try_stmt(s, st, fr)
        if isinstance(s, ast.With) and len(s.items) == 1 and isinstance(s.items[0].context_expr, ast.Call) \
                and self.ctx.unparse(s.items[0].context_expr.func).split('.')[-1] == 'suppress' \
                and any(isinstance(n, ast.Name) and n.id in ('StopIteration', 'Exception', 'BaseException') for a in s.items[0].context_expr.args for n in ast.walk(a)):
            # `with suppress(StopIteration): …` = `try: … except StopIteration: pass`
            handler = ast.ExceptHandler(type=ast.Name(id='StopIteration', ctx=ast.Load()), name=None, body=[ast.Pass()])
            t = ast.Try(body=s.body, handlers=[handler], orelse=[], finalbody=[])
            ast.copy_location(t, s)
            ast.fix_missing_locations(t)
            return self.try_stmt(t, st, fr)
        if isinstance(s, ast.With):
            cur = [st]
            for it in s.items:
                nxt = []
                for c in cur:
                    for s2, v in self.ev(it.context_expr, c, fr, True):
                        if v[0] != 'piece':
                            self.consume(v, s2, s)
                            v = UNKNOWN
                        nxt.append(self.bind(it.optional_vars, v, s2, fr) if it.optional_vars is not None else s2)
                cur = nxt
            out = []
            for c in cur:
                out += self.block(s.body, c, fr)
            return out
        if isinstance(s, ast.Delete):
            cur = st
            for t in s.targets:
                if isinstance(t, ast.Name):
                    f = self.owner(fr, t.id)
                    if f is not None and (f.fid, t.id) in cur.env:
                        cur = cur.copy()
                        del cur.env[(f.fid, t.id)]
                else:
                    for s2, _ in self.ev(t.value, cur, fr, True):
                        cur = s2
                    if isinstance(t, ast.Subscript):
                        for s2, _ in self.ev(t.slice, cur, fr, False):
                            cur = s2
            return N([cur])
        if isinstance(s, (ast.Pass, ast.Global, ast.Nonlocal)):
            return N([st])
        if isinstance(s, (ast.Import, ast.ImportFrom)):
            for al in s.names:
                nm = (al.asname or al.name).split('.')[0]
                st = self.bind_name(nm, ('sym', import_path(s, al)), st, fr)
            return N([st])
        if isinstance(s, ast.Break):
            return [('break', st, None)]
        if isinstance(s, ast.Continue):
            return [('continue', st, None)]
        if isinstance(s, (ast.FunctionDef, ast.AsyncFunctionDef)):
            if isinstance(s, ast.AsyncFunctionDef) or s.decorator_list:
                for n in ast.walk(s):
                    if isinstance(n, ast.Name) and holds(self.lookup(n.id, st, fr), ('piece', 'src', 'genobj')):
                        raise Unrecognised(f'piece / iterator captured by nested `{s.name}`')
                return N([self.bind_name(s.name, UNKNOWN, st, fr)])
            return N([self.bind_name(s.name, ('func', s, fr.fid), st, fr)])
        if isinstance(s, ast.ClassDef):
            for n in ast.walk(s):
                if isinstance(n, ast.Name) and holds(self.lookup(n.id, st, fr), ('piece', 'src', 'genobj')):
                    raise Unrecognised(f'piece / iterator captured by nested `{s.name}`')
            return N([self.bind_name(s.name, UNKNOWN, st, fr)])
        if isinstance(s, ast.Assert):
            out = [s2 for s2, t in self.cond(s.test, st, fr) if t]
            return N(out)
        if isinstance(s, ast.Raise):
            for ch in ast.iter_child_nodes(s):
                if isinstance(ch, ast.expr):
                    self.ev(ch, st, fr, False)
            if s.exc is not None and 'StopIteration' in self.ctx.unparse(s.exc):
                self.raise_stop(st)
            return []
        raise Unrecognised(f'statement {type(s).__name__} at line {s.lineno}')

    def for_stmt(self, s, st, fr):
        out = []
        for s0, itv in self.ev(s.iter, st, fr, True):
            t = itv[0]
            if t in ('src', 'enum'):
                def step(h, _t=t):
                    self.pulls += 1
                    p = h.pulled()
                    piece = ('piece', 0, 'strict', True)
                    b = self.bind(s.target, piece if _t == 'src' else ('tuple', (UNKNOWN, piece)), p.with_known(0, False), fr)
                    return self.block(s.body, b, fr), [p.with_known(0, True)]
                out += self.loop([s0], step, s.orelse, fr)
            elif t == 'genobj':
                leaving = []

                def on_yield(s1, y):
                    resume = []
                    for kind, s2, v in self.block(s.body, self.bind(s.target, y, s1, fr), fr):
                        if kind in ('next', 'continue'):
                            resume.append(s2)
                        elif kind == 'break':
                            leaving.append(('next', s2.drop_frame(itv[2]), None))
                        else:
                            leaving.append((kind, s2.drop_frame(itv[2]), v))
                    return resume
                for s1 in self.run_gen(itv, s0, on_yield, s):
                    out += self.block(s.orelse, s1, fr) if s.orelse else [('next', s1, None)]
                out += leaving
            elif t == 'calliter':
                call, sent = itv[1], itv[2]

                def step(h):
                    body, done = [], []
                    for s1, v in self.apply(call, [], {}, h, fr, s.iter):
                        eqv = self.compare(ast.Eq(), v, sent, s1, s.iter) if not (v[0] == 'piece' and sent[0] == 'sentinel') else \
                            self.compare(ast.Is(), v, sent, s1, s.iter)
                        for s2, stop in self.truth(eqv, s1, s.iter):
                            if stop:
                                done.append(s2)
                            else:
                                body += self.block(s.body, self.bind(s.target, v, s2, fr), fr)
                    return body, done
                out += self.loop([s0], step, s.orelse, fr)
            elif t == 'tuple':
                cur = [s0]
                pending = []
                for x in itv[1]:
                    nxt = []
                    for c in cur:
                        for kind, s2, v in self.block(s.body, self.bind(s.target, x, c, fr), fr):
                            if kind in ('next', 'continue'):
                                nxt.append(s2)
                            elif kind == 'break':
                                pending.append(('next', s2, None))
                            else:
                                pending.append((kind, s2, v))
                    cur = nxt
                for c in cur:
                    out += self.block(s.orelse, c, fr) if s.orelse else [('next', c, None)]
                out += pending
            else:
                self.consume(itv, s0, s)

                def step(h):
                    return self.block(s.body, self.bind(s.target, UNKNOWN, h, fr), fr), [h]
                out += self.loop([s0], step, s.orelse, fr)
        return out

    def try_stmt(self, s, st, fr):
        catches = None
        for h in s.handlers:
            names = set()
            if h.type is None:
                names = {'StopIteration'}
            else:
                for n in ast.walk(h.type):
                    if isinstance(n, ast.Name):
                        names.add(n.id)
            if names & {'StopIteration', 'Exception', 'BaseException'}:
                catches = h
                break
        for h in s.handlers:
            if h is not catches:
                for n in ast.walk(h):
                    if isinstance(n, ast.Attribute) and n.attr == 'next_cut':
                        raise Unrecognised(f'next_cut inside an exception handler at line {h.lineno}')
        sink = []
        self.stop_sinks.append(sink)
        try:
            body = self.block(s.body, st, fr)
        finally:
            self.stop_sinks.pop()
        out = []
        for kind, s2, v in body:
            if kind == 'next' and s.orelse:
                out += self.block(s.orelse, s2, fr)
            else:
                out.append((kind, s2, v))
        for s2 in sink:
            if catches is None:
                if s.finalbody:
                    for kind, s3, v in self.block(s.finalbody, s2, fr):
                        if kind == 'next':
                            self.raise_stop(s3)
                        else:
                            out.append((kind, s3, v))
                else:
                    self.raise_stop(s2)
            else:
                if catches.name:
                    s2 = self.bind_name(catches.name, UNKNOWN, s2, fr)
                out += self.block(catches.body, s2, fr)
        if s.finalbody:
            fin = []
            for kind, s2, v in out:
                for k2, s3, v3 in self.block(s.finalbody, s2, fr):
                    fin.append((kind, s3, v) if k2 == 'next' else (k2, s3, v3))
            out = fin
        return out

    # ------------------------------------------------------------------------------------------- entry points
    def run_function(self, fn, cls, params):
        """execute `fn` with its parameters bound to `params` (name -> value); returns the outcomes"""
        fid = ()
        fr = self.frames[fid] = Frame(fid, fn, None, cls)
        st = St()
        a = fn.args
        for p in a.posonlyargs + a.args + a.kwonlyargs:
            st = st.set((fid, p.arg), params.get(p.arg, UNKNOWN))
        return self.block(fn.body, st, fr)


def import_path(stmt, alias):
    """dotted name an imported local name stands for (`from operator import is_ as same` -> operator.is_)"""
    if isinstance(stmt, ast.ImportFrom):
        return ((stmt.module or '') + '.' + alias.name).lstrip('.')
    return alias.name if alias.asname else alias.name.split('.')[0]


def fr_cls(engine, fr):
    f = fr
    while f is not None:
        if f.cls is not None:
            return f.cls
        f = f.parent
    return None


def depth_of(v):
    if not isinstance(v, tuple):
        return 0
    return 1 + max([depth_of(x) for x in v] + [0]) if v and v[0] == 'callres' else max([depth_of(x) for x in v] + [0])


def analyse_adapter(ctx, module=None):
    """run the interpreter over gclmulchunker.__call__; returns (engine or None, why-not)"""
    if module is None:
        module = ast.parse((ctx.REPO / 'replicat' / 'utils' / 'adapters.py').read_text())
    cls = next((n for n in ast.walk(module) if isinstance(n, ast.ClassDef) and n.name == 'gclmulchunker'), None)
    call = next((n for n in cls.body if isinstance(n, ast.FunctionDef) and n.name == '__call__'), None) if cls is not None else None
    if call is None or len(call.args.posonlyargs + call.args.args) < 2:
        return None, 'gclmulchunker.__call__(self, <pieces>, …) not found', None
    eng = Engine(ctx, module)
    names = [p.arg for p in call.args.posonlyargs + call.args.args]
    err = None
    try:
        for kind, st, v in eng.run_function(call, cls, {names[0]: SELF, names[1]: SRC}):
            if kind == 'return' and v is not None and v[0] == 'genobj':
                # `__call__` hands the work to a helper generator and returns it: the consumer runs it
                eng.run_gen(v, st, lambda s, y: eng.do_yield(s, y, eng.frames[()], call), call)
            elif kind == 'return' and v is not None and holds(v, ('piece', 'src')):
                raise Unrecognised('the piece iterator / a piece is returned to the caller')
    except Unrecognised as e:
        err = str(e)
    except RecursionError:
        err = 'analysis recursion limit'
    return eng, err, call


def section(ctx):
    eng, err, call = analyse_adapter(ctx)
    verdict = None
    why = ''
    if eng is None:
        why = err
    else:
        for name, node in eng.inlined.items():
            ctx.fp(f'adapters.{name}', node)
        stale = list(dict.fromkeys(eng.stale))
        if err is not None:
            why = f'not recognised: {err}'
            if stale:                   # a definite read-after-pull was already seen
                verdict = False
                why = '; '.join(stale[:3]) + f' (analysis stopped: {err})'
        elif eng.reads == 0:
            why = 'no statement reads a piece obtained from the iterator'
        elif eng.pulls == 0:
            why = 'the piece iterator is never advanced'
        else:
            verdict = not stale
            why = '; '.join(stale[:3])
    if verdict is None:
        ctx.emit('opaque adapterCopiesBeforePull : Bool')
        ctx.notes['adapter.handover'] = why
    else:
        ctx.emit(f'def adapterCopiesBeforePull : Bool := {"true" if verdict else "false"}')
        if not verdict:
            ctx.notes['adapter.handover'] = 'a piece is read after the following piece was requested: ' + why
