"""C04 (sessions of one long-lived `Repository` object): does the chunk digest comparison DOMINATE the write?

`14_format.py` establishes that `restore._download_chunk` contains a guard `if hash_digest(<what is written>) != <expected
digest>: raise`.  That is enough for a process that runs one command and exits, but not for an object that lives on: a guard that
sits under a condition (`if digest in self._seen: … else: <guard>`, an early `continue`, a loop that may run zero times, an
exception handler that goes on) can be bypassed by whatever the object remembers from its earlier commands.

`Gen.chunkDigestCheckDominates = true` iff on EVERY control-flow path through `_download_chunk` that reaches a hand-over of chunk
bytes to the writers (`<executor>.submit(…)` / `_write_chunk_ref(…)`) a digest guard has been executed before.  Structural
(AST) analysis, independent of names, comments and of how the guard is wrapped in `with` / `try` blocks; an `if` guarantees the
check only when both of its branches do.  `ReplicatModel/SymSession.lean` is parameterised by the flag and
`Properties/C04.lean::session_is_stateless` / `session_restore_ok_implies_identical` discharge it by `decide`.
"""
import ast


def _hash_arg(node):
    if isinstance(node, ast.Call) and ast.unparse(node.func).endswith('.hash_digest') and len(node.args) == 1 and not node.keywords:
        return ast.unparse(node.args[0])
    return None


def _ends_in_raise(body):
    return bool(body) and isinstance(body[-1], ast.Raise)


HASHED = set()     # names assigned `<name> = <x>.hash_digest(<y>)` inside the function under analysis


def _is_guard(st, dname):
    """`if <x>.hash_digest(<y>) != <expected digest>: … raise` (also `if not … == …`, also through `h = <x>.hash_digest(<y>)`), a
    single condition"""
    if not isinstance(st, ast.If):
        return False
    t = st.test
    neg = False
    if isinstance(t, ast.UnaryOp) and isinstance(t.op, ast.Not):
        t, neg = t.operand, True
    if not (isinstance(t, ast.Compare) and len(t.ops) == 1 and len(t.comparators) == 1):
        return False
    if not ((isinstance(t.ops[0], ast.NotEq) and not neg) or (isinstance(t.ops[0], ast.Eq) and neg)):
        return False
    a, b = t.left, t.comparators[0]
    ok = any((_hash_arg(x) is not None or (isinstance(x, ast.Name) and x.id in HASHED)) and ast.unparse(y) == dname for x, y in ((a, b), (b, a)))
    return ok and _ends_in_raise(st.body)


def _has_use(node):
    for n in ast.walk(node):
        if isinstance(n, ast.Call):
            f = ast.unparse(n.func)
            if f.endswith('.submit') or f.endswith('_write_chunk_ref'):
                return True
    return False


def _leaves(body):
    """the block cannot complete normally"""
    return bool(body) and isinstance(body[-1], (ast.Raise, ast.Return, ast.Continue, ast.Break))


def _guarantees(stmts, dname):
    """every path that completes `stmts` normally has executed a guard"""
    for st in stmts:
        if _is_guard(st, dname):
            return True
        if isinstance(st, ast.If):
            if (_guarantees(st.body, dname) or _leaves(st.body)) and (_guarantees(st.orelse, dname) or _leaves(st.orelse)) \
                    and (_guarantees(st.body, dname) or _guarantees(st.orelse, dname)):
                return True
        elif isinstance(st, (ast.With, ast.AsyncWith)):
            if _guarantees(st.body, dname):
                return True
        elif isinstance(st, ast.Try):
            if _guarantees(st.finalbody, dname):
                return True
            if _guarantees(st.body + st.orelse, dname) and all(_leaves(h.body) or _guarantees(h.body, dname) for h in st.handlers):
                return True
    return False


def _safe(stmts, dname):
    """no hand-over to the writers is reachable in `stmts` before a guard has been executed"""
    for st in stmts:
        if _is_guard(st, dname):
            return True
        if isinstance(st, ast.If):
            if _has_use(st.test) or not _safe(st.body, dname) or not _safe(st.orelse, dname):
                return False
        elif isinstance(st, (ast.With, ast.AsyncWith)):
            if any(_has_use(i.context_expr) for i in st.items) or not _safe(st.body, dname):
                return False
        elif isinstance(st, ast.Try):
            if not _safe(st.body + st.orelse, dname):
                return False
            if any(_has_use(h) for h in st.handlers):
                return False
            if _has_use(ast.Module(body=st.finalbody, type_ignores=[])) and not _safe(st.finalbody, dname):
                return False
        elif isinstance(st, (ast.For, ast.AsyncFor, ast.While)):
            if not _safe(st.body, dname) or not _safe(st.orelse, dname):
                return False
        elif isinstance(st, (ast.FunctionDef, ast.AsyncFunctionDef, ast.ClassDef)):
            if _has_use(st):
                return False
        elif _has_use(st):
            return False
        if _guarantees([st], dname):
            return True
    return True


def section(ctx):
    rtree = ast.parse((ctx.REPO / 'replicat' / 'repository.py').read_text())
    dl = ctx.find_func(rtree, 'Repository', 'restore', '_download_chunk')
    dominates = False
    if dl is None:
        ctx.notes['restore.chunk_check_dominates'] = '_download_chunk not found'
    else:
        params = [a.arg for a in dl.args.args]
        dname = params[0] if params else 'digest'
        HASHED.clear()
        for n in ast.walk(dl):
            if isinstance(n, ast.Assign) and len(n.targets) == 1 and isinstance(n.targets[0], ast.Name) and _hash_arg(n.value) is not None:
                HASHED.add(n.targets[0].id)
        if not _has_use(dl):
            ctx.notes['restore.chunk_check_dominates'] = 'no hand-over to the writers (`.submit` / `_write_chunk_ref`) found in _download_chunk'
        elif not _safe(dl.body, dname):
            ctx.notes['restore.chunk_check_dominates'] = ('the digest comparison of _download_chunk does not dominate the write: some path reaches the '
                                                          'writers without `if hash_digest(…) != <expected digest>: raise`')
        else:
            dominates = True
    ctx.emit('/-- on every path through `restore._download_chunk` a digest guard precedes the hand-over to the writers -/')
    ctx.emit(f'def chunkDigestCheckDominates : Bool := {"true" if dominates else "false"}')
