"""C04 (sessions of one long-lived `Repository` object): does the chunk digest comparison DOMINATE the write?

`14_format.py::chunkDigestVerified` says that the chunk loader of `restore` HAS a path on which the bytes it hands on were compared
(`HASH(bytes) == <the digest the download location was derived from>`) before.  That is enough for a process that runs one command
and exits, but not for an object that lives on: a guard that sits under a condition (`if digest in self._seen: … else: <guard>`, an
early `continue`, an exception handler that goes on) can be bypassed by whatever the object remembers from its earlier commands.

`Gen.chunkDigestCheckDominates = true` iff on EVERY control-flow path of the chunk loader EVERY hand-over of downloaded bytes (a call
outside logging / len / the crypto primitives that receives a view / slice / decryption of what was downloaded, a store into an
attribute or a container, the return value) is preceded by the comparison of the digest of THOSE bytes with the expected digest
(tools/replicat_facts.py::chunk_loader on the paths of tools/symflow.py).  The loader is found by what it does (it calls
`backend.download_stream`), helpers are inlined, so extracting the decrypt-and-verify block into a method, renaming, reordering
independent statements or rewriting the conditionals does not change the answer; a path that reaches the writers unverified does.
`ReplicatModel/SymSession.lean` is parameterised by the flag and `Properties/C04.lean::session_is_stateless` /
`session_restore_ok_implies_identical` discharge it by `decide`.
"""
import sys
from pathlib import Path

sys.path.insert(0, str(Path(__file__).resolve().parent.parent))
import replicat_facts as rf  # noqa: E402
import symflow_fmt as symflow  # noqa: E402


def section(ctx):
    an = symflow.analyzer_for(ctx.REPO)
    try:
        ld = rf.chunk_loader(an)
    except Exception as e:  # noqa: BLE001
        ld = dict(dominates=False, why=f'analysis failed: {e!r}')
    dominates = bool(ld.get('dominates'))
    if not dominates:
        ctx.notes['restore.chunk_check_dominates'] = ld.get('why') or ('the digest comparison of the chunk loader does not dominate the write: '
                                                                        'some path reaches the writers without `HASH(bytes) == <expected digest>`')
    ctx.emit('/-- on every path through the chunk loader of `restore` the digest comparison precedes the hand-over to the writers -/')
    ctx.emit(f'def chunkDigestCheckDominates : Bool := {"true" if dominates else "false"}')
