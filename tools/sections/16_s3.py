"""Extractor plug-in for C16 (S3 request signing): reads replicat/backends/s3c.py of the CURRENT tree.

Everything is emitted as byte lists / small Nat codes (no `String` reduction is needed inside proofs).  An item that is
not recognised is emitted as `opaque` (so the model and the driver still compile, but every theorem that unfolds it stops
compiling) and recorded in the notes.
"""
import ast


def _bytes(b):
    return '[' + ', '.join(str(x) for x in b) + ']'


def _bl(s):
    if isinstance(s, str):
        s = s.encode('utf-8')
    return _bytes(s)


def section(ctx):
    src = (ctx.REPO / 'replicat' / 'backends' / 's3c.py').read_text()
    tree = ast.parse(src)
    un = ctx.unparse
    emit = ctx.emit
    notes = ctx.notes

    def item(name, ty, fn):
        """emit `def name : ty := <fn()>`, or `opaque` + note when fn raises"""
        try:
            val = fn()
            emit(f'def {name} : {ty} := {val}')
        except Exception as e:  # noqa: BLE001
            notes[f's3.{name}'] = f'not recognised: {e!r}'[:300]
            emit(f'opaque {name} : {ty}')

    def flag(name, fn):
        """informational shape flag (never opaque, never used by a theorem): true iff the code has the modelled shape"""
        try:
            fn()
            emit(f'def {name} : Bool := true')
        except Exception as e:  # noqa: BLE001
            notes[f's3.{name}'] = f'shape differs from the modelled one: {e!r}'[:300]
            emit(f'def {name} : Bool := false')

    def func(*path):
        f = ctx.find_func(tree, *path)
        if f is None:
            raise LookupError('.'.join(path))
        return f

    # ---- names imported from urllib.parse must be the library functions
    imported = {}
    for node in tree.body:
        if isinstance(node, ast.ImportFrom) and node.module == 'urllib.parse':
            for a in node.names:
                imported[a.asname or a.name] = a.name
    shadow = [n.name for n in ast.walk(tree) if isinstance(n, (ast.FunctionDef, ast.AsyncFunctionDef, ast.ClassDef)) and n.name in ('quote', 'quote_plus', 'urlencode')]
    shadow += [t.id for n in ast.walk(tree) if isinstance(n, ast.Assign) for t in n.targets if isinstance(t, ast.Name) and t.id in ('quote', 'quote_plus', 'urlencode')]

    def lib(name):
        if name in shadow or name not in imported:
            raise ValueError(f'{name} is not the urllib.parse function')
        return imported[name]

    for nm in ('_prepare_request', '_list_objects', 'upload', 'upload_stream', '_put_object', '_put_object_stream', '__init__'):
        ctx.fp(f's3c.S3Compatible.{nm}', ctx.find_func(tree, 'S3Compatible', nm))
    for nm in ('_get_data_hexdigest', '_get_stream_hexdigest', '_hmac_sha256_digest', '_make_signature_key', '_make_canonical_headers',
               '_make_credential_scope', '_make_canonical_request', '_make_string_to_sign'):
        ctx.fp(f's3c.{nm}', ctx.find_func(tree, nm))

    def lib_calls(fn, names):
        out = []
        for n in ast.walk(fn):
            if isinstance(n, ast.Call) and isinstance(n.func, ast.Name) and imported.get(n.func.id) in names:
                lib(n.func.id)
                out.append(n)
            elif isinstance(n, ast.Call) and isinstance(n.func, ast.Attribute) and n.func.attr in names:
                raise ValueError('qualified call ' + un(n))
        return out

    def assigns(fn, target):
        return [n for n in ast.walk(fn) if isinstance(n, ast.Assign) and len(n.targets) == 1 and un(n.targets[0]) == target]

    def one_assign(fn, target):
        a = assigns(fn, target)
        if len(a) != 1:
            raise ValueError(f'{len(a)} assignments to {target}')
        return a[0].value

    # ---- path quoting
    def path_safe():
        pr = func('S3Compatible', '_prepare_request')
        # the call that encodes the `canonical_uri` parameter (this is the string that is signed); other uses of the quoting
        # functions are only noted — whether the string sent equals the string signed is checked by the differential runs
        allc = lib_calls(pr, ('quote', 'quote_plus', 'quote_from_bytes', 'unquote'))
        calls = [c for c in allc if c.args and un(c.args[0]) == 'canonical_uri']
        if len(allc) != len(calls):
            notes['s3.other_quote_calls'] = [un(c) for c in allc if c not in calls]
        assert len(calls) == 1, [un(c) for c in allc]
        call = calls[0]
        which = lib(call.func.id)
        assert which == 'quote', which
        safe = '/'
        if len(call.args) >= 2:
            safe = ast.literal_eval(call.args[1])
        for k in call.keywords:
            if k.arg == 'safe':
                safe = ast.literal_eval(k.value)
            elif k.arg is None or k.arg not in ('encoding', 'errors'):
                raise ValueError(un(call))
            else:
                raise ValueError('non-default encoding/errors: ' + un(call))
        assert len(call.args) <= 2
        if isinstance(safe, str):
            safe = safe.encode('ascii', 'ignore')
        return _bytes([c for c in safe if c < 128])
    item('s3PathSafeB', 'List UInt8', path_safe)

    # ---- query string
    def _query_call():
        pr = func('S3Compatible', '_prepare_request')
        calls = lib_calls(pr, ('urlencode',))
        assert len(calls) == 1, [un(c) for c in calls]
        call = calls[0]
        assert len(call.args) == 1, un(call)
        return call

    def query_sorted():
        call = _query_call()
        arg = un(call.args[0])
        if arg == 'sorted(query.items())':
            return 'true'
        if arg == 'query.items()' or arg == 'query':
            return 'false'
        raise ValueError(arg)

    def query_via_plus():
        call = _query_call()
        via = 'quote_plus'
        for k in call.keywords:
            if k.arg == 'quote_via':
                assert isinstance(k.value, ast.Name), un(k.value)
                via = lib(k.value.id)
            elif k.arg not in ('safe',):
                raise ValueError('unexpected urlencode argument ' + str(k.arg))
        assert via in ('quote', 'quote_plus'), via
        return 'true' if via == 'quote_plus' else 'false'

    def query_safe():
        call = _query_call()
        safe = ''
        for k in call.keywords:
            if k.arg == 'safe':
                safe = ast.literal_eval(k.value)
        if isinstance(safe, str):
            safe = safe.encode('ascii', 'ignore')
        return _bytes([c for c in safe if c < 128])
    item('s3QuerySortedB', 'Bool', query_sorted)
    item('s3QueryViaQuotePlus', 'Bool', query_via_plus)
    item('s3QuerySafeB', 'List UInt8', query_safe)

    def same_strings():
        pr = func('S3Compatible', '_prepare_request')
        url = [un(x.value) for x in assigns(pr, 'url')]
        assert url == ['self.url + encoded_canonical_uri'], url
        aug = [un(n) for n in ast.walk(pr) if isinstance(n, ast.AugAssign) and un(n.target) == 'url']
        assert aug == ["url += f'?{query_string}'"], aug
        call = one_assign(pr, 'canonical_request')
        kw = {k.arg: un(k.value) for k in call.keywords}
        assert un(call.func) == '_make_canonical_request' and not call.args
        assert kw == {'method': 'method', 'canonical_uri': 'encoded_canonical_uri', 'canonical_query': 'query_string',
                      'canonical_headers': '_make_canonical_headers(canonical_headers)', 'signed_headers': 'signed_headers',
                      'payload_digest': 'payload_digest'}, kw
        ifs = [un(n.test) for n in ast.walk(pr) if isinstance(n, ast.If)]
        assert 'query' in ifs, ifs
        ret = [un(n.value) for n in ast.walk(pr) if isinstance(n, ast.Return)]
        assert ret == ['self._client.build_request(method, url, headers=headers, **kwargs)'], ret
        init = func('S3Compatible', '__init__')
        assert un(one_assign(init, 'self.url')) == "f'{scheme}://' + self.host", un(one_assign(init, 'self.url'))
        assert un(one_assign(init, 'self.host')) == 'host'
        return 'true'
    flag('s3SignedStringsAreSentStrings', same_strings)

    # ---- signed headers: names, value sources, separator
    SRC = {'self.host': 0, 'payload_digest': 1, 'x_amz_date': 2}

    def _hdr_dict():
        pr = func('S3Compatible', '_prepare_request')
        d = one_assign(pr, 'canonical_headers')
        assert isinstance(d, ast.Dict)
        return [(ast.literal_eval(k), un(v)) for k, v in zip(d.keys, d.values)]
    item('s3SignedHeadersB', 'List (List UInt8)', lambda: '[' + ', '.join(_bl(k) for k, _ in _hdr_dict()) + ']')
    item('s3SignedHeaderSources', 'List Nat', lambda: '[' + ', '.join(str(SRC[v]) for _, v in _hdr_dict()) + ']')

    def sh_sep():
        pr = func('S3Compatible', '_prepare_request')
        v = one_assign(pr, 'signed_headers')
        assert isinstance(v, ast.Call) and isinstance(v.func, ast.Attribute) and v.func.attr == 'join' and un(v.args[0]) in ('canonical_headers', 'canonical_headers.keys()', 'list(canonical_headers)')
        return _bl(ast.literal_eval(v.func.value))
    item('s3SignedHeadersSep', 'List UInt8', sh_sep)

    def ch_shape():
        f = func('_make_canonical_headers')
        body = [un(s) for s in f.body]
        want = ["result = '\\n'.join((f'{name}:{value}' for name, value in headers.items()))", "result += '\\n'", 'return result']
        assert body == want, body
        return 'true'
    flag('s3CanonicalHeadersShape', ch_shape)

    def join_list(fn_name, names, allow_literal=None):
        """`return SEP.join([a, b, …])` → (sep bytes, codes)"""
        f = func(fn_name)
        stmts = [s for s in f.body if not (isinstance(s, ast.Expr) and isinstance(s.value, ast.Constant))]
        assert len(stmts) == 1 and isinstance(stmts[0], ast.Return), [un(s) for s in stmts]
        v = stmts[0].value
        assert isinstance(v, ast.Call) and isinstance(v.func, ast.Attribute) and v.func.attr == 'join' and isinstance(v.args[0], ast.List)
        sep = ast.literal_eval(v.func.value)
        codes, lits = [], []
        for e in v.args[0].elts:
            t = un(e)
            if t in names:
                codes.append(names[t])
            elif isinstance(e, ast.Constant) and isinstance(e.value, str) and allow_literal is not None:
                codes.append(allow_literal)
                lits.append(e.value)
            else:
                raise ValueError(t)
        return sep, codes, lits

    def cr_order():
        sep, codes, _ = join_list('_make_canonical_request', {'method': 0, 'canonical_uri': 1, 'canonical_query': 2, 'canonical_headers': 3,
                                                              'signed_headers': 4, 'payload_digest': 5})
        assert sep == '\n'
        return '[' + ', '.join(map(str, codes)) + ']'
    item('s3CanonicalRequestOrder', 'List Nat', cr_order)

    def sts():
        return join_list('_make_string_to_sign', {'amzdate': 1, 'credential_scope': 2,
                                                   '_get_data_hexdigest(canonical_request.encode())': 3}, allow_literal=0)

    def sts_order():
        sep, codes, lits = sts()
        assert sep == '\n' and len(lits) == 1
        f = func('_make_string_to_sign')
        assert [a.arg for a in f.args.args] == ['amzdate', 'credential_scope', 'canonical_request']
        pr = func('S3Compatible', '_prepare_request')
        assert un(one_assign(pr, 'string_to_sign')) == '_make_string_to_sign(x_amz_date, credential_scope, canonical_request)'
        h = func('_get_data_hexdigest')
        assert [un(s) for s in h.body] == ['return hashlib.sha256(data).hexdigest()']
        return '[' + ', '.join(map(str, codes)) + ']'
    item('s3StringToSignOrder', 'List Nat', sts_order)
    item('s3Algorithm', 'List UInt8', lambda: _bl(sts()[2][0]))

    def scope():
        return join_list('_make_credential_scope', {'date': 0, 'region': 1, 'service': 2}, allow_literal=3)

    def scope_order():
        sep, codes, lits = scope()
        assert sep == '/' and len(lits) == 1
        pr = func('S3Compatible', '_prepare_request')
        assert un(one_assign(pr, 'credential_scope')) == "_make_credential_scope(date=date, region=self.region, service='s3')"
        return '[' + ', '.join(map(str, codes)) + ']'
    item('s3ScopeOrder', 'List Nat', scope_order)
    item('s3Terminator', 'List UInt8', lambda: _bl(scope()[2][0]))

    def key_chain():
        f = func('_make_signature_key')
        body = [un(s) for s in f.body]
        want = ["date_key = _hmac_sha256_digest(b'AWS4' + key.encode(), date.encode())",
                'date_region_key = _hmac_sha256_digest(date_key, region.encode())',
                'date_region_service_key = _hmac_sha256_digest(date_region_key, service.encode())',
                "signing_key = _hmac_sha256_digest(date_region_service_key, b'aws4_request')",
                'return signing_key']
        assert body == want, body
        h = func('_hmac_sha256_digest')
        assert [a.arg for a in h.args.args] == ['key', 'message']
        assert [un(s) for s in h.body] == ['return hmac.new(key, message, hashlib.sha256).digest()'], [un(s) for s in h.body]
        pr = func('S3Compatible', '_prepare_request')
        assert un(one_assign(pr, 'signing_key')) == "_make_signature_key(key=self.access_key, date=date, region=self.region, service='s3')"
        assert un(one_assign(pr, 'signature')) == '_hmac_sha256_digest(signing_key, string_to_sign.encode()).hex()'
        return 'true'
    flag('s3KeyChainStandard', key_chain)

    def key_chain_values():
        f = func('_make_signature_key')
        prev = None
        prefix = None
        codes, term = [], None
        M = {'date.encode()': 0, 'region.encode()': 1, 'service.encode()': 2}
        stmts = [st for st in f.body if not (isinstance(st, ast.Expr) and isinstance(st.value, ast.Constant))]
        for st in stmts[:-1]:
            assert isinstance(st, ast.Assign) and isinstance(st.value, ast.Call) and un(st.value.func) == '_hmac_sha256_digest', un(st)
            a, b = st.value.args
            if prev is None:
                assert isinstance(a, ast.BinOp) and isinstance(a.op, ast.Add) and isinstance(a.left, ast.Constant) and un(a.right) == 'key.encode()', un(a)
                prefix = a.left.value
            else:
                assert un(a) == prev, un(st)
            if un(b) in M:
                codes.append(M[un(b)])
            else:
                assert isinstance(b, ast.Constant) and isinstance(b.value, bytes) and term is None, un(b)
                term = b.value
                codes.append(3)
            prev = un(st.targets[0])
        assert isinstance(stmts[-1], ast.Return) and un(stmts[-1].value) == prev
        assert isinstance(prefix, bytes) and term is not None
        return prefix, codes, term
    item('s3KeyPrefix', 'List UInt8', lambda: _bytes(key_chain_values()[0]))
    item('s3KeyChain', 'List Nat', lambda: '[' + ', '.join(map(str, key_chain_values()[1])) + ']')
    item('s3KeyTerminator', 'List UInt8', lambda: _bytes(key_chain_values()[2]))

    def service():
        pr = func('S3Compatible', '_prepare_request')
        vals = set()
        for n in ast.walk(pr):
            if isinstance(n, ast.keyword) and n.arg == 'service':
                vals.add(ast.literal_eval(n.value))
        assert len(vals) == 1, vals
        return _bl(vals.pop())
    item('s3Service', 'List UInt8', service)

    def clock():
        pr = func('S3Compatible', '_prepare_request')
        assert un(one_assign(pr, 'now')) == 'datetime.utcnow()', un(one_assign(pr, 'now'))
        assert un(one_assign(pr, 'x_amz_date')) == "f'{now:%Y%m%dT%H%M%S}Z'", un(one_assign(pr, 'x_amz_date'))
        assert un(one_assign(pr, 'date')) == "f'{now:%Y%m%d}'", un(one_assign(pr, 'date'))
        imp = [un(n) for n in tree.body if isinstance(n, ast.ImportFrom) and n.module == 'datetime']
        assert imp == ['from datetime import datetime'], imp
        return 'true'
    flag('s3ClockStandard', clock)

    def auth_template():
        pr = func('S3Compatible', '_prepare_request')
        v = one_assign(pr, 'authorization_header')
        assert isinstance(v, ast.JoinedStr)
        F = {'self.key_id': 1, 'credential_scope': 2, 'signed_headers': 3, 'signature': 4}
        parts = []
        for p in v.values:
            if isinstance(p, ast.Constant):
                parts.append(f'(0, {_bl(p.value)})')
            else:
                assert isinstance(p, ast.FormattedValue) and p.conversion == -1 and p.format_spec is None
                parts.append(f'({F[un(p.value)]}, [])')
        return '[' + ', '.join(parts) + ']'
    item('s3AuthTemplate', 'List (Nat × List UInt8)', auth_template)

    def sent_headers():
        pr = func('S3Compatible', '_prepare_request')
        S = {'payload_digest': 1, 'x_amz_date': 2, 'authorization_header': 3}
        out = []
        for n in ast.walk(pr):
            if isinstance(n, ast.Assign) and isinstance(n.targets[0], ast.Subscript) and un(n.targets[0].value) == 'headers':
                out.append((ast.literal_eval(n.targets[0].slice), S[un(n.value)]))
        assert out
        return '[' + ', '.join(f'({_bl(k)}, {c})' for k, c in out) + ']'
    item('s3SentHeaders', 'List (List UInt8 × Nat)', sent_headers)

    # ---- listing query
    def list_keys():
        """names of the query parameters `_list_objects` can send: the literal dict it starts with and the two conditional
        additions (value = the `continuation_token` / `prefix` argument).  The conditions themselves are modelled by hand
        (`listQuery`) and validated by the differential runs; their shape is only an informational flag."""
        f = func('S3Compatible', '_list_objects')
        q = ast.literal_eval(one_assign(f, 'query'))
        assert isinstance(q, dict) and len(q) == 1 and all(isinstance(k, str) and isinstance(v, str) for k, v in q.items()), q
        (k0, v0), = q.items()
        byval = {}
        for n in ast.walk(f):
            if isinstance(n, ast.Assign) and isinstance(n.targets[0], ast.Subscript) and un(n.targets[0].value) == 'query':
                byval.setdefault(un(n.value), []).append(ast.literal_eval(n.targets[0].slice))
        assert set(byval) == {'continuation_token', 'prefix'} and all(len(v) == 1 for v in byval.values()), byval
        return k0, v0, byval['continuation_token'][0], byval['prefix'][0]

    def list_shape():
        f = func('S3Compatible', '_list_objects')
        body = [un(s) for s in f.body]
        subs = []
        for n in f.body:
            if isinstance(n, ast.If):
                assert len(n.body) == 1 and not n.orelse
                subs.append(un(n.test))
        assert subs == ['continuation_token is not None', 'prefix'], subs
        assert body[-1].replace('\n', '').replace(' ', '') == \
            "returnawaitself._make_request('GET',f'/{self.bucket_name}',query=query,payload_digest=_empty_payload_digest)", body[-1]
    flag('s3ListShape', list_shape)
    item('s3ListTypeKey', 'List UInt8', lambda: _bl(list_keys()[0]))
    item('s3ListTypeValue', 'List UInt8', lambda: _bl(list_keys()[1]))
    item('s3TokenKey', 'List UInt8', lambda: _bl(list_keys()[2]))
    item('s3PrefixKey', 'List UInt8', lambda: _bl(list_keys()[3]))

    # ---- payload digests
    def stream_rewind():
        f = func('_get_stream_hexdigest')
        seeks = [n for n in ast.walk(f) if isinstance(n, ast.Call) and isinstance(n.func, ast.Attribute) and n.func.attr == 'seek']
        if not seeks:
            return 'none'
        assert len(seeks) == 1 and un(seeks[0].func.value) == 'stream' and len(seeks[0].args) == 1 and not seeks[0].keywords, [un(x) for x in seeks]
        c = ast.literal_eval(seeks[0].args[0])
        assert isinstance(c, int) and c >= 0
        # the rewind must be unconditional and come after the read loop
        assert any(isinstance(st, ast.Expr) and st.value is seeks[0] for st in f.body), 'seek is not a top-level statement'
        return f'some {c}'
    item('s3StreamRewindTo', 'Option Nat', stream_rewind)

    def stream_digest_shape():
        f = func('_get_stream_hexdigest')
        body = [un(s) for s in f.body]
        want = ['hasher = hashlib.sha256()', 'chunk_size = hasher.block_size * 10000',
                "for chunk in iter(lambda: stream.read(chunk_size), b''):\n    hasher.update(chunk)",
                'stream.seek(0)', 'return hasher.hexdigest()']
        assert body == want, body
    flag('s3StreamDigestShape', stream_digest_shape)

    # ---- retried streamed PUT: which failures of an attempt are followed by a rewind of the stream
    # `_put_object_stream` is retried by backoff on httpx.HTTPError = HTTPStatusError (a response arrived) ∪ the transport
    # errors (RequestError: connect / read / write / protocol / timeout, no response).  The model needs to know, per class,
    # whether the stream is back at a fixed position when the next attempt starts.
    STATUS_ONLY = {'HTTPStatusError'}
    TRANSPORT_ALL = {'RequestError', 'TransportError'}
    TRANSPORT_SOME = {'TimeoutException', 'ConnectTimeout', 'ReadTimeout', 'WriteTimeout', 'PoolTimeout', 'NetworkError', 'ConnectError',
                      'ReadError', 'WriteError', 'CloseError', 'ProtocolError', 'LocalProtocolError', 'RemoteProtocolError', 'ProxyError',
                      'UnsupportedProtocol', 'DecodingError', 'TooManyRedirects'}
    EVERYTHING = {'HTTPError', 'Exception', 'BaseException'}

    def _covers(handler_type):
        """(covers status?, covers transport?) of one `except` clause: True / False / 'some' (a proper subset)"""
        if handler_type is None:
            return True, True
        types = handler_type.elts if isinstance(handler_type, ast.Tuple) else [handler_type]
        st, tr = False, False
        for t in types:
            nm = t.attr if isinstance(t, ast.Attribute) else t.id if isinstance(t, ast.Name) else None
            if nm in EVERYTHING:
                st, tr = True, True
            elif nm in STATUS_ONLY:
                st = True
            elif nm in TRANSPORT_ALL:
                tr = True
            elif nm in TRANSPORT_SOME:
                tr = tr or 'some'
            else:
                raise ValueError('exception class not recognised: ' + un(t))
        return st, tr

    def _seek_consts(stmts):
        """constants of top-level `stream.seek(<int>)` statements"""
        out = []
        for st in stmts:
            if isinstance(st, ast.Expr) and isinstance(st.value, ast.Call) and un(st.value.func) == 'stream.seek':
                c = st.value
                assert len(c.args) in (1, 2) and not c.keywords, un(c)
                if len(c.args) == 2:
                    assert ast.literal_eval(c.args[1]) == 0, un(c)
                v = ast.literal_eval(c.args[0])
                assert isinstance(v, int) and v >= 0, un(c)
                out.append(v)
        return out

    def put_rewind():
        """→ (on status, on transport, position).  Recognised places of the rewind: the start of the retried function (before the
        request), the `except` clauses around the request, a `finally` clause."""
        f = func('S3Compatible', '_put_object_stream')
        deco = [un(d) for d in f.decorator_list]
        assert deco == ['backoff_on_httperror'], deco
        consts, st_rew, tr_rew = [], None, None
        for top in f.body:
            has_req = any(isinstance(n, ast.Call) and un(n.func) == 'self._make_request' for n in ast.walk(top))
            if not has_req:
                c = _seek_consts([top])
                if c:                                   # rewinds at the start of every attempt
                    consts += c
                    st_rew = tr_rew = True
                continue
            if isinstance(top, ast.Try):
                assert not any(isinstance(n, ast.Call) and un(n.func) == 'self._make_request'
                               for part in (top.handlers, top.orelse, top.finalbody) for x in part for n in ast.walk(x)), 'request outside the try body'
                fin = _seek_consts(top.finalbody)
                for h in top.handlers:
                    cs, ct = _covers(h.type)
                    hc = _seek_consts(h.body)
                    reraises = any(isinstance(x, ast.Raise) and x.exc is None for x in h.body)
                    assert reraises, 'handler does not re-raise: ' + un(h)
                    if cs and st_rew is None:
                        st_rew = bool(hc or fin)
                        consts += hc
                    if ct and tr_rew is None:
                        if ct == 'some':
                            raise ValueError('handler covers only some transport errors: ' + un(h.type))
                        tr_rew = bool(hc or fin)
                        consts += hc
                if fin:
                    consts += fin
                    st_rew = tr_rew = True
            break
        st_rew, tr_rew = bool(st_rew), bool(tr_rew)
        assert len(set(consts)) <= 1, consts
        return st_rew, tr_rew, (consts[0] if consts else 0)
    item('s3PutRewindOnStatus', 'Bool', lambda: str(put_rewind()[0]).lower())
    item('s3PutRewindOnTransport', 'Bool', lambda: str(put_rewind()[1]).lower())
    item('s3PutRewindTo', 'Nat', lambda: str(put_rewind()[2]))

    def digest_outside_retry():
        """the payload digest is computed once, outside the retried function, and passed unchanged to every attempt"""
        us = func('S3Compatible', 'upload_stream')
        assert not us.decorator_list, [un(d) for d in us.decorator_list]
        ps = func('S3Compatible', '_put_object_stream')
        assert not [n for n in ast.walk(ps) if isinstance(n, ast.Call) and un(n.func) in ('_get_stream_hexdigest', '_get_data_hexdigest')]
        assert not assigns(ps, 'payload_digest') and not assigns(ps, 'length')
    flag('s3StreamDigestOutsideRetry', digest_outside_retry)

    def upload_shape():
        u = func('S3Compatible', 'upload')
        assert [un(s) for s in u.body] == ['payload_digest = _get_data_hexdigest(data)', 'await self._put_object(name, data, payload_digest)'], [un(s) for s in u.body]
        p = func('S3Compatible', '_put_object')
        call = p.body[0].value.value
        kw = {k.arg: un(k.value) for k in call.keywords}
        assert un(call.func) == 'self._make_request' and [un(a) for a in call.args] == ["'PUT'", "f'/{self.bucket_name}/{name}'"]
        assert kw == {'content': 'data', 'payload_digest': 'payload_digest', 'headers': "{'content-length': str(len(data))}"}, kw
        us = func('S3Compatible', 'upload_stream')
        b = [un(s) for s in us.body]
        assert b[0] == 'payload_digest = _get_stream_hexdigest(stream)', b
        assert b[1].replace('\n', '').replace(' ', '') == \
            'awaitself._put_object_stream(name,stream,length=length,payload_digest=payload_digest,chunk_size=chunk_size)', b
        ps = func('S3Compatible', '_put_object_stream')
        calls = [n for n in ast.walk(ps) if isinstance(n, ast.Call) and un(n.func) == 'self._make_request']
        assert len(calls) == 1
        kw = {k.arg: un(k.value) for k in calls[0].keywords}
        assert kw == {'content': 'utils.aiter_chunks(stream, chunk_size=chunk_size)', 'payload_digest': 'payload_digest',
                      'headers': "{'content-length': str(length)}"}, kw
        return 'true'
    flag('s3UploadShape', upload_shape)

    # ---- who puts requests on the wire: only `_prepare_request`, or also the HTTP library (followed redirects)?
    # httpx runs the response hooks BEFORE it looks at the Location header (`_send_handling_redirects`), so a hook that calls
    # `raise_for_status()` unconditionally ends every exchange that was answered outside 2xx; redirects are followed only when
    # `follow_redirects` is true at the client or at a `send` / request call.  Both items are consumed by theorems of
    # Properties/C16.lean; an unrecognised shape is emitted as the UNSAFE value (never silently assumed) with a note.
    for nm in ('_make_request', '_make_streaming_request'):
        ctx.fp(f's3c.S3Compatible.{nm}', ctx.find_func(tree, 'S3Compatible', nm))
    ctx.fp('s3c._raise_for_status_hook', ctx.find_func(tree, '_raise_for_status_hook'))

    def unsafe_default(name, ty, fn, unsafe):
        try:
            emit(f'def {name} : {ty} := {fn()}')
        except Exception as e:  # noqa: BLE001
            notes[f's3.{name}'] = f'not recognised, emitted as {unsafe}: {e!r}'[:300]
            emit(f'def {name} : {ty} := {unsafe}')

    def _client_ctor_calls():
        return [n for n in ast.walk(tree) if isinstance(n, ast.Call) and un(n.func) in ('httpx.AsyncClient', 'httpx.Client', 'AsyncClient', 'Client')]

    def follow_redirects():
        yes = False
        for n in ast.walk(tree):
            if isinstance(n, ast.Call):
                for k in n.keywords:
                    if k.arg == 'follow_redirects':
                        v = ast.literal_eval(k.value)          # raises for a non-literal → unsafe value
                        assert isinstance(v, bool), un(n)
                        yes = yes or v
                    elif k.arg is None and un(n.func).split('.')[-1] in ('send', 'request', 'stream', 'get', 'put', 'head', 'delete', 'post',
                                                                        'AsyncClient', 'Client'):
                        raise ValueError('**kwargs reach ' + un(n.func))
            elif isinstance(n, (ast.Assign, ast.AugAssign)):
                for t in (n.targets if isinstance(n, ast.Assign) else [n.target]):
                    if isinstance(t, ast.Attribute) and t.attr == 'follow_redirects':
                        raise ValueError('assignment to ' + un(t))
        return 'true' if yes else 'false'
    unsafe_default('s3FollowRedirects', 'Bool', follow_redirects, 'true')

    def max_redirects():
        vals = set()
        for c in _client_ctor_calls():
            for k in c.keywords:
                if k.arg == 'max_redirects':
                    vals.add(ast.literal_eval(k.value))
        if not vals:              # the library's default, read from the installed httpx (text; the extractor may run without httpx importable)
            import glob
            import re
            for cfgpy in sorted(glob.glob('/venv/lib/python*/site-packages/httpx/_config.py')):
                m = re.search(r'^DEFAULT_MAX_REDIRECTS\s*=\s*(\d+)\s*$', open(cfgpy).read(), flags=re.M)
                if m:
                    vals.add(int(m.group(1)))
        assert len(vals) == 1 and all(isinstance(v, int) and v >= 0 for v in vals), vals
        return str(vals.pop())
    unsafe_default('s3MaxRedirects', 'Nat', max_redirects, '20')

    def hook_raises():
        """true iff the hook registered for responses calls `<response>.raise_for_status()` on every path: the call is a top-level
        statement (or the first statement of a top-level `try` whose handlers all end in `raise`), preceded only by plain
        assignments / expression statements."""
        ctors = _client_ctor_calls()
        assert len(ctors) == 1, [un(c) for c in ctors]
        hooks = None
        for k in ctors[0].keywords:
            if k.arg == 'event_hooks':
                assert isinstance(k.value, ast.Dict), un(k.value)
                for kk, vv in zip(k.value.keys, k.value.values):
                    if ast.literal_eval(kk) == 'response':
                        assert isinstance(vv, (ast.List, ast.Tuple)), un(vv)
                        hooks = [un(e) for e in vv.elts]
        assert hooks, 'no response hook registered'
        for n in ast.walk(tree):          # the hook table must not be changed elsewhere
            if isinstance(n, ast.Attribute) and n.attr == 'event_hooks':
                raise ValueError('event_hooks accessed: ' + un(n))

        def is_rfs(st, param):
            v = st.value if isinstance(st, ast.Expr) else None
            if isinstance(v, ast.Await):
                v = v.value
            return isinstance(v, ast.Call) and un(v.func) == f'{param}.raise_for_status' and not v.args and not v.keywords

        def plain(st):
            return isinstance(st, (ast.Assign, ast.AnnAssign, ast.AugAssign, ast.Expr)) and not any(
                isinstance(x, (ast.Return, ast.Raise, ast.Yield, ast.YieldFrom)) for x in ast.walk(st))

        def raises_always(hname):
            f = func(hname)
            param = f.args.args[0].arg
            for st in f.body:
                if is_rfs(st, param):
                    return True
                if isinstance(st, ast.Try):
                    body = [s for s in st.body]
                    assert body and is_rfs(body[0], param), 'try does not start with raise_for_status(): ' + un(st)[:120]
                    for h in st.handlers:
                        assert isinstance(h.body[-1], ast.Raise), 'handler swallows the error: ' + un(h)[:120]
                    assert not any(isinstance(x, ast.Return) for s in st.finalbody for x in ast.walk(s)), 'return in finally'
                    return True
                assert plain(st), 'statement before raise_for_status(): ' + un(st)[:120]
            raise ValueError('no raise_for_status() in ' + hname)
        assert any(raises_always(h) for h in hooks if h.isidentifier()), hooks
        return 'true'
    unsafe_default('s3HookRaisesOnNon2xx', 'Bool', hook_raises, 'false')
