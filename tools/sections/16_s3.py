"""Extractor plug-in for C16 (S3 request signing): reads replicat/backends/s3c.py of the CURRENT tree.

Everything is emitted as byte lists / small Nat codes (no `String` reduction is needed inside proofs).  An item that is
not recognised is emitted as `opaque` (so the model and the driver still compile, but every theorem that unfolds it stops
compiling) and recorded in the notes.

The recognisers are SEMANTIC: they do not match source text, variable names or the helper a computation lives in.
  Part A  a small symbolic evaluator (values of straight-line Python: names resolved through assignments, module constants,
          imports and constructor attributes; calls into methods / functions / lambdas followed; conditions normalised; strings in
          one flat normal form) runs every PUBLIC method of the adapter on symbolic arguments;
  Part B  what reaches the HTTP client (`build_request` + `send`, `request`, `stream`, verb shortcuts) is collected as values;
  Part C  an abstract interpretation of the effects on one stream object (seek / truncate / read) along normal and exceptional
          paths, following helper calls, gives the rewind facts;
  Part D  the facts are read off those values by parsing them with the grammar of SigV4 AND re-synthesising them with the
          composition rules of `ReplicatModel/SigV4.lean` — a fact is emitted only if the re-synthesis is identical to what the
          code computes, otherwise `opaque` / false / the unsafe value.
(`tools/sections/12_retry.py` loads Parts A–C from this file.)
"""
import ast
import builtins as _builtins


# =====================================================================================================================
#  Part A — a small symbolic evaluator for straight-line Python (values, not syntax)
#
#  The recognisers below do not look at variable names, statement order or the helper a computation lives in.  They run the
#  public methods of the adapter on symbolic arguments, follow calls into methods of `self`, module-level and nested functions,
#  resolve names through assignments / module constants / imports, normalise conditions, and look at the VALUES that reach
#  the HTTP client.  Strings are kept in one normal form (a flat list of constant characters and atomic terms), so that
#  f-strings, `+`, `%`, `.format`, `.join` over lists / comprehensions / loops all denote the same thing.
#  Whatever the evaluator does not understand becomes an `unknown` atom; a fact that needs it is then not recognised.
# =====================================================================================================================
class Unrec(Exception):
    """a fact is not recognised"""


HOLE = ('hole',)
NONE = ('k', None)
TRUE = ('k', True)
FALSE = ('k', False)

STRFTIME_WIDTH = {'Y': 4, 'm': 2, 'd': 2, 'H': 2, 'M': 2, 'S': 2, 'j': 3, 'y': 2}


def S(kind, toks):
    return ('S', kind, tuple(toks))


def lift(v):
    """Python constant → term"""
    if isinstance(v, str):
        return S('s', [('c', ch) for ch in v])
    if isinstance(v, bytes):
        return S('b', [('c', chr(x)) for x in v])
    if isinstance(v, tuple):
        return ('tuple', tuple(lift(x) for x in v))
    return ('k', v)


def is_S(t, kind=None):
    return isinstance(t, tuple) and t and t[0] == 'S' and (kind is None or t[1] == kind)


def const_of(t):
    """term → (True, python value) when it is a constant"""
    if is_S(t):
        if all(x[0] == 'c' for x in t[2]):
            s = ''.join(x[1] for x in t[2])
            return True, (s if t[1] == 's' else s.encode('latin-1'))
        return False, None
    if isinstance(t, tuple) and t and t[0] == 'k':
        return True, t[1]
    if isinstance(t, tuple) and t and t[0] in ('tuple', 'list'):
        vals = [const_of(x) for x in t[1]]
        if all(ok for ok, _ in vals):
            return True, (tuple if t[0] == 'tuple' else list)(v for _, v in vals)
    return False, None


def toks_of(t, kind='s'):
    """term → token list of a string of the given kind (an atom becomes one token)"""
    if is_S(t):
        return list(t[2])
    return [('t', t)]


STRINGISH = ('quote', 'urlencode', 'hex', 'tf', 'join', 'tostr')


def is_stringish(t):
    return is_S(t) or (isinstance(t, tuple) and t and t[0] in STRINGISH)


def encode_term(t):
    """str term → bytes term (utf-8)"""
    if is_S(t, 's'):
        out = []
        for x in t[2]:
            if x[0] == 'c':
                out += [('c', chr(b)) for b in x[1].encode('utf-8')]
            else:
                out.append(('t', ('enc', x[1])))
        return S('b', out)
    return S('b', [('t', ('enc', t))])


def neg(c):
    if c == TRUE:
        return FALSE
    if c == FALSE:
        return TRUE
    if c[0] == 'not':
        return c[1]
    return ('not', c)


def conj(cs):
    out = []
    for c in cs:
        if c == FALSE:
            return FALSE
        if c == TRUE:
            continue
        for d in (c[1] if c[0] == 'and' else (c,)):
            if neg(d) in out:
                return FALSE
            if d not in out:
                out.append(d)
    if not out:
        return TRUE
    if len(out) == 1:
        return out[0]
    return ('and', tuple(sorted(out, key=repr)))


def disj(cs):
    return neg(conj([neg(c) for c in cs]))


COND_KINDS = ('truthy', 'isnone', 'eq', 'not', 'and', 'isinst', 'cmp', 'in', 'exc', 'loop')


def common_prefix(a, b):
    n = 0
    while n < len(a) and n < len(b) and a[n] == b[n]:
        n += 1
    return n


def mk_phi(c, a, b):
    """value-level conditional, normalised"""
    if c == TRUE:
        return a
    if c == FALSE:
        return b
    if a == b:
        return a
    if c[0] == 'not':
        return mk_phi(c[1], b, a)
    if a is not None and b is not None and a[0] == 'raise':
        return b
    if a is not None and b is not None and b[0] == 'raise':
        return a
    if is_S(a) and is_S(b) and a[1] == b[1]:
        ta, tb = list(a[2]), list(b[2])
        p = common_prefix(ta, tb)
        ra, rb = ta[p:], tb[p:]
        s = common_prefix(ra[::-1], rb[::-1])
        ma, mb = (ra[:len(ra) - s], rb[:len(rb) - s]) if s else (ra, rb)
        suffix = ra[len(ra) - s:] if s else []
        return S(a[1], ta[:p] + [('t', ('phi', c, S(a[1], ma), S(a[1], mb)))] + suffix)
    if (a[0] in COND_KINDS or a in (TRUE, FALSE)) and (b[0] in COND_KINDS or b in (TRUE, FALSE)):
        return disj([conj([c, a]), conj([neg(c), b])])
    if a[0] == 'dict' and b[0] == 'dict':
        return merge_dicts(c, a, b)
    return ('phi', c, a, b)


def merge_dicts(c, a, b):
    ea, eb = list(a[1]), list(b[1])
    p = common_prefix(ea, eb)
    out = ea[:p]
    for e in ea[p:]:
        out.append(e[:-1] + (tuple(e[-1]) + (c,),))
    for e in eb[p:]:
        out.append(e[:-1] + (tuple(e[-1]) + (neg(c),),))
    return ('dict', tuple(out))


def as_cond(t):
    """term → condition (its truth value)"""
    if t[0] in COND_KINDS:
        return t
    ok, v = const_of(t)
    if ok:
        return TRUE if v else FALSE
    if t[0] == 'dict':
        if not t[1]:
            return FALSE
        if any(e[0] == 'kv' and not e[3] for e in t[1]):
            return TRUE
    if t[0] in ('list', 'tuple', 'set'):
        return TRUE if t[1] else FALSE
    if is_S(t):
        if any(x[0] == 'c' for x in t[2]):
            return TRUE
    if t[0] == 'phi':
        return disj([conj([t[1], as_cond(t[2])]), conj([neg(t[1]), as_cond(t[3])])])
    if t[0] in ('hex', 'hash', 'hmac', 'func', 'rawfunc', 'bound', 'lambda', 'ext', 'self', 'now'):
        return TRUE
    return ('truthy', t)


def is_none_cond(t):
    ok, v = const_of(t)
    if ok:
        return TRUE if v is None else FALSE
    if t[0] in ('S', 'dict', 'list', 'tuple', 'set', 'quote', 'urlencode', 'hex', 'hash', 'hmac', 'now', 'func', 'rawfunc', 'bound', 'lambda', 'self', 'ref'):
        return FALSE
    if t[0] == 'phi':
        return disj([conj([t[1], is_none_cond(t[2])]), conj([neg(t[1]), is_none_cond(t[3])])])
    return ('isnone', t)


def eq_cond(a, b):
    oa, va = const_of(a)
    ob, vb = const_of(b)
    if oa and ob:
        return TRUE if va == vb else FALSE
    if a == b and a[0] not in ('unknown', 'call', 'meth'):
        return TRUE
    x, y = sorted((a, b), key=repr)
    return ('eq', x, y)


class St:
    """abstract state of one path: local names, the heap of mutable containers, attributes written on `self`"""
    __slots__ = ('env', 'heap', 'selfw')

    def __init__(self, env=None, heap=None, selfw=None):
        self.env = env if env is not None else {}
        self.heap = heap if heap is not None else {}
        self.selfw = selfw if selfw is not None else {}

    def copy(self):
        return St(dict(self.env), dict(self.heap), dict(self.selfw))


def merge_states(c, a, b):
    if a is None:
        return b
    if b is None:
        return a
    out = St()
    for k in set(a.env) | set(b.env):
        va, vb = a.env.get(k), b.env.get(k)
        if k == '__closure__':
            out.env[k] = va if va is not None else vb
        elif va is None or vb is None:
            out.env[k] = mk_phi(c, va or ('unknown', 'unbound', k), vb or ('unknown', 'unbound', k))
        else:
            out.env[k] = mk_phi(c, va, vb)
    for k in set(a.heap) | set(b.heap):
        va, vb = a.heap.get(k), b.heap.get(k)
        out.heap[k] = va if vb is None else vb if va is None else mk_phi(c, va, vb)
    for k in set(a.selfw) | set(b.selfw):
        va, vb = a.selfw.get(k, ('selfattr', k)), b.selfw.get(k, ('selfattr', k))
        out.selfw[k] = mk_phi(c, va, vb)
    return out


def subst_hole(R, R2):
    if R is None:
        return R2
    if R == HOLE:
        return R2 if R2 is not None else HOLE
    if R[0] == 'rphi':
        return ('rphi', R[1], subst_hole(R[2], R2), subst_hole(R[3], R2))
    return R


class Mod:
    """one parsed module: imports, module-level functions / classes / constants"""

    def __init__(self, src, package='replicat.backends'):
        self.tree = ast.parse(src)
        self.package = package
        self.funcs, self.classes, self.assigns, self.imports = {}, {}, {}, {}
        for st in self.tree.body:
            self._scan(st)

    def _scan(self, st):
        if isinstance(st, (ast.FunctionDef, ast.AsyncFunctionDef)):
            self.funcs[st.name] = st
            self.assigns.pop(st.name, None)
            self.imports.pop(st.name, None)
        elif isinstance(st, ast.ClassDef):
            self.classes[st.name] = st
        elif isinstance(st, ast.Assign):
            for t in st.targets:
                for n in ast.walk(t):
                    if isinstance(n, ast.Name):
                        if isinstance(t, ast.Name):
                            self.assigns.setdefault(n.id, []).append(st.value)
                        else:
                            self.assigns.setdefault(n.id, []).append(None)
                        self.imports.pop(n.id, None)
                        self.funcs.pop(n.id, None)
        elif isinstance(st, ast.AnnAssign) and isinstance(st.target, ast.Name) and st.value is not None:
            self.assigns.setdefault(st.target.id, []).append(st.value)
        elif isinstance(st, ast.AugAssign) and isinstance(st.target, ast.Name):
            self.assigns.setdefault(st.target.id, []).append(None)
        elif isinstance(st, ast.Import):
            for a in st.names:
                if a.asname:
                    self.imports[a.asname] = a.name
                else:
                    self.imports[a.name.split('.')[0]] = a.name.split('.')[0]
        elif isinstance(st, ast.ImportFrom):
            base = self.rel(st.module, st.level)
            for a in st.names:
                self.imports[a.asname or a.name] = (base + '.' + a.name) if base else a.name
        elif isinstance(st, (ast.If, ast.Try)):
            for sub in ast.iter_child_nodes(st):
                if isinstance(sub, ast.stmt):
                    self._scan(sub)
                elif isinstance(sub, ast.ExceptHandler):
                    for x in sub.body:
                        self._scan(x)

    def rel(self, module, level):
        if not level:
            return module or ''
        parts = self.package.split('.')
        parts = parts[:len(parts) - (level - 1)] if level > 1 else parts
        return '.'.join(parts + ([module] if module else []))


PROPERTY_DECORATORS = ('builtins.property',)
# (memoising decorators are NOT transparent: a cached clock reading or a cached key is a different program)
PURE_DECORATORS = PROPERTY_DECORATORS + ('functools.wraps', 'staticmethod', 'builtins.staticmethod',
                   'contextlib.contextmanager', 'contextlib.asynccontextmanager', 'abc.abstractmethod',
                   'backoff.on_exception', 'backoff.on_predicate', 'replicat.utils.requires_auth', 'replicat.utils.disable_gc')
LOGGER_METHODS = ('debug', 'info', 'warning', 'warn', 'error', 'exception', 'critical', 'log')


class Sym:
    """the evaluator; one instance per module + class"""
    MAX_DEPTH = 8
    MAX_UNROLL = 64

    def __init__(self, mod, cls=None):
        self.mod = mod
        self.cls = mod.classes.get(cls) if isinstance(cls, str) else cls
        self.uid = 0
        self.trace = []            # external calls in evaluation order: (guards, term)
        self.guards = []
        self.stack = []
        self.yields = []
        self.modcache = {}
        self.modbusy = set()
        self.methods = {}
        self.class_assigns = {}
        if self.cls is not None:
            for st in self.cls.body:
                if isinstance(st, (ast.FunctionDef, ast.AsyncFunctionDef)):
                    self.methods[st.name] = st
                elif isinstance(st, ast.Assign) and len(st.targets) == 1 and isinstance(st.targets[0], ast.Name):
                    self.class_assigns[st.targets[0].id] = st.value
        self.ctor_attrs = None
        self.keep_raises = False
        self.raised = []           # (conditions, exception) of `raise` statements met inside followed calls (keep_raises only)

    # ------------------------------------------------------------------ helpers
    def fresh(self):
        self.uid += 1
        return self.uid

    def unknown(self, why):
        return ('unknown', why, self.fresh())

    def new_ref(self, st, val):
        n = self.fresh()
        st.heap[n] = val
        return ('ref', n)

    def deref(self, t, st, depth=0):
        """replace references by (a snapshot of) what they point to"""
        if not isinstance(t, tuple) or depth > 12:
            return t
        if t and t[0] == 'ref':
            return self.deref(st.heap.get(t[1], ('unknown', 'dangling', t[1])), st, depth + 1)
        if t and t[0] in ('func', 'rawfunc', 'bound', 'lambda', 'k', 'ext'):
            return t
        if not self._has_ref(t):
            return t
        return tuple(self.deref(x, st, depth + 1) if isinstance(x, tuple) else x for x in t)

    def _has_ref(self, t, depth=0):
        if not isinstance(t, tuple) or depth > 14:
            return False
        if t and t[0] == 'ref':
            return True
        if t and t[0] in ('func', 'rawfunc', 'bound', 'lambda'):
            return False
        return any(self._has_ref(x, depth + 1) for x in t if isinstance(x, tuple))

    def dotted_of_decorator(self, d):
        """decorator expression → dotted name of what it finally applies (through module-level names / partial), or None"""
        try:
            v = self.ev(d.func if isinstance(d, ast.Call) else d, St())
        except Exception:  # noqa: BLE001
            return None
        seen = 0
        while seen < 6:
            seen += 1
            if v[0] == 'ext':
                return v[1]
            if v[0] == 'call' and isinstance(v[1], str):
                if v[1] == 'functools.partial' and v[2]:
                    v = v[2][0]
                    continue
                return v[1]
            if v[0] == 'partial':
                v = v[1]
                continue
            break
        return None

    # ------------------------------------------------------------------ name lookup
    def lookup(self, name, st):
        env = st.env
        while env is not None:
            if name in env:
                return env[name]
            env = env.get('__closure__')
        return self.module_name(name)

    def module_name(self, name):
        m = self.mod
        if name in m.funcs:
            return ('func', m.funcs[name], None)
        if name in m.assigns:
            vals = m.assigns[name]
            if len(vals) != 1 or vals[0] is None:
                return ('unknown', 'module name assigned more than once', name)
            if name in self.modcache:
                return self.modcache[name]
            if name in self.modbusy:
                return ('unknown', 'cyclic module constant', name)
            self.modbusy.add(name)
            try:
                ms = St()
                saved = self.guards
                self.guards = []
                v = self.deref(self.ev(vals[0], ms), ms)
                self.guards = saved
            finally:
                self.modbusy.discard(name)
            if v[0] in ('dict', 'list', 'set') and self.module_mutates(name):
                v = ('unknown', 'module-level container that the module changes', name)
            self.modcache[name] = v
            return v
        if name in m.classes:
            return ('class', name)
        if name in m.imports:
            return ('ext', m.imports[name])
        if hasattr(_builtins, name):
            return ('ext', 'builtins.' + name)
        return ('unknown', 'unbound name', name)

    MUTATORS = ('append', 'extend', 'insert', 'pop', 'popitem', 'remove', 'clear', 'update', 'setdefault', 'add', 'discard', 'sort', 'reverse',
                '__setitem__', '__delitem__')

    def module_mutates(self, name):
        """is the module-level container `name` changed anywhere (item stores, mutating methods, rebinding through `global`)?"""
        for n in ast.walk(self.mod.tree):
            if isinstance(n, (ast.Subscript, ast.Attribute)) and isinstance(n.ctx, (ast.Store, ast.Del)) and isinstance(n.value, ast.Name) and n.value.id == name:
                return True
            if isinstance(n, ast.Call) and isinstance(n.func, ast.Attribute) and n.func.attr in self.MUTATORS and isinstance(n.func.value, ast.Name) and n.func.value.id == name:
                return True
            if isinstance(n, (ast.Global, ast.Nonlocal)) and name in n.names:
                return True
            if isinstance(n, ast.AugAssign) and isinstance(n.target, ast.Name) and n.target.id == name:
                return True
        return False

    # ------------------------------------------------------------------ attributes of self
    def self_param(self, fn):
        a = fn.args
        allp = a.posonlyargs + a.args
        return allp[0].arg if allp else None

    def init_attrs(self):
        """attributes of `self` that are assigned in `__init__` only → their symbolic value in terms of the constructor's parameters"""
        if self.ctor_attrs is not None:
            return self.ctor_attrs
        self.ctor_attrs = {}
        init = self.methods.get('__init__')
        stored_elsewhere = set()
        dynamic = False
        for name, fn in self.methods.items():
            sp = self.self_param(fn)
            for n in ast.walk(fn):
                if isinstance(n, ast.Attribute) and isinstance(n.ctx, (ast.Store, ast.Del)) and isinstance(n.value, ast.Name) and n.value.id == sp:
                    if name != '__init__':
                        stored_elsewhere.add(n.attr)
                if isinstance(n, ast.Call) and isinstance(n.func, ast.Name) and n.func.id in ('setattr', 'delattr'):
                    dynamic = True
                if isinstance(n, ast.Attribute) and n.attr == '__dict__':
                    dynamic = True
        self.state_attrs = stored_elsewhere
        self.dynamic_attrs = dynamic
        if init is None or dynamic:
            return self.ctor_attrs
        st = St()
        a = init.args
        params = a.posonlyargs + a.args + a.kwonlyargs
        for i, p in enumerate(params):
            st.env[p.arg] = ('self',) if i == 0 else ('ctor', p.arg)
        if a.vararg:
            st.env[a.vararg.arg] = ('unknown', 'ctor *args', 0)
        if a.kwarg:
            st.env[a.kwarg.arg] = ('unknown', 'ctor **kwargs', 0)
        saved = (self.trace, self.guards)
        self.trace, self.guards = [], []
        try:
            self.stack.append(init)
            fall, R = self.exec_block(init.body, st)
            self.stack.pop()
            fin = self.fold(subst_hole(R, ('ret', NONE, fall)) if fall is not None else R)
            if fin is not None:
                _, fst = fin
                for k, v in fst.selfw.items():
                    if k not in stored_elsewhere:
                        self.ctor_attrs[k] = self.deref(v, fst)
        finally:
            self.trace, self.guards = saved
        return self.ctor_attrs

    def self_attr(self, name, st):
        if name in st.selfw:
            return st.selfw[name]
        if name in self.methods:
            fn = self.methods[name]
            if any(self.dotted_of_decorator(d) in PROPERTY_DECORATORS for d in fn.decorator_list):
                return self.call_user(fn, None, ('self',), [], [], st)
            return ('bound', fn)
        attrs = self.init_attrs() if not (self.stack and self.stack[0].name == '__init__' and self.ctor_attrs == {}) else {}
        if name in attrs:
            return attrs[name]
        if name in self.class_assigns and name not in getattr(self, 'state_attrs', ()):
            tmp = St()
            v = self.deref(self.ev(self.class_assigns[name], tmp), tmp)
            if v[0] in ('dict', 'list', 'set'):
                return ('unknown', 'class-level container', name)
            return v
        return ('selfattr', name)

    # ------------------------------------------------------------------ expressions
    def ev(self, node, st):
        m = getattr(self, 'ev_' + type(node).__name__, None)
        if m is None:
            return self.unknown('expression ' + type(node).__name__)
        return m(node, st)

    def ev_Constant(self, node, st):
        return lift(node.value)

    def ev_Name(self, node, st):
        return self.lookup(node.id, st)

    def ev_Await(self, node, st):
        return self.ev(node.value, st)

    def ev_NamedExpr(self, node, st):
        v = self.ev(node.value, st)
        self.assign(node.target, v, st)
        return v

    def ev_Tuple(self, node, st):
        return ('tuple', tuple(self.ev_seq(node.elts, st)))

    def ev_List(self, node, st):
        return self.new_ref(st, ('list', tuple(self.ev_seq(node.elts, st))))

    def ev_Set(self, node, st):
        return ('set', tuple(self.ev_seq(node.elts, st)))

    def ev_seq(self, elts, st):
        out = []
        for e in elts:
            if isinstance(e, ast.Starred):
                items = self.concrete_items(self.ev(e.value, st), st)
                if items is None:
                    out.append(self.unknown('starred'))
                else:
                    out += items
            else:
                out.append(self.ev(e, st))
        return out

    def ev_Dict(self, node, st):
        entries = []
        for k, v in zip(node.keys, node.values):
            if k is None:
                entries += self.spread_entries(self.deref(self.ev(v, st), st), ())
            else:
                entries = self.dict_set(entries, self.ev(k, st), self.ev(v, st), ())
        return self.new_ref(st, ('dict', tuple(entries)))

    def spread_entries(self, t, guard):
        if t[0] == 'dict':
            return [e[:-1] + (tuple(e[-1]) + tuple(guard),) for e in t[1]]
        if t[0] == 'phi' and t[2][0] == 'dict' and t[3][0] == 'dict':
            return self.spread_entries(t[2], tuple(guard) + (t[1],)) + self.spread_entries(t[3], tuple(guard) + (neg(t[1]),))
        return [('spread', t, tuple(guard))]

    def dict_set(self, entries, k, v, guard):
        entries = list(entries)
        if not guard:
            okk, kv = const_of(k)
            for i, e in enumerate(entries):
                if e[0] == 'kv' and not e[3] and e[1] == k and okk:
                    entries[i] = ('kv', k, v, ())
                    return entries
        entries.append(('kv', k, v, tuple(guard)))
        return entries

    def ev_JoinedStr(self, node, st):
        toks = []
        for p in node.values:
            if isinstance(p, ast.Constant):
                toks += toks_of(lift(p.value))
            else:
                v = self.deref(self.ev(p.value, st), st)
                spec = None
                if p.format_spec is not None:
                    sp = self.ev(p.format_spec, st)
                    ok, spec = const_of(sp)
                    if not ok:
                        toks.append(('t', self.unknown('dynamic format spec')))
                        continue
                toks += toks_of(self.format_value(v, p.conversion, spec))
        return S('s', toks)

    def format_value(self, v, conversion, spec):
        if conversion not in (-1, 115):
            return ('fmt', v, conversion, spec)
        if spec in (None, ''):
            return v if is_S(v, 's') else S('s', [('t', v)])
        if v[0] == 'now':
            return self.strftime(v, spec)
        return ('fmt', v, conversion, spec)

    def strftime(self, now, fmt):
        toks = []
        i = 0
        while i < len(fmt):
            if fmt[i] == '%' and i + 1 < len(fmt):
                if fmt[i + 1] == '%':
                    toks.append(('c', '%'))
                else:
                    toks.append(('t', ('tf', now, fmt[i + 1])))
                i += 2
            else:
                toks.append(('c', fmt[i]))
                i += 1
        return S('s', toks)

    def ev_BinOp(self, node, st):
        a = self.deref(self.ev(node.left, st), st)
        b = self.deref(self.ev(node.right, st), st)
        if isinstance(node.op, ast.Add):
            if is_S(a) or is_S(b) or (is_stringish(a) and is_stringish(b)):
                kind = a[1] if is_S(a) else b[1] if is_S(b) else 's'
                if (is_S(a) and a[1] != kind) or (is_S(b) and b[1] != kind):
                    return self.unknown('str + bytes')
                return S(kind, toks_of(a) + toks_of(b))
            if a[0] in ('list', 'tuple') and b[0] == a[0]:
                return (a[0], a[1] + b[1])
        if isinstance(node.op, ast.Mod) and is_S(a):
            ok, f = const_of(a)
            if ok and isinstance(f, str):
                args = list(b[1]) if b[0] == 'tuple' else [b]
                return self.printf(f, args)
        if isinstance(node.op, ast.BitOr) and a[0] == 'dict' and b[0] == 'dict':
            entries = list(a[1])
            for e in b[1]:
                entries = self.dict_set(entries, e[1], e[2], e[3]) if e[0] == 'kv' else entries + [e]
            return ('dict', tuple(entries))
        oa, va = const_of(a)
        ob, vb = const_of(b)
        if oa and ob and (not isinstance(va, (str, bytes)) or isinstance(node.op, ast.Mult)):
            try:
                return lift(eval(compile(ast.Expression(ast.BinOp(ast.Constant(va), node.op, ast.Constant(vb))), '<c>', 'eval'), {}))  # noqa: S307
            except Exception:  # noqa: BLE001
                pass
        return ('binop', type(node.op).__name__, a, b)

    def printf(self, f, args):
        toks, i, k = [], 0, 0
        while i < len(f):
            if f[i] == '%' and i + 1 < len(f):
                if f[i + 1] == '%':
                    toks.append(('c', '%'))
                elif f[i + 1] == 's' and k < len(args):
                    toks += toks_of(args[k])
                    k += 1
                else:
                    return self.unknown('printf format')
                i += 2
            else:
                toks.append(('c', f[i]))
                i += 1
        if k != len(args):
            return self.unknown('printf arity')
        return S('s', toks)

    def ev_UnaryOp(self, node, st):
        if isinstance(node.op, ast.Not):
            return neg(self.ev_cond(node.operand, st))
        v = self.ev(node.operand, st)
        ok, c = const_of(v)
        if ok and isinstance(c, (int, float)) and isinstance(node.op, ast.USub):
            return lift(-c)
        return ('unop', type(node.op).__name__, v)

    def ev_BoolOp(self, node, st):
        vals = [self.deref(self.ev(v, st), st) for v in node.values]
        if all(v[0] in COND_KINDS or v in (TRUE, FALSE) for v in vals):
            return conj(vals) if isinstance(node.op, ast.And) else disj(vals)
        out = vals[-1]
        for v in reversed(vals[:-1]):
            c = as_cond(v)
            out = mk_phi(c, v, out) if isinstance(node.op, ast.Or) else mk_phi(c, out, v)
        return out

    def ev_Compare(self, node, st):
        return self.ev_cond(node, st)

    def ev_IfExp(self, node, st):
        c = self.ev_cond(node.test, st)
        if c == TRUE:
            return self.ev(node.body, st)
        if c == FALSE:
            return self.ev(node.orelse, st)
        a = self.deref(self.ev(node.body, st), st)
        b = self.deref(self.ev(node.orelse, st), st)
        return mk_phi(c, a, b)

    def ev_Lambda(self, node, st):
        return ('lambda', node, st.env)

    def ev_Attribute(self, node, st):
        obj = self.ev(node.value, st)
        return self.get_attr(obj, node.attr, st)

    def get_attr(self, obj, name, st):
        if obj == ('self',):
            return self.self_attr(name, st)
        if obj[0] == 'ext':
            return ('ext', obj[1] + '.' + name)
        if obj[0] == 'class' and self.cls is not None and obj[1] == self.cls.name:
            if name in self.methods:
                return ('func', self.methods[name], None)
            if name in self.class_assigns:
                return self.ev(self.class_assigns[name], St())
        d = self.deref(obj, st)
        if d[0] == 'ns' and name in dict(d[1]):
            return dict(d[1])[name]
        return ('attr', d, name)

    def ev_Subscript(self, node, st):
        obj = self.deref(self.ev(node.value, st), st)
        if isinstance(node.slice, ast.Slice):
            lo = self.ev(node.slice.lower, st) if node.slice.lower is not None else NONE
            hi = self.ev(node.slice.upper, st) if node.slice.upper is not None else NONE
            ol, vl = const_of(lo)
            oh, vh = const_of(hi)
            if node.slice.step is None and ol and oh and is_S(obj):
                r = self.slice_S(obj, vl, vh)
                if r is not None:
                    return r
            if node.slice.step is None and ol and oh and obj[0] in ('list', 'tuple'):
                return (obj[0], obj[1][vl:vh])
            return ('slice', obj, lo, hi)
        key = self.deref(self.ev(node.slice, st), st)
        return self.get_item(obj, key)

    def get_item(self, obj, key):
        ok, kv = const_of(key)
        if obj[0] in ('list', 'tuple') and ok and isinstance(kv, int) and -len(obj[1]) <= kv < len(obj[1]):
            return obj[1][kv]
        if obj[0] == 'dict' and ok:
            hit = None
            for e in obj[1]:
                if e[0] != 'kv':
                    hit = 'unsure'
                elif e[1] == key:
                    hit = e[2] if not e[3] else 'unsure'
                elif not const_of(e[1])[0]:
                    hit = 'unsure'
            if hit is not None and hit != 'unsure':
                return hit
        return ('sub', obj, key)

    def slice_S(self, s, lo, hi):
        widths = []
        for x in s[2]:
            if x[0] == 'c':
                widths.append(1)
            elif x[1][0] == 'tf' and x[1][2] in STRFTIME_WIDTH:
                widths.append(STRFTIME_WIDTH[x[1][2]])
            else:
                widths.append(None)
        pos, bounds = 0, {0: 0}
        for i, w in enumerate(widths):
            if w is None:
                break
            pos += w
            bounds[pos] = i + 1
        else:
            total = pos
            lo = 0 if lo is None else lo
            hi = total if hi is None else hi
            if isinstance(lo, int) and isinstance(hi, int):
                lo = max(0, lo + total) if lo < 0 else min(lo, total)
                hi = max(0, hi + total) if hi < 0 else min(hi, total)
                if lo in bounds and hi in bounds and lo <= hi:
                    return S(s[1], s[2][bounds[lo]:bounds[hi]])
            return None
        lo = 0 if lo is None else lo
        if isinstance(lo, int) and isinstance(hi, int) and 0 <= lo <= hi and lo in bounds and hi in bounds:
            return S(s[1], s[2][bounds[lo]:bounds[hi]])
        return None

    def ev_ListComp(self, node, st):
        r = self.comprehension(node, st, lambda s2: self.ev(node.elt, s2))
        return self.unknown('comprehension') if r is None else ('list', tuple(r))

    ev_GeneratorExp = ev_ListComp

    def ev_SetComp(self, node, st):
        r = self.comprehension(node, st, lambda s2: self.ev(node.elt, s2))
        return self.unknown('comprehension') if r is None else ('set', tuple(r))

    def ev_DictComp(self, node, st):
        r = self.comprehension(node, st, lambda s2: (self.ev(node.key, s2), self.ev(node.value, s2)))
        if r is None:
            return self.unknown('comprehension')
        entries = []
        for k, v in r:
            entries = self.dict_set(entries, k, v, ())
        return ('dict', tuple(entries))

    def comprehension(self, node, st, elt):
        """unroll a comprehension over concrete sequences; None when that is not possible"""
        out = []

        def rec(i, s2):
            if i == len(node.generators):
                v = elt(s2)
                out.append(tuple(self.deref(x, s2) for x in v) if isinstance(v, tuple) and v and isinstance(v[0], tuple) else self.deref(v, s2))
                return True
            g = node.generators[i]
            if g.is_async:
                return False
            items = self.concrete_items(self.deref(self.ev(g.iter, s2), s2), s2)
            if items is None or len(items) > self.MAX_UNROLL:
                return False
            for it in items:
                s3 = St(dict(s2.env), s2.heap, s2.selfw)
                self.assign(g.target, it, s3)
                keep = True
                for cnd in g.ifs:
                    c = self.ev_cond(cnd, s3)
                    if c == FALSE:
                        keep = False
                        break
                    if c != TRUE:
                        return False
                if keep and not rec(i + 1, s3):
                    return False
            return True
        inner = St({'__closure__': st.env}, st.heap, st.selfw)
        ok = rec(0, inner)
        return out if ok else None

    def concrete_items(self, t, st):
        """the elements a `for` over this value visits, when they are known"""
        t = self.deref(t, st)
        if t[0] in ('list', 'tuple', 'set'):
            return list(t[1])
        if t[0] == 'dict':
            if all(e[0] == 'kv' and not e[3] for e in t[1]):
                return [e[1] for e in t[1]]
            return None
        if t[0] in ('items', 'keys', 'values') and t[1][0] == 'dict':
            d = t[1]
            if all(e[0] == 'kv' and not e[3] for e in d[1]):
                if t[0] == 'items':
                    return [('tuple', (e[1], e[2])) for e in d[1]]
                return [e[1] if t[0] == 'keys' else e[2] for e in d[1]]
            return None
        if t[0] == 'sorted':
            items = self.concrete_items(t[1], st)
            if items is not None:
                vals = [const_of(x) for x in items]
                if all(ok for ok, _ in vals):
                    try:
                        return [lift(v) for v in sorted(v for _, v in vals)]
                    except TypeError:
                        return None
                if all(x[0] == 'tuple' and len(x[1]) == 2 and const_of(x[1][0])[0] for x in items):
                    keys = [const_of(x[1][0])[1] for x in items]
                    if len(set(map(repr, keys))) == len(keys):
                        try:
                            return [x for _, x in sorted(zip(keys, items), key=lambda p: p[0])]
                        except TypeError:
                            return None
            return None
        if t[0] == 'enumerate':
            items = self.concrete_items(t[1], st)
            return None if items is None else [('tuple', (lift(i), x)) for i, x in enumerate(items)]
        if t[0] == 'zip':
            cols = [self.concrete_items(x, st) for x in t[1]]
            if all(c is not None for c in cols) and cols:
                return [('tuple', tuple(r)) for r in zip(*cols)]
            return None
        ok, v = const_of(t)
        if ok and isinstance(v, (str, bytes)) and len(v) <= self.MAX_UNROLL:
            return [lift(v[i:i + 1]) for i in range(len(v))]
        return None

    # ------------------------------------------------------------------ conditions
    def ev_cond(self, node, st):
        if isinstance(node, ast.BoolOp):
            cs = [self.ev_cond(v, st) for v in node.values]
            return conj(cs) if isinstance(node.op, ast.And) else disj(cs)
        if isinstance(node, ast.UnaryOp) and isinstance(node.op, ast.Not):
            return neg(self.ev_cond(node.operand, st))
        if isinstance(node, ast.Compare):
            left = self.deref(self.ev(node.left, st), st)
            cs = []
            for op, comp in zip(node.ops, node.comparators):
                right = self.deref(self.ev(comp, st), st)
                cs.append(self.compare(op, left, right))
                left = right
            return conj(cs)
        return as_cond(self.deref(self.ev(node, st), st))

    def compare(self, op, a, b):
        if isinstance(op, (ast.Is, ast.IsNot)):
            if b == NONE:
                c = is_none_cond(a)
            elif a == NONE:
                c = is_none_cond(b)
            else:
                c = ('cmp', 'is') + tuple(sorted((a, b), key=repr))
            return c if isinstance(op, ast.Is) else neg(c)
        if isinstance(op, (ast.Eq, ast.NotEq)):
            c = None
            for x, y in ((a, b), (b, a)):
                ok, v = const_of(y)
                if x[0] == 'len' and ok and v == 0:
                    c = neg(as_cond(x[1]))
            if c is None:
                c = eq_cond(a, b)
            return c if isinstance(op, ast.Eq) else neg(c)
        if isinstance(op, (ast.In, ast.NotIn)):
            c = ('in', a, b)
            items = b[1] if b[0] in ('tuple', 'list', 'set') else None
            if items is not None and len(items) == 1:
                c = eq_cond(a, items[0])
            return c if isinstance(op, ast.In) else neg(c)
        oa, va = const_of(a)
        ob, vb = const_of(b)
        if oa and ob:
            try:
                r = {ast.Lt: va < vb, ast.LtE: va <= vb, ast.Gt: va > vb, ast.GtE: va >= vb}[type(op)]
                return TRUE if r else FALSE
            except Exception:  # noqa: BLE001
                pass
        if a[0] == 'len' and ob and isinstance(vb, int):
            if (isinstance(op, ast.Gt) and vb == 0) or (isinstance(op, ast.GtE) and vb == 1):
                return as_cond(a[1])
            if (isinstance(op, ast.Lt) and vb == 1) or (isinstance(op, ast.LtE) and vb == 0):
                return neg(as_cond(a[1]))
        if isinstance(op, ast.Lt):
            return ('cmp', '<', a, b)
        if isinstance(op, ast.Gt):
            return ('cmp', '<', b, a)
        if isinstance(op, ast.LtE):
            return neg(('cmp', '<', b, a))
        if isinstance(op, ast.GtE):
            return neg(('cmp', '<', a, b))
        return ('cmp', type(op).__name__, a, b)

    # ------------------------------------------------------------------ calls
    def ev_args(self, node, st):
        args = []
        for a in node.args:
            if isinstance(a, ast.Starred):
                items = self.concrete_items(self.ev(a.value, st), st)
                if items is None:
                    return None, None
                args += items
            else:
                args.append(self.ev(a, st))
        kwargs = []
        for k in node.keywords:
            v = self.ev(k.value, st)
            if k.arg is None:
                d = self.deref(v, st)
                ok, c = const_of(d)
                if ok and c is None:
                    return None, None
                if d[0] != 'dict':
                    return None, None
                for e in d[1]:
                    okk, kn = const_of(e[1]) if e[0] == 'kv' else (False, None)
                    if e[0] != 'kv' or e[3] or not okk or not isinstance(kn, str):
                        return None, None
                    kwargs.append((kn, e[2]))
            else:
                kwargs.append((k.arg, v))
        return args, kwargs

    def ev_Call(self, node, st):
        args, kwargs = self.ev_args(node, st)
        if args is None:
            # arguments not resolvable (`*x` / `**x` of an unknown value)
            f = self.deref(self.ev(node.func, st), st) if not isinstance(node.func, ast.Attribute) else ('attr', self.deref(self.ev(node.func.value, st), st), node.func.attr)
            t = ('call', f, ('unknown-args',), (), self.fresh())
            self.trace.append((tuple(self.guards), t))
            return t
        if isinstance(node.func, ast.Attribute):
            obj = self.ev(node.func.value, st)
            return self.call_method(obj, node.func.attr, args, kwargs, st)
        return self.call_value(self.ev(node.func, st), args, kwargs, st)

    def call_value(self, f, args, kwargs, st):
        if f[0] == 'rawfunc':
            return self.call_user(f[1], f[2], None, args, kwargs, st, raw=True)
        if f[0] == 'func':
            return self.call_user(f[1], f[2], None, args, kwargs, st)
        if f[0] == 'bound':
            return self.call_user(f[1], None, ('self',), args, kwargs, st)
        if f[0] == 'lambda':
            return self.call_lambda(f, args, kwargs, st)
        if f[0] == 'partial':
            return self.call_value(f[1], list(f[2]) + list(args), list(f[3]) + list(kwargs), st)
        if f[0] == 'ext':
            return self.call_ext(f[1], args, kwargs, st)
        if f[0] == 'class':
            t = ('call', f, tuple(self.deref(a, st) for a in args), tuple((k, self.deref(v, st)) for k, v in kwargs), self.fresh())
            return t
        t = ('call', self.deref(f, st), tuple(self.deref(a, st) for a in args), tuple((k, self.deref(v, st)) for k, v in kwargs), self.fresh())
        self.trace.append((tuple(self.guards), t))
        return t

    def call_lambda(self, f, args, kwargs, st):
        node, closure = f[1], f[2]
        env = self.bind(node.args, args, kwargs, St({'__closure__': closure}, st.heap, st.selfw), None)
        if env is None:
            return self.unknown('lambda arguments')
        env['__closure__'] = closure
        return self.ev(node.body, St(env, st.heap, st.selfw))

    def bind(self, a, args, kwargs, defst, self_term):
        """parameters ← arguments; None when they do not fit"""
        env = {}
        pos = list(a.posonlyargs) + list(a.args)
        args = list(args)
        if self_term is not None:
            args = [self_term] + args
        kw = dict(kwargs)
        if len(kw) != len(kwargs):
            return None
        ndef = len(a.defaults)
        for i, p in enumerate(pos):
            if i < len(args):
                env[p.arg] = args[i]
                if p.arg in kw:
                    return None
            elif p.arg in kw and p not in a.posonlyargs:
                env[p.arg] = kw.pop(p.arg)
            else:
                di = i - (len(pos) - ndef)
                if di < 0:
                    return None
                env[p.arg] = self.ev(a.defaults[di], defst)
        extra = args[len(pos):]
        if extra:
            if a.vararg is None:
                return None
            env[a.vararg.arg] = ('tuple', tuple(extra))
        elif a.vararg is not None:
            env[a.vararg.arg] = ('tuple', ())
        for p, d in zip(a.kwonlyargs, a.kw_defaults):
            if p.arg in kw:
                env[p.arg] = kw.pop(p.arg)
            elif d is not None:
                env[p.arg] = self.ev(d, defst)
            else:
                return None
        if kw:
            if a.kwarg is None:
                return None
            env[a.kwarg.arg] = self.new_ref(defst, ('dict', tuple(('kv', lift(k), v, ()) for k, v in kw.items())))
        elif a.kwarg is not None:
            env[a.kwarg.arg] = self.new_ref(defst, ('dict', ()))
        return env

    def is_generator(self, fn):
        todo = list(fn.body)
        while todo:
            n = todo.pop()
            if isinstance(n, (ast.Yield, ast.YieldFrom)):
                return True
            if isinstance(n, (ast.FunctionDef, ast.AsyncFunctionDef, ast.Lambda, ast.ClassDef)):
                continue
            todo += list(ast.iter_child_nodes(n))
        return False

    def call_user(self, fn, closure, self_term, args, kwargs, st, raw=False):
        decos = [self.dotted_of_decorator(d) for d in fn.decorator_list]
        if any(d not in PURE_DECORATORS for d in decos) and not raw:
            # decorators defined in this module (timing, logging …) are applied symbolically: the call goes through their wrappers
            f = ('rawfunc', fn, closure)
            ok = fn not in self.stack and len(self.stack) < self.MAX_DEPTH
            for d, name in reversed(list(zip(fn.decorator_list, decos))):
                if name in PURE_DECORATORS or not ok:
                    continue
                dv = self.ev(d, St())
                if dv[0] not in ('func', 'lambda', 'partial'):
                    ok = False
                    break
                f = self.deref(self.call_value(dv, [f], [], st), st)
                if f[0] not in ('func', 'lambda', 'rawfunc'):
                    ok = False
            if ok:
                return self.call_value(f, ([self_term] if self_term is not None else []) + list(args), kwargs, st)
            t = ('call', ('func', fn, None), tuple(self.deref(a, st) for a in args), tuple((k, self.deref(v, st)) for k, v in kwargs), self.fresh())
            self.trace.append((tuple(self.guards), ('opaque-decorator', fn.name, tuple(decos))))
            return t
        if fn in self.stack or len(self.stack) >= self.MAX_DEPTH:
            return self.unknown('recursion / depth at ' + fn.name)
        if any(d in ('staticmethod', 'builtins.staticmethod') for d in decos):
            self_term = None
        env = self.bind(fn.args, args, kwargs, St({'__closure__': closure}, st.heap, st.selfw), self_term)
        if env is None:
            return self.unknown('arguments of ' + fn.name)
        env['__closure__'] = closure
        inner = St(env, st.heap, st.selfw)
        self.stack.append(fn)
        self.yields.append([])
        try:
            fall, R = self.exec_block(fn.body, inner)
        finally:
            self.stack.pop()
            ys = self.yields.pop()
        R = subst_hole(R, ('ret', NONE, fall)) if fall is not None else R
        if self.keep_raises:
            for conds, kind, val in self.leaves(R):
                if kind == 'raise':
                    self.raised.append((tuple(self.guards) + tuple(conds), val))
        fin = self.fold(R)
        if fin is None:
            # every path raises
            return ('raise',)
        val, fst = fin
        h, w = dict(fst.heap), dict(fst.selfw)
        st.heap.clear()
        st.heap.update(h)
        st.selfw.clear()
        st.selfw.update(w)
        if self.is_generator(fn):
            if any(d in ('contextlib.contextmanager', 'contextlib.asynccontextmanager') for d in decos) and len(ys) == 1:
                return ('cm', ys[0])
            return ('gen', tuple(ys), self.fresh())
        return val

    def fold(self, R):
        """tree of outcomes → (value, state) of the normal returns, merged; None when there is none"""
        if R is None or R == HOLE:
            return None
        if R[0] == 'ret':
            return (R[1], R[2])
        if R[0] in ('raise', 'break', 'continue'):
            return None
        if R[0] == 'rphi':
            a, b = self.fold(R[2]), self.fold(R[3])
            if a is None:
                return b
            if b is None:
                return a
            va, vb = self.deref(a[0], a[1]) if self._has_ref(a[0]) and a[0] != b[0] else a[0], self.deref(b[0], b[1]) if self._has_ref(b[0]) and a[0] != b[0] else b[0]
            return (mk_phi(R[1], va, vb), merge_states(R[1], a[1], b[1]))
        return None

    # ------------------------------------------------------------------ methods of values
    def call_method(self, obj, name, args, kwargs, st):
        if obj == ('self',):
            f = self.self_attr(name, st)
            return self.call_value(f, args, kwargs, st)
        if obj[0] == 'ext':
            return self.call_ext(obj[1] + '.' + name, args, kwargs, st)
        if obj[0] == 'class' and self.cls is not None and obj[1] == self.cls.name and name in self.methods:
            return self.call_user(self.methods[name], None, None, args, kwargs, st)
        if obj[0] == 'ref':
            r = self.ref_method(obj, name, args, kwargs, st)
            if r is not None:
                return r
        d = self.deref(obj, st)
        dargs = [self.deref(a, st) for a in args]
        dkw = [(k, self.deref(v, st)) for k, v in kwargs]
        r = self.value_method(d, name, dargs, dkw, st)
        if r is not None:
            return r
        if obj[0] == 'ref':
            st.heap[obj[1]] = self.unknown('mutated by .' + name)
        t = ('meth', d, name, tuple(dargs), tuple(dkw), self.fresh())
        self.trace.append((tuple(self.guards), t))
        return t

    def ref_method(self, ref, name, args, kwargs, st):
        cur = st.heap.get(ref[1])
        if cur is None:
            return None
        if cur[0] == 'dict':
            if name == 'update':
                entries = list(cur[1])
                for a in args:
                    d = self.deref(a, st)
                    if d[0] == 'dict':
                        for e in d[1]:
                            entries = self.dict_set(entries, e[1], e[2], e[3]) if e[0] == 'kv' else entries + [e]
                    else:
                        items = self.concrete_items(d, st)
                        if items is None or not all(x[0] == 'tuple' and len(x[1]) == 2 for x in items):
                            entries.append(('spread', d, ()))
                        else:
                            for x in items:
                                entries = self.dict_set(entries, x[1][0], x[1][1], ())
                for k, v in kwargs:
                    entries = self.dict_set(entries, lift(k), v, ())
                st.heap[ref[1]] = ('dict', tuple(entries))
                return NONE
            if name == 'setdefault' and len(args) == 2:
                key = self.deref(args[0], st)
                if not any(e[0] != 'kv' or e[1] == key or not const_of(e[1])[0] for e in cur[1]) and const_of(key)[0]:
                    st.heap[ref[1]] = ('dict', tuple(self.dict_set(cur[1], key, args[1], ())))
                    return args[1]
                st.heap[ref[1]] = self.unknown('setdefault')
                return self.unknown('setdefault')
            if name == 'copy' and not args:
                return self.new_ref(st, cur)
            if name in ('pop', 'popitem', 'clear', '__setitem__', '__delitem__'):
                st.heap[ref[1]] = self.unknown('dict.' + name)
                return self.unknown('dict.' + name)
        if cur[0] == 'list':
            if name == 'append' and len(args) == 1:
                st.heap[ref[1]] = ('list', cur[1] + (args[0],))
                return NONE
            if name == 'extend' and len(args) == 1:
                items = self.concrete_items(args[0], st)
                st.heap[ref[1]] = ('list', cur[1] + tuple(items)) if items is not None else self.unknown('extend')
                return NONE
            if name == 'insert' and len(args) == 2 and const_of(args[0])[0]:
                i = const_of(args[0])[1]
                l = list(cur[1])
                l.insert(i, args[1])
                st.heap[ref[1]] = ('list', tuple(l))
                return NONE
            if name in ('sort', 'reverse', 'pop', 'remove', 'clear'):
                st.heap[ref[1]] = self.unknown('list.' + name)
                return self.unknown('list.' + name)
        if cur[0] == 'hasher' and name == 'update' and len(args) == 1:
            data = self.deref(args[0], st)
            st.heap[ref[1]] = ('hasher', cur[1], S('b', toks_of(cur[2]) + toks_of(data)))
            return NONE
        if cur[0] == 'hmacobj' and name == 'update' and len(args) == 1:
            data = self.deref(args[0], st)
            st.heap[ref[1]] = ('hmacobj', cur[1], cur[2], S('b', toks_of(cur[3]) + toks_of(data)))
            return NONE
        return None

    def value_method(self, d, name, args, kwargs, st):
        kw = dict(kwargs)
        if is_S(d):
            ok, c = const_of(d)
            if name == 'join' and len(args) == 1 and not kwargs:
                items = self.concrete_items(args[0], st)
                if items is None:
                    return ('join', d, args[0])
                toks = []
                for i, it in enumerate(items):
                    if i:
                        toks += list(d[2])
                    toks += toks_of(self.deref(it, st))
                return S(d[1], toks)
            if name == 'encode' and d[1] == 's' and self.utf8_args(args, kwargs):
                return encode_term(d)
            if name == 'format' and ok and isinstance(c, str):
                return self.str_format(c, args, kw)
            if name == 'hex' and d[1] == 'b' and not args:
                return ('hex', d)
            if name == 'decode' and d[1] == 'b' and self.utf8_args(args, kwargs) and all(x[0] == 'c' and ord(x[1]) < 128 or x[0] == 't' and x[1][0] == 'enc' for x in d[2]):
                return S('s', [x if x[0] == 'c' else ('t', x[1][1]) for x in d[2]])
            return None
        if name == 'encode' and self.utf8_args(args, kwargs) and d[0] in STRINGISH + ('param', 'ctor', 'phi', 'fmt', 'attr', 'sub', 'selfattr'):
            return encode_term(d)
        if d[0] in ('dict',) or (d[0] in ('param', 'ctor', 'phi', 'sub', 'attr') and name in ('items', 'keys', 'values') and not args):
            if name in ('items', 'keys', 'values') and not args:
                return (name, d)
            if name == 'get' and args and d[0] == 'dict':
                r = self.get_item(d, args[0])
                if r[0] != 'sub':
                    return r
                if all(e[0] == 'kv' and const_of(e[1])[0] and e[1] != args[0] for e in d[1]) and const_of(args[0])[0]:
                    return args[1] if len(args) > 1 else NONE
                return None
            if name == 'copy' and not args and d[0] == 'dict':
                return self.new_ref(st, d)
        if d[0] == 'hasher':
            if name == 'hexdigest' and not args:
                return ('hex', ('hash', d[1], d[2]))
            if name == 'digest' and not args:
                return ('hash', d[1], d[2])
            if name == 'copy':
                return self.new_ref(st, d)
        if d[0] == 'hmacobj':
            if name == 'hexdigest' and not args:
                return ('hex', ('hmac', d[1], d[2], d[3]))
            if name == 'digest' and not args:
                return ('hmac', d[1], d[2], d[3])
        if d[0] in ('hash', 'hmac') and name == 'hex' and not args:
            return ('hex', d)
        if d[0] == 'now':
            if name == 'strftime' and len(args) == 1 and const_of(args[0])[0]:
                return self.strftime(d, const_of(args[0])[1])
            if name == '__format__' and len(args) == 1 and const_of(args[0])[0]:
                return self.strftime(d, const_of(args[0])[1])
            if name in ('replace', 'astimezone') and name == 'replace' and set(kw) <= {'tzinfo'}:
                return d
        if d == ('logger',) and name in LOGGER_METHODS + ('isEnabledFor', 'setLevel', 'getChild'):
            return NONE if name in LOGGER_METHODS else ('unknown', 'logger.' + name, 0)
        if d[0] == 'attr' and d[2] in ('logger', 'log', '_logger') and name in LOGGER_METHODS:
            return NONE
        return None

    def utf8_args(self, args, kwargs):
        vals = list(args) + [v for _, v in kwargs]
        if len(vals) > 2:
            return False
        for i, v in enumerate(vals):
            ok, c = const_of(v)
            if not ok or not isinstance(c, str):
                return False
            c = c.lower().replace('_', '-')
            if i == 0 and (not kwargs or kwargs[0][0] == 'encoding' or args) and c not in ('utf-8', 'utf8', 'ascii', 'us-ascii', 'strict'):
                return False
        return True

    def str_format(self, f, args, kw):
        import string
        toks, auto = [], 0
        try:
            for lit, field, spec, conv in string.Formatter().parse(f):
                toks += toks_of(lift(lit))
                if field is None:
                    continue
                if spec or conv:
                    return self.unknown('format spec')
                if field == '':
                    v = args[auto]
                    auto += 1
                elif field.isdigit():
                    v = args[int(field)]
                elif field in kw:
                    v = kw[field]
                else:
                    return self.unknown('format field')
                toks += toks_of(v)
        except (IndexError, ValueError):
            return self.unknown('format string')
        return S('s', toks)

    # ------------------------------------------------------------------ library models
    def call_ext(self, dotted, args, kwargs, st):
        dargs = [self.deref(a, st) for a in args]
        dkw = [(k, self.deref(v, st)) for k, v in kwargs]
        m = getattr(self, 'ext_' + dotted.replace('.', '_'), None)
        if m is not None:
            r = m(args, dargs, dict(dkw), st)
            if r is not None:
                return r
        if dotted == 'logging.getLogger':
            return ('logger',)
        if dotted.startswith('logging.') or dotted in ('builtins.print', 'warnings.warn'):
            return NONE
        t = ('call', dotted, tuple(dargs), tuple(dkw), self.fresh())
        self.trace.append((tuple(self.guards), t))
        return t

    def _quote(self, plus, raw, args, kw):
        if not 1 <= len(args) <= 2 or set(kw) - {'safe'}:
            return None
        safe = args[1] if len(args) == 2 else kw.get('safe', lift('' if plus else '/'))
        if len(args) == 2 and 'safe' in kw:
            return None
        ok, sv = const_of(safe)
        if not ok or not isinstance(sv, (str, bytes)):
            return None
        if isinstance(sv, str):
            sv = sv.encode('ascii', 'ignore')
        return ('quote', args[0], bytes(sorted(set(c for c in sv if c < 128))), plus)

    def ext_urllib_parse_quote(self, raw, args, kw, st):
        return self._quote(False, raw, args, kw)

    def ext_urllib_parse_quote_plus(self, raw, args, kw, st):
        return self._quote(True, raw, args, kw)

    def ext_urllib_parse_urlencode(self, raw, args, kw, st):
        if len(args) != 1 or set(kw) - {'quote_via', 'safe', 'doseq'}:
            return None
        via = kw.get('quote_via', ('ext', 'urllib.parse.quote_plus'))
        if via not in (('ext', 'urllib.parse.quote_plus'), ('ext', 'urllib.parse.quote')):
            return None
        ok, sv = const_of(kw.get('safe', lift('')))
        if not ok or not isinstance(sv, (str, bytes)):
            return None
        if 'doseq' in kw and kw['doseq'] != FALSE:
            return None
        if isinstance(sv, str):
            sv = sv.encode('ascii', 'ignore')
        seq = args[0]
        if seq[0] == 'dictof':
            seq = seq[1]
        elif seq[0] in ('dict', 'param', 'ctor') or (seq[0] == 'phi'):
            seq = ('items', seq)
        return ('urlencode', seq, via[1].split('.')[-1], bytes(sorted(set(c for c in sv if c < 128))))

    def ext_builtins_sorted(self, raw, args, kw, st):
        if len(args) != 1 or set(kw) - {'key'}:
            return None
        if 'key' in kw:
            # sorting (name, value) pairs of a dict by the name is sorting the pairs (names are unique)
            k = kw['key']
            by_first = (k[0] == 'call' and k[1] == 'operator.itemgetter' and k[2] == (lift(0),)) or \
                (k[0] == 'lambda' and len(k[1].args.args) == 1 and isinstance(k[1].body, ast.Subscript) and isinstance(k[1].body.value, ast.Name)
                 and k[1].body.value.id == k[1].args.args[0].arg and isinstance(k[1].body.slice, ast.Constant) and k[1].body.slice.value == 0)
            if not (by_first and args[0][0] == 'items'):
                return None
        if args[0][0] == 'sorted':
            return args[0]
        return ('sorted', args[0])

    def ext_operator_itemgetter(self, raw, args, kw, st):
        return ('call', 'operator.itemgetter', tuple(args), (), 0) if not kw else None

    def ext_builtins_dict(self, raw, args, kw, st):
        if not args:
            return self.new_ref(st, ('dict', tuple(('kv', lift(k), v, ()) for k, v in kw.items())))
        if len(args) == 1 and not kw:
            a = args[0]
            if a[0] == 'dict':
                return self.new_ref(st, a)
            if a[0] in ('sorted', 'items'):
                return ('dictof', a)
            items = self.concrete_items(a, st)
            if items is not None and all(x[0] == 'tuple' and len(x[1]) == 2 for x in items):
                entries = []
                for x in items:
                    entries = self.dict_set(entries, x[1][0], x[1][1], ())
                return self.new_ref(st, ('dict', tuple(entries)))
        return None

    def ext_builtins_list(self, raw, args, kw, st):
        if not args and not kw:
            return self.new_ref(st, ('list', ()))
        if len(args) == 1 and not kw:
            items = self.concrete_items(args[0], st)
            if items is not None:
                return self.new_ref(st, ('list', tuple(items)))
            if args[0][0] in ('sorted', 'items', 'keys', 'values'):
                return args[0]
        return None

    def ext_builtins_tuple(self, raw, args, kw, st):
        if len(args) == 1 and not kw:
            items = self.concrete_items(args[0], st)
            if items is not None:
                return ('tuple', tuple(items))
            if args[0][0] in ('sorted', 'items', 'keys', 'values'):
                return args[0]
        return ('tuple', ()) if not args and not kw else None

    def ext_builtins_str(self, raw, args, kw, st):
        if len(args) == 1 and not kw:
            a = args[0]
            if is_S(a, 's'):
                return a
            ok, c = const_of(a)
            if ok and isinstance(c, (int, bool, type(None))):
                return lift(str(c))
            if a[0] in STRINGISH:
                return S('s', [('t', a)])
            return ('tostr', a)
        if len(args) in (2, 3) and is_S(args[0], 'b') and self.utf8_args(args[1:], []):
            return self.value_method(args[0], 'decode', [], [], st)
        return lift('') if not args and not kw else None

    def ext_builtins_bytes(self, raw, args, kw, st):
        if len(args) >= 2 and self.utf8_args(args[1:], list(kw.items())):
            return encode_term(args[0])
        if len(args) == 1 and is_S(args[0], 'b'):
            return args[0]
        return lift(b'') if not args and not kw else None

    def ext_builtins_len(self, raw, args, kw, st):
        if len(args) == 1 and not kw:
            ok, c = const_of(args[0])
            if ok and isinstance(c, (str, bytes, tuple, list)):
                return lift(len(c))
            return ('len', args[0])
        return None

    def ext_builtins_bool(self, raw, args, kw, st):
        return as_cond(args[0]) if len(args) == 1 and not kw else None

    def ext_builtins_isinstance(self, raw, args, kw, st):
        return ('isinst', args[0], args[1]) if len(args) == 2 else None

    def ext_builtins_format(self, raw, args, kw, st):
        if len(args) == 2 and const_of(args[1])[0]:
            return self.format_value(args[0], -1, const_of(args[1])[1])
        if len(args) == 1:
            return self.format_value(args[0], -1, None)
        return None

    def ext_builtins_enumerate(self, raw, args, kw, st):
        return ('enumerate', args[0]) if len(args) == 1 and not kw else None

    def ext_builtins_zip(self, raw, args, kw, st):
        return ('zip', tuple(args)) if not kw else None

    def ext_builtins_map(self, raw, args, kw, st):
        if len(args) == 2 and not kw:
            items = self.concrete_items(args[1], st)
            if items is not None and len(items) <= self.MAX_UNROLL:
                return ('tuple', tuple(self.deref(self.call_value(raw[0], [x], [], st), st) for x in items))
        return None

    def ext_builtins_iter(self, raw, args, kw, st):
        if len(args) == 1:
            return args[0]
        return None

    def ext_functools_reduce(self, raw, args, kw, st):
        if kw or len(args) not in (2, 3):
            return None
        items = self.concrete_items(args[1], st)
        if items is None or len(items) > self.MAX_UNROLL or (len(args) == 2 and not items):
            return None
        acc = args[2] if len(args) == 3 else items.pop(0)
        for x in items:
            acc = self.deref(self.call_value(raw[0], [acc, x], [], st), st)
        return acc

    def ext_functools_partial(self, raw, args, kw, st):
        if not args:
            return None
        return ('partial', args[0], tuple(args[1:]), tuple(kw.items()))

    def _alg(self, t):
        if t is None:
            return None
        if t[0] == 'ext' and t[1].startswith('hashlib.'):
            return t[1].split('.', 1)[1]
        ok, c = const_of(t)
        if ok and isinstance(c, str):
            return c.lower().replace('-', '')
        return None

    def _hasher(self, alg, args, kw, st):
        if len(args) > 1 or set(kw) - {'usedforsecurity'}:
            return None
        data = args[0] if args else lift(b'')
        if not (is_S(data, 'b') or data[0] in ('param', 'ctor', 'enc', 'phi', 'attr', 'sub', 'unknown', 'meth', 'call', 'hash', 'hmac')):
            return None
        return self.new_ref(st, ('hasher', alg, data if is_S(data) else S('b', [('t', data)])))

    def ext_hashlib_sha256(self, raw, args, kw, st):
        return self._hasher('sha256', args, kw, st)

    def ext_hashlib_sha1(self, raw, args, kw, st):
        return self._hasher('sha1', args, kw, st)

    def ext_hashlib_md5(self, raw, args, kw, st):
        return self._hasher('md5', args, kw, st)

    def ext_hashlib_new(self, raw, args, kw, st):
        if not args:
            return None
        alg = self._alg(args[0])
        return self._hasher(alg, args[1:], kw, st) if alg else None

    def _hmac(self, args, kw, st):
        names = ['key', 'msg', 'digestmod']
        vals = dict(zip(names, args))
        for k, v in kw.items():
            if k in vals or k not in names:
                return None
            vals[k] = v
        alg = self._alg(vals.get('digestmod'))
        if alg is None or 'key' not in vals:
            return None
        msg = vals.get('msg', lift(b''))
        if msg == NONE:
            msg = lift(b'')
        return alg, vals['key'], msg

    def ext_hmac_new(self, raw, args, kw, st):
        r = self._hmac(args, kw, st)
        if r is None:
            return None
        return self.new_ref(st, ('hmacobj',) + r)

    ext_hmac_HMAC = ext_hmac_new

    def ext_hmac_digest(self, raw, args, kw, st):
        names = ['key', 'msg', 'digest']
        vals = dict(zip(names, args))
        for k, v in kw.items():
            if k in vals or k not in names:
                return None
            vals[k] = v
        alg = self._alg(vals.get('digest'))
        if alg is None or len(vals) != 3:
            return None
        return ('hmac', alg, vals['key'], vals['msg'])

    def ext_binascii_hexlify(self, raw, args, kw, st):
        if len(args) == 1 and not kw:
            return encode_term(S('s', [('t', ('hex', args[0]))]))
        return None

    def _now(self, zone):
        return ('now', self.fresh(), zone)

    def ext_datetime_datetime_utcnow(self, raw, args, kw, st):
        return self._now('utc') if not args and not kw else None

    def ext_datetime_datetime_now(self, raw, args, kw, st):
        tz = args[0] if len(args) == 1 and not kw else kw.get('tz') if not args and set(kw) == {'tz'} else None
        if tz in (('ext', 'datetime.timezone.utc'), ('ext', 'datetime.UTC')):
            return self._now('utc')
        if not args and not kw:
            return self._now('local')
        return None

    def ext_time_gmtime(self, raw, args, kw, st):
        return self._now('utc') if not args and not kw else None

    def ext_time_strftime(self, raw, args, kw, st):
        if len(args) == 2 and not kw and const_of(args[0])[0] and args[1][0] == 'now':
            return self.strftime(args[1], const_of(args[0])[1])
        return None

    def ext_types_SimpleNamespace(self, raw, args, kw, st):
        return ('ns', tuple(kw.items())) if not args else None

    # ------------------------------------------------------------------ statements
    def assign(self, target, v, st):
        if isinstance(target, ast.Name):
            st.env[target.id] = v
        elif isinstance(target, (ast.Tuple, ast.List)):
            items = self.concrete_items(v, st) if v[0] in ('tuple', 'list', 'ref') else None
            if items is not None and len(items) == len(target.elts) and not any(isinstance(e, ast.Starred) for e in target.elts):
                for e, x in zip(target.elts, items):
                    self.assign(e, x, st)
            else:
                d = self.deref(v, st)
                for i, e in enumerate(target.elts):
                    self.assign(e.value if isinstance(e, ast.Starred) else e, ('item', d, i), st)
        elif isinstance(target, ast.Attribute):
            obj = self.ev(target.value, st)
            if obj == ('self',):
                st.selfw[target.attr] = v
            elif obj[0] == 'ref':
                st.heap[obj[1]] = self.unknown('attribute store')
            else:
                self.trace.append((tuple(self.guards), ('mutated', self.deref(obj, st))))
        elif isinstance(target, ast.Subscript):
            holder = target.value
            obj = self.ev(holder, st)
            key = self.deref(self.ev(target.slice, st), st) if not isinstance(target.slice, ast.Slice) else self.unknown('slice store')
            if obj[0] == 'ref' and st.heap.get(obj[1], ('?',))[0] == 'dict':
                st.heap[obj[1]] = ('dict', tuple(self.dict_set(st.heap[obj[1]][1], key, v, ())))
            elif obj[0] == 'ref':
                st.heap[obj[1]] = self.unknown('item store')
            else:
                d = self.deref(obj, st)
                if d[0] not in ('dict', 'phi', 'param', 'k'):
                    self.trace.append((tuple(self.guards), ('mutated', d)))
                base = self.spread_entries(d, ())
                new = self.new_ref(st, ('dict', tuple(self.dict_set(base, key, v, ()))))
                # the holder now denotes the updated mapping (aliases of a non-container value are not tracked)
                if isinstance(holder, ast.Name):
                    st.env[holder.id] = new
                elif isinstance(holder, ast.Attribute) and self.ev(holder.value, st) == ('self',):
                    st.selfw[holder.attr] = new

    def assigned_names(self, stmts):
        names = set()
        for s in stmts:
            for n in ast.walk(s):
                if isinstance(n, ast.Name) and isinstance(n.ctx, (ast.Store, ast.Del)):
                    names.add(n.id)
        return names

    def mutated_names(self, stmts):
        names = set()
        for s in stmts:
            for n in ast.walk(s):
                if isinstance(n, ast.Call) and isinstance(n.func, ast.Attribute) and isinstance(n.func.value, ast.Name):
                    names.add(n.func.value.id)
                if isinstance(n, (ast.Subscript, ast.Attribute)) and isinstance(n.ctx, (ast.Store, ast.Del)) and isinstance(n.value, ast.Name):
                    names.add(n.value.id)
                if isinstance(n, ast.Call):
                    for a in list(n.args) + [k.value for k in n.keywords]:
                        if isinstance(a, ast.Name):
                            names.add(a.id)
        return names

    def havoc(self, stmts, st, why):
        for nm in self.assigned_names(stmts):
            st.env[nm] = ('unknown', why + ':' + nm, self.fresh())
        for nm in self.mutated_names(stmts):
            v = st.env.get(nm)
            if v is not None and v[0] == 'ref':
                st.heap[v[1]] = ('unknown', why + ':' + nm, self.fresh())
        for n in (x for s in stmts for x in ast.walk(s)):
            if isinstance(n, ast.Attribute) and isinstance(n.ctx, (ast.Store, ast.Del)):
                try:
                    if self.ev(n.value, st) == ('self',):
                        st.selfw[n.attr] = ('unknown', why + ':self.' + n.attr, self.fresh())
                except Exception:  # noqa: BLE001
                    pass

    def exec_block(self, stmts, st):
        """→ (state when control falls through | None, tree of the returns met on the way | None)"""
        depth = len(self.guards)
        try:
            return self._exec_block(stmts, st)
        finally:
            del self.guards[depth:]

    def _exec_block(self, stmts, st):
        R = None
        for s in stmts:
            if st is None:
                break
            m = getattr(self, 'st_' + type(s).__name__, None)
            if m is None:
                self.havoc([s], st, 'statement ' + type(s).__name__)
                continue
            st, r = m(s, st)
            if r is not None:
                R = subst_hole(R, r) if R is not None else r
        return st, R

    def st_Expr(self, s, st):
        if isinstance(s.value, ast.Constant):
            return st, None
        if isinstance(s.value, (ast.Yield, ast.YieldFrom)):
            self.st_yield(s.value, st)
            return st, None
        self.ev(s.value, st)
        return st, None

    def st_yield(self, node, st):
        v = self.deref(self.ev(node.value, st), st) if node.value is not None else NONE
        if self.yields:
            self.yields[-1].append(v)
        return self.unknown('sent value')

    def ev_Yield(self, node, st):
        return self.st_yield(node, st)

    ev_YieldFrom = ev_Yield

    def st_Assign(self, s, st):
        v = self.ev(s.value, st)
        for t in s.targets:
            self.assign(t, v, st)
        return st, None

    def st_AnnAssign(self, s, st):
        if s.value is not None:
            self.assign(s.target, self.ev(s.value, st), st)
        return st, None

    def st_AugAssign(self, s, st):
        load = ast.copy_location(ast.BinOp(left=self._as_load(s.target), op=s.op, right=s.value), s)
        cur = self.lookup(s.target.id, st) if isinstance(s.target, ast.Name) else None
        if cur is not None and cur[0] == 'ref' and st.heap.get(cur[1], ('?',))[0] == 'list' and isinstance(s.op, ast.Add):
            items = self.concrete_items(self.ev(s.value, st), st)
            st.heap[cur[1]] = ('list', st.heap[cur[1]][1] + tuple(items)) if items is not None else self.unknown('list +=')
            return st, None
        self.assign(s.target, self.ev(load, st), st)
        return st, None

    def _as_load(self, t):
        t2 = ast.parse(ast.unparse(t), mode='eval').body
        return t2

    def st_Pass(self, s, st):
        return st, None

    st_Import = st_ImportFrom = st_Global = st_Nonlocal = st_Assert = st_Pass

    def st_Delete(self, s, st):
        for t in s.targets:
            if isinstance(t, ast.Name):
                st.env.pop(t.id, None)
            elif isinstance(t, ast.Attribute) and self.ev(t.value, st) == ('self',):
                st.selfw[t.attr] = ('unknown', 'deleted', self.fresh())
            elif isinstance(t, ast.Subscript):
                obj = self.ev(t.value, st)
                if obj[0] == 'ref':
                    st.heap[obj[1]] = self.unknown('del item')
        return st, None

    def st_FunctionDef(self, s, st):
        st.env[s.name] = ('func', s, st.env)
        return st, None

    st_AsyncFunctionDef = st_FunctionDef

    def st_Return(self, s, st):
        v = self.ev(s.value, st) if s.value is not None else NONE
        return None, ('ret', v, st)

    def st_Raise(self, s, st):
        exc = self.deref(self.ev(s.exc, st), st) if s.exc is not None else None
        return None, ('raise', exc)

    def st_Break(self, s, st):
        return None, ('break',)

    def st_Continue(self, s, st):
        return None, ('continue',)

    def st_If(self, s, st):
        c = self.ev_cond(s.test, st)
        if c == TRUE:
            return self.exec_block(s.body, st)
        if c == FALSE:
            return self.exec_block(s.orelse, st)
        sa, sb = st.copy(), st
        self.guards.append(c)
        fa, ra = self.exec_block(s.body, sa)
        self.guards[-1] = neg(c)
        fb, rb = self.exec_block(s.orelse, sb)
        self.guards.pop()
        out = merge_states(c, fa, fb)
        # what follows an `if` one branch of which does not come back (return / raise / …) runs under the other branch's condition
        if fa is None and fb is not None:
            self.guards.append(neg(c))
        elif fb is None and fa is not None:
            self.guards.append(c)
        if ra is None and rb is None:
            return out, None
        R = ('rphi', c, ra if ra is not None else HOLE, rb if rb is not None else HOLE)
        if not self.keep_raises:
            if fa is None and ra is not None and self._only(ra, 'raise') and rb is None:
                return out, None                     # `if …: raise` — the normal path goes on
            if fb is None and rb is not None and self._only(rb, 'raise') and ra is None:
                return out, None
        return out, R

    def _only(self, R, kind):
        if R is None or R == HOLE:
            return False
        if R[0] == 'rphi':
            return self._only(R[2], kind) and self._only(R[3], kind)
        return R[0] == kind

    def _has_leaf(self, R, kinds):
        if R is None or R == HOLE:
            return False
        if R[0] == 'rphi':
            return self._has_leaf(R[2], kinds) or self._has_leaf(R[3], kinds)
        return R[0] in kinds

    def _strip(self, R, kinds):
        """remove `break` / `continue` leaves (they become fall-through)"""
        if R is None:
            return None
        if R == HOLE:
            return HOLE
        if R[0] == 'rphi':
            a, b = self._strip(R[2], kinds), self._strip(R[3], kinds)
            if a in (None, HOLE) and b in (None, HOLE):
                return None
            return ('rphi', R[1], a if a is not None else HOLE, b if b is not None else HOLE)
        return None if R[0] in kinds else R

    def loop_flow_free(self, stmts):
        todo = list(stmts)
        while todo:
            n = todo.pop()
            if isinstance(n, (ast.Break, ast.Continue, ast.Return, ast.Yield, ast.YieldFrom)):
                return False
            if isinstance(n, (ast.FunctionDef, ast.AsyncFunctionDef, ast.Lambda, ast.ClassDef)):
                continue
            todo += list(ast.iter_child_nodes(n))
        return True

    def st_For(self, s, st):
        it = self.deref(self.ev(s.iter, st), st)
        items = self.concrete_items(it, st) if isinstance(s, ast.For) else None
        if items is not None and len(items) <= self.MAX_UNROLL and self.loop_flow_free(s.body) and not s.orelse:
            for x in items:
                self.assign(s.target, x, st)
                st, r = self.exec_block(s.body, st)
                if st is None:
                    return None, r
            return st, None
        if isinstance(s, ast.For) and self.read_loop(s, st):
            return st, None
        return self.loop_havoc(s, st, [s.target])

    st_AsyncFor = st_For

    # ---- "read until nothing comes back" loops, in any spelling, are summarised: a hash object updated with every chunk has
    #      been updated with everything the reads returned
    def read_loop(self, s, st):
        var = read = body = None
        empty = (lift(b''), lift(''))
        if isinstance(s, ast.For):
            if not (isinstance(s.target, ast.Name) and isinstance(s.iter, ast.Call) and len(s.iter.args) == 2 and not s.iter.keywords and not s.orelse):
                return False
            f = self.ev(s.iter.func, st)
            if f != ('ext', 'builtins.iter'):
                return False
            if self.deref(self.ev(s.iter.args[1], st), st) not in empty:
                return False
            mark = len(self.trace)
            read = self.deref(self.call_value(self.ev(s.iter.args[0], st), [], [], st), st)
            var, body = s.target.id, list(s.body)
        else:
            test, stmts = s.test, list(s.body)
            if s.orelse:
                return False
            mark = len(self.trace)
            if isinstance(test, ast.Constant) and test.value is True and len(stmts) >= 2 and isinstance(stmts[0], ast.Assign) \
                    and len(stmts[0].targets) == 1 and isinstance(stmts[0].targets[0], ast.Name) and isinstance(stmts[1], ast.If):
                var = stmts[0].targets[0].id
                read = self.deref(self.ev(stmts[0].value, st), st)
                brk = stmts[1]
                probe = St(dict(st.env), st.heap, st.selfw)
                probe.env[var] = ('chunk', 0)
                c = self.ev_cond(brk.test, probe)
                only_break = lambda b: len(b) == 1 and isinstance(b[0], ast.Break)  # noqa: E731
                if only_break(brk.body) and c in (neg(('truthy', ('chunk', 0))), ('eq',) + tuple(sorted((('chunk', 0), lift(b'')), key=repr))):
                    body = list(brk.orelse) + stmts[2:]
                elif only_break(brk.orelse) and not stmts[2:] and c in (('truthy', ('chunk', 0)), neg(('eq',) + tuple(sorted((('chunk', 0), lift(b'')), key=repr)))):
                    body = list(brk.body)
                else:
                    return False
            else:
                ne = [n for n in ast.walk(test) if isinstance(n, ast.NamedExpr)]
                if len(ne) != 1 or not isinstance(ne[0].target, ast.Name):
                    return False
                var = ne[0].target.id
                read = self.deref(self.ev(ne[0].value, st), st)
                probe = St(dict(st.env), st.heap, st.selfw)
                holder = ast.parse(ast.unparse(test), mode='eval').body
                for n in ast.walk(holder):
                    for fld, val in ast.iter_fields(n):
                        if isinstance(val, ast.NamedExpr):
                            setattr(n, fld, ast.Name(id='__chunk__', ctx=ast.Load()))
                        elif isinstance(val, list):
                            for i, x in enumerate(val):
                                if isinstance(x, ast.NamedExpr):
                                    val[i] = ast.Name(id='__chunk__', ctx=ast.Load())
                if isinstance(holder, ast.NamedExpr):
                    holder = ast.Name(id='__chunk__', ctx=ast.Load())
                probe.env['__chunk__'] = ('chunk', 0)
                c = self.ev_cond(holder, probe)
                if c not in (('truthy', ('chunk', 0)), neg(('eq',) + tuple(sorted((('chunk', 0), lift(b'')), key=repr)))):
                    return False
                body = stmts
        if read is None or read[0] != 'meth' or read[2] != 'read' or read[4] or len(read[3]) > 1 or not self.loop_flow_free(body):
            del self.trace[mark:]
            return False
        chunk = ('chunk', self.fresh())
        before = dict(st.heap)
        inner = st.copy()
        inner.env[var] = chunk
        self.guards.append(('loop', chunk[1]))
        fall, r = self.exec_block(body, inner)
        self.guards.pop()
        if fall is None or r is not None:
            del self.trace[mark:]
            return False
        everything = ('readall', read[1], read[3])
        for nm in self.assigned_names(body) | {var}:
            st.env[nm] = ('unknown', 'loop:' + nm, self.fresh())
        for k, v in fall.heap.items():
            old = before.get(k)
            if old == v:
                continue
            if old is not None and old[0] == 'hasher' and v[0] == 'hasher' and is_S(v[2]) and v[2][2][:len(old[2][2])] == old[2][2] \
                    and v[2][2][len(old[2][2]):] == (('t', chunk),):
                st.heap[k] = ('hasher', v[1], S('b', old[2][2] + (('t', everything),)))
            elif old is None:
                st.heap[k] = v
            else:
                st.heap[k] = ('unknown', 'changed in a read loop', self.fresh())
        for k, v in fall.selfw.items():
            if st.selfw.get(k) != v:
                st.selfw[k] = ('unknown', 'loop:self.' + k, self.fresh())
        return True

    def st_While(self, s, st):
        c = self.ev_cond(s.test, st)
        if c == FALSE:
            return self.exec_block(s.orelse, st)
        if self.read_loop(s, st):
            return st, None
        return self.loop_havoc(s, st, [])

    def loop_havoc(self, s, st, targets):
        body = list(s.body) + list(s.orelse)
        why = 'loop'
        pseudo = [ast.Assign(targets=[t], value=ast.Constant(None)) for t in targets]
        for p in pseudo:
            ast.fix_missing_locations(p)
        self.havoc(body + pseudo, st, why)
        if isinstance(s, ast.While):
            for n in ast.walk(s.test):
                if isinstance(n, ast.NamedExpr):
                    self.havoc([ast.fix_missing_locations(ast.Assign(targets=[ast.Name(id=n.target.id, ctx=ast.Store())], value=ast.Constant(None)))], st, why)
        lc = ('loop', self.fresh())
        self.guards.append(lc)
        inner = st.copy()
        if isinstance(s, ast.While):
            self.ev_cond(s.test, inner)
        fall, r = self.exec_block(body, inner)
        self.guards.pop()
        self.havoc(body + pseudo, st, why)
        if fall is not None:
            # containers created before the loop and touched in it are unknown afterwards; keep what the body allocated
            for k, v in fall.heap.items():
                if k not in st.heap:
                    st.heap[k] = v
        r = self._strip(r, ('break', 'continue', 'raise'))
        if r is None:
            return st, None
        return st, ('rphi', lc, r, HOLE)

    def st_With(self, s, st):
        for item in s.items:
            v = self.ev(item.context_expr, st)
            if item.optional_vars is not None:
                self.assign(item.optional_vars, v[1] if v[0] == 'cm' else ('enter', self.deref(v, st)), st)
        return self.exec_block(s.body, st)

    st_AsyncWith = st_With

    def st_Try(self, s, st):
        pre = st.copy()
        fall, R = self.exec_block(s.body, st)
        if fall is not None and s.orelse:
            fall, r2 = self.exec_block(s.orelse, fall)
            if r2 is not None:
                R = subst_hole(R, r2) if R is not None else r2
        for h in s.handlers:
            hs = pre.copy()
            # what the body assigned before the exception is not known
            self.havoc(s.body, hs, 'try body')
            htype = self.deref(self.ev(h.type, hs), hs) if h.type is not None else NONE
            ec = ('exc', self.fresh(), htype)
            if h.name:
                hs.env[h.name] = ('exception', ec[1], htype)
            self.guards.append(ec)
            saved_trace = self.trace
            self.trace = [] if not self.keep_raises else saved_trace
            try:
                hf, hr = self.exec_block(h.body, hs)
            finally:
                self.trace = saved_trace
                self.guards.pop()
            if not self.keep_raises:
                hr = self._strip(hr, ('raise',)) if hr is not None else None
            if hf is None and hr is None:
                continue
            if hf is not None:
                fall = merge_states(ec, hf, fall)
            if hr is not None or R is not None:
                R = ('rphi', ec, hr if hr is not None else HOLE, R if R is not None else HOLE)
        if s.finalbody:
            if fall is not None:
                fall, r3 = self.exec_block(s.finalbody, fall)
                if r3 is not None:
                    R = subst_hole(R, r3) if R is not None else r3
            else:
                tmp = pre.copy()
                self.havoc(s.body, tmp, 'try body')
                self.exec_block(s.finalbody, tmp)
        return fall, R

    st_TryStar = st_Try

    def leaves(self, R, conds=()):
        """outcome tree → [(conditions on the path, 'ret' | 'raise', value)]"""
        if R is None or R == HOLE:
            return []
        if R[0] == 'rphi':
            return self.leaves(R[2], conds + (R[1],)) + self.leaves(R[3], conds + (neg(R[1]),))
        if R[0] == 'ret':
            return [(conds, 'ret', self.deref(R[1], R[2]))]
        if R[0] == 'raise':
            return [(conds, 'raise', R[1] if len(R) > 1 else None)]
        return []

    def outcomes(self, f, args):
        """all ways a call of the function value `f` can end → ([(conditions, 'ret' | 'raise', value)], trace of external calls)"""
        if f[0] == 'lambda':
            self.trace, self.guards = [], []
            return [((), 'ret', self.deref(self.call_lambda(f, args, [], St()), St()))], self.trace
        if f[0] not in ('func', 'bound'):
            raise Unrec('not a function defined in this module')
        fn = f[1]
        st = St()
        env = self.bind(fn.args, args, [], St({'__closure__': f[2] if f[0] == 'func' else None}, st.heap, st.selfw), ('self',) if f[0] == 'bound' else None)
        if env is None:
            raise Unrec('arguments do not fit ' + fn.name)
        env['__closure__'] = f[2] if f[0] == 'func' else None
        st.env = env
        saved = self.keep_raises
        self.keep_raises, self.raised, self.trace, self.guards = True, [], [], []
        self.stack = [fn]
        self.yields = [[]]
        try:
            fall, R = self.exec_block(fn.body, st)
        finally:
            self.keep_raises = saved
            self.stack = []
        R = subst_hole(R, ('ret', NONE, fall)) if fall is not None else R
        out = self.leaves(R) + [(c, 'raise', e) for c, e in self.raised]
        return out, self.trace

    # ------------------------------------------------------------------ entry point
    def run_method(self, name, param_term=lambda n: ('param', n)):
        """evaluate a method of the class on symbolic arguments → (return value, final state, trace of external calls)"""
        fn = self.methods[name]
        st = St()
        a = fn.args
        params = a.posonlyargs + a.args + a.kwonlyargs
        defaults = {}
        pos = a.posonlyargs + a.args
        for p, d in zip(pos[len(pos) - len(a.defaults):], a.defaults):
            defaults[p.arg] = d
        for p, d in zip(a.kwonlyargs, a.kw_defaults):
            if d is not None:
                defaults[p.arg] = d
        for i, p in enumerate(params):
            st.env[p.arg] = ('self',) if i == 0 else param_term(p.arg)
        if a.vararg:
            st.env[a.vararg.arg] = ('unknown', '*args', 0)
        if a.kwarg:
            st.env[a.kwarg.arg] = ('unknown', '**kwargs', 0)
        self.trace, self.guards = [], []
        self.stack = [fn]
        self.yields = [[]]
        try:
            fall, R = self.exec_block(fn.body, st)
        finally:
            self.stack = []
        R = subst_hole(R, ('ret', NONE, fall)) if fall is not None else R
        fin = self.fold(R)
        trace = self.trace
        return (fin[0] if fin else None), (fin[1] if fin else None), trace


# =====================================================================================================================
#  Part B — what reaches the HTTP client: requests as values
# =====================================================================================================================
NL = ('c', '\n')
CLIENT_CTORS = ('httpx.AsyncClient', 'httpx.Client')
HTTP_VERBS = ('get', 'put', 'post', 'head', 'delete', 'patch', 'options')
CLIENT_NEUTRAL_OPTIONS = ('timeout', 'event_hooks', 'limits', 'http1', 'http2', 'verify', 'cert', 'trust_env', 'max_redirects', 'follow_redirects',
                          'transport', 'mounts', 'proxy', 'proxies', 'default_encoding')
BACKEND_API = ('exists', 'upload', 'upload_stream', 'download', 'download_stream', 'list_files', 'delete')


def is_client(t):
    return isinstance(t, tuple) and len(t) > 1 and t[0] == 'call' and t[1] in CLIENT_CTORS


def ctoks(s):
    return [('c', ch) for ch in s]


def const_str(toks):
    if all(x[0] == 'c' for x in toks):
        return ''.join(x[1] for x in toks)
    return None


def split_toks(toks, sep):
    out, cur = [], []
    for x in toks:
        if x == sep:
            out.append(cur)
            cur = []
        else:
            cur.append(x)
    out.append(cur)
    return out


def join_toks(parts, sep):
    out = []
    for i, p in enumerate(parts):
        if i:
            out += list(sep)
        out += list(p)
    return out


def dec_toks(t):
    """bytes term that is the UTF-8 encoding of a string → the string's tokens"""
    if not is_S(t, 'b'):
        if isinstance(t, tuple) and t and t[0] == 'enc':
            return toks_of(t[1])
        raise Unrec('not an encoded string')
    out = []
    for x in t[2]:
        if x[0] == 'c':
            if ord(x[1]) >= 128:
                raise Unrec('non-ASCII constant')
            out.append(x)
        elif x[1][0] == 'enc':
            out += toks_of(x[1][1])
        else:
            raise Unrec('bytes atom inside an encoded string')
    return out


def ts_now(toks, fmt):
    """tokens == strftime(fmt) of ONE clock reading → that reading"""
    now = None
    i = 0
    for x in toks:
        if i >= len(fmt):
            return None
        if fmt[i] == '%':
            if x[0] != 't' or x[1][0] != 'tf' or x[1][2] != fmt[i + 1]:
                return None
            if now is not None and x[1][1] != now:
                return None
            now = x[1][1]
            i += 2
        else:
            if x != ('c', fmt[i]):
                return None
            i += 1
    return now if i == len(fmt) else None


AMZ_TS = '%Y%m%dT%H%M%SZ'
AMZ_DATE = '%Y%m%d'


class Req:
    """one request handed to the HTTP client"""

    def __init__(self, where, method, url, headers, kwargs, send_kwargs, guards):
        self.where, self.method, self.url, self.headers, self.kwargs, self.send_kwargs, self.guards = where, method, url, headers, kwargs, send_kwargs, guards


def requests_of(sym, name):
    """evaluate the public method `name` on symbolic arguments → the requests it hands to the HTTP client (in order)"""
    val, st, trace = sym.run_method(name)
    reqs, built = [], []
    def base_of(x):
        while isinstance(x, tuple) and x and x[0] in ('attr', 'sub'):
            x = x[1]
        return x
    for g, t in trace:
        if t[0] == 'mutated' or (t[0] == 'meth' and not is_client(t[1])):
            # a request object that is changed (or handed its own methods) between build_request and send is not what was signed
            if any(b[0] == base_of(t[1]) for b in built):
                raise Unrec(f'{name}: the request is modified after it was built')
            continue
        if t[0] == 'meth' and is_client(t[1]):
            extra = sorted(k for k, _ in t[1][3] if k not in CLIENT_NEUTRAL_OPTIONS)
            if extra:
                raise Unrec(f'{name}: the HTTP client is constructed with options that change what is sent: {extra}')
        if t[0] == 'opaque-decorator':
            raise Unrec(f'{name}: call through a decorator that is not understood: {t[1]} {t[2]}')
        if t[0] == 'meth' and is_client(t[1]):
            m, args, kw = t[2], list(t[3]), dict(t[4])
            if m == 'build_request':
                built.append((t, args, kw))
            elif m == 'send':
                hit = [b for b in built if args and b[0] == args[0]]
                if not hit:
                    raise Unrec(f'{name}: send() of something that is not a request built here')
                _, a, k = hit[-1]
                reqs.append(_mk_req(name, a, k, dict(kw, **{'#rest': tuple(args[1:])}) if len(args) > 1 else kw, g))
            elif m in ('request', 'stream'):
                reqs.append(_mk_req(name, args, kw, {}, g))
            elif m in HTTP_VERBS:
                reqs.append(_mk_req(name, [lift(m.upper())] + args, kw, {}, g))
            elif m in ('aclose', 'close', '__aenter__', '__aexit__'):
                pass
            else:
                raise Unrec(f'{name}: use of the HTTP client that is not understood: .{m}()')
        elif t[0] == 'call' and t[2] == ('unknown-args',):
            f = t[1]
            if isinstance(f, tuple) and f[0] == 'attr' and is_client(f[1]):
                raise Unrec(f'{name}: arguments of {f[2]}() cannot be resolved')
        elif t[0] == 'call' and isinstance(t[1], str) and t[1].startswith('httpx.') and t[1].split('.')[-1] in HTTP_VERBS + ('request', 'stream'):
            raise Unrec(f'{name}: request outside the client object: {t[1]}')
    return reqs


def _mk_req(where, args, kw, send_kw, guards):
    kw = dict(kw)
    names = ['method', 'url']
    vals = dict(zip(names, args))
    if len(args) > 2:
        raise Unrec(f'{where}: positional arguments of the request beyond (method, url)')
    for n in names:
        if n in kw:
            if n in vals:
                raise Unrec('duplicate argument')
            vals[n] = kw.pop(n)
    if set(vals) != set(names):
        raise Unrec(f'{where}: method / url of the request not found')
    headers = kw.pop('headers', NONE)
    return Req(where, vals['method'], vals['url'], headers, kw, send_kw, guards)


def _fmt_items(fmt):
    out, i = [], 0
    while i < len(fmt):
        if fmt[i] == '%':
            out.append(fmt[i:i + 2])
            i += 2
        else:
            out.append(fmt[i])
            i += 1
    return out


# =====================================================================================================================
#  Part C — effects on ONE object (a stream) along normal and exceptional paths
#
#  Abstract state of the tracked stream: where its position is ('entry' = untouched since the analysed function was entered,
#  ('at', k) = after `seek(k)`, 'moved' = anywhere), whether `truncate(n)` has been called, whether some file was unlinked.
#  Statements are interpreted over SETS of such states; every call that is not known to be harmless may raise; an exception
#  travels outward through `except` / `finally` clauses (helper calls are followed, the stream is followed into their
#  parameters), and what leaves the analysed function is a set of (state, went-through-a-handler) pairs.
# =====================================================================================================================
BENIGN_CALLS = ('len', 'str', 'repr', 'int', 'bool', 'isinstance', 'print', 'id', 'type', 'min', 'max', 'float', 'format', 'hash', 'getattr', 'hasattr')
BENIGN_MODULE_CALLS = ('time.monotonic', 'time.time', 'time.perf_counter', 'time.monotonic_ns', 'time.perf_counter_ns', 'time.time_ns',
                       'logging.getLogger', 'contextlib.suppress')
CATCH_ALL = ('BaseException', 'Exception')


class FState(tuple):
    """(pos, truncated, unlinked, flags) — flags: local names that hold a known True / False (success flags tested in `finally`)"""
    __slots__ = ()

    def __new__(cls, pos='entry', truncated=False, unlinked=False, flags=()):
        return tuple.__new__(cls, (pos, truncated, unlinked, tuple(sorted(flags))))

    pos = property(lambda s: s[0])
    truncated = property(lambda s: s[1])
    unlinked = property(lambda s: s[2])
    flags = property(lambda s: s[3])

    def set(self, **kw):
        d = dict(pos=self[0], truncated=self[1], unlinked=self[2], flags=self[3])
        d.update(kw)
        return FState(**d)

    def flag(self, name, value):
        """value None: forget"""
        rest = tuple((n, v) for n, v in self[3] if n != name)
        return self.set(flags=rest + (((name, value),) if value is not None else ()))


class Out:
    __slots__ = ('fall', 'ret', 'brk', 'cont', 'exc')

    def __init__(self, fall=()):
        self.fall, self.ret, self.brk, self.cont, self.exc = set(fall), set(), set(), set(), set()

    def absorb(self, o, fall=True):
        if fall:
            self.fall |= o.fall
        self.ret |= o.ret
        self.brk |= o.brk
        self.cont |= o.cont
        self.exc |= o.exc


class Flow:
    MAX_DEPTH = 6

    def __init__(self, mod, cls=None, exc_covers=None):
        self.mod = mod
        self.cls = mod.classes.get(cls) if isinstance(cls, str) else cls
        self.methods = {}
        if self.cls is not None:
            for st in self.cls.body:
                if isinstance(st, (ast.FunctionDef, ast.AsyncFunctionDef)):
                    self.methods[st.name] = st
        self.exc_covers = exc_covers      # None: an exception of unknown class; else f(handler.type) → True / False / 'some'
        self.reset()

    @property
    def consumes(self):
        return self.consume_nodes

    def reset(self):
        self.consume_nodes = []   # (function node, AST node, state before) of every use that reads / writes / hands on the stream
        self.entries = {}         # function node → set of states with which it was entered (only when the stream is passed in)
        self.entry_tracked = {}   # function node → names of the stream in it
        self.seeks_at_entry = {}  # function node → number of seek() calls seen before it was first entered
        self.consumes_at_entry = {}
        self.seeks = 0
        self.truncates = []       # (number of arguments, state before)
        self.swallowed = False
        self.partial_cover = None
        self.stack = []
        self.notes = []

    # ------------------------------------------------------------------ resolution of calls
    def dotted(self, node):
        parts = []
        while isinstance(node, ast.Attribute):
            parts.append(node.attr)
            node = node.value
        if isinstance(node, ast.Name):
            base = self.mod.imports.get(node.id)
            if base is None:
                return None
            return '.'.join([base] + parts[::-1])
        return None

    def resolve_call(self, call, ctx):
        """→ (function node, passes `self`?) of a call to a method of the class / a module-level or nested function"""
        f = call.func
        if isinstance(f, ast.Attribute) and isinstance(f.value, ast.Name) and f.value.id == ctx['self'] and f.attr in self.methods:
            return self.methods[f.attr], True
        if isinstance(f, ast.Name):
            if f.id in ctx['nested']:
                return ctx['nested'][f.id], False
            if f.id in ctx['tracked'] or f.id in ctx['locals']:
                return None, False
            if f.id in self.mod.funcs:
                return self.mod.funcs[f.id], False
        return None, False

    def is_benign(self, call, ctx):
        f = call.func
        if isinstance(f, ast.Name) and f.id in BENIGN_CALLS and f.id not in ctx['locals']:
            return True
        if isinstance(f, ast.Attribute) and f.attr in LOGGER_METHODS:
            v = f.value
            # a logger: module-level `x = logging.getLogger(…)`, `logging.<level>(…)`, or an attribute named like one
            if isinstance(v, ast.Name):
                vals = self.mod.assigns.get(v.id) or []
                if len(vals) == 1 and isinstance(vals[0], ast.Call) and self.dotted(vals[0].func) == 'logging.getLogger':
                    return True
                if self.mod.imports.get(v.id) == 'logging':
                    return True
            if isinstance(v, ast.Attribute) and v.attr in ('logger', '_logger', 'log'):
                return True
        d = self.dotted(f)
        if d in BENIGN_MODULE_CALLS:
            return True
        return False

    # ------------------------------------------------------------------ expressions → ordered events
    def events(self, node, ctx, out):
        """post-order walk of an expression; appends events to `out`"""
        if node is None:
            return
        if isinstance(node, (ast.Lambda, ast.GeneratorExp, ast.ListComp, ast.SetComp, ast.DictComp)):
            if any(isinstance(n, ast.Name) and n.id in ctx['tracked'] for n in ast.walk(node)):
                out.append(('consume', node))
            elif any(isinstance(n, ast.Call) for n in ast.walk(node)) and not isinstance(node, ast.Lambda):
                out.append(('call', node))
            return
        if isinstance(node, ast.Call):
            f = node.func
            if isinstance(f, ast.Attribute) and isinstance(f.value, ast.Name) and f.value.id in ctx['tracked']:
                for a in list(node.args) + [k.value for k in node.keywords]:
                    self.events(a, ctx, out)
                if f.attr == 'seek':
                    out.append(('seek', node))
                elif f.attr == 'truncate':
                    out.append(('truncate', node))
                elif f.attr in ('tell', 'seekable', 'readable', 'writable', 'fileno', 'isatty'):
                    pass
                else:
                    out.append(('consume', node))
                return
            if isinstance(f, ast.Attribute):
                self.events(f.value, ctx, out)
            elif not isinstance(f, ast.Name):
                self.events(f, ctx, out)
            passed = {}
            fn, with_self = self.resolve_call(node, ctx)
            for i, a in enumerate(node.args):
                if isinstance(a, ast.Name) and a.id in ctx['tracked']:
                    passed[i] = a.id
                elif isinstance(a, ast.Starred) and any(isinstance(n, ast.Name) and n.id in ctx['tracked'] for n in ast.walk(a)):
                    passed['*'] = True
                else:
                    self.events(a, ctx, out)
            for k in node.keywords:
                if isinstance(k.value, ast.Name) and k.value.id in ctx['tracked']:
                    passed[k.arg if k.arg is not None else '**'] = k.value.id
                else:
                    self.events(k.value, ctx, out)
            if fn is not None and '*' not in passed and '**' not in passed:
                out.append(('usercall', node, fn, with_self, passed))
            elif passed:
                out.append(('consume', node))
            else:
                name = f.attr if isinstance(f, ast.Attribute) else f.id if isinstance(f, ast.Name) else ''
                d = self.dotted(f)
                if name == 'unlink' or d in ('os.unlink', 'os.remove'):
                    out.append(('unlink', node))
                elif d == 'contextlib.suppress' or (isinstance(f, ast.Name) and self.mod.imports.get(f.id) == 'contextlib.suppress'):
                    out.append(('suppress', node))
                elif not self.is_benign(node, ctx):
                    out.append(('call', node))
            return
        if isinstance(node, ast.Name):
            if node.id in ctx['tracked'] and isinstance(node.ctx, ast.Load):
                out.append(('consume', node))        # the stream escapes into something we do not follow
            return
        if isinstance(node, ast.Attribute) and isinstance(node.value, ast.Name) and node.value.id in ctx['tracked']:
            return                                   # reading an attribute of the stream (name, mode …)
        for ch in ast.iter_child_nodes(node):
            if isinstance(ch, ast.expr):
                self.events(ch, ctx, out)
            elif isinstance(ch, (ast.keyword, ast.comprehension, ast.FormattedValue)):
                for g in ast.iter_child_nodes(ch):
                    if isinstance(g, ast.expr):
                        self.events(g, ctx, out)

    def int_value(self, node, ctx):
        """an integer that is known here: a literal, a module-level constant, a parameter bound to one by the caller"""
        try:
            v = ast.literal_eval(node)
        except Exception:  # noqa: BLE001
            v = None
            if isinstance(node, ast.Name):
                stored = [n for n in ast.walk(ctx['fn']) if isinstance(n, ast.Name) and n.id == node.id and isinstance(n.ctx, ast.Store)] if ctx.get('fn') is not None else []
                if node.id in ctx.get('consts', {}) and not stored:
                    v = ctx['consts'][node.id]
                elif node.id not in ctx.get('locals', ()):
                    v = self.const_int(node)
        return v if isinstance(v, int) and not isinstance(v, bool) else None

    def seek_target(self, call, ctx=None):
        """`seek(k)` / `seek(k, 0)` / `seek(k, os.SEEK_SET)` with a literal k ≥ 0 → k, else None"""
        if call.keywords or not 1 <= len(call.args) <= 2:
            return None
        k = self.int_value(call.args[0], ctx or {})
        if k is None or k < 0:
            return None
        if len(call.args) == 2:
            w = call.args[1]
            try:
                if ast.literal_eval(w) != 0:
                    return None
            except Exception:  # noqa: BLE001
                if not (self.dotted(w) in ('os.SEEK_SET', 'io.SEEK_SET') or self.int_value(w, ctx or {}) == 0):
                    return None
        return k

    def const_int(self, node):
        """a module-level integer constant (hoisted value)"""
        if isinstance(node, ast.Name):
            vals = self.mod.assigns.get(node.id) or []
            if len(vals) == 1 and vals[0] is not None:
                try:
                    v = ast.literal_eval(vals[0])
                    if isinstance(v, int) and not isinstance(v, bool):
                        return v
                except Exception:  # noqa: BLE001
                    return None
        return None

    def run_expr(self, node, states, ctx):
        """→ Out (fall = states after the expression, exc = states in which it may raise)"""
        evs = []
        self.events(node, ctx, evs)
        o = Out(states)
        for ev in evs:
            kind = ev[0]
            nxt = set()
            for st in o.fall:
                if kind == 'seek':
                    self.seeks += 1
                    k = self.seek_target(ev[1], ctx)
                    nxt.add(st.set(pos=('at', k) if k is not None else 'moved'))
                elif kind == 'truncate':
                    self.truncates.append((len(ev[1].args) + len(ev[1].keywords), st))
                    if not ctx['quiet']:
                        o.exc.add((st, False))
                    nxt.add(st.set(truncated=len(ev[1].args) + len(ev[1].keywords) == 1))
                elif kind == 'consume':
                    self.consume_nodes.append((ctx['fn'], ev[1], st))
                    st2 = st.set(pos='moved')
                    if not ctx['quiet']:
                        o.exc.add((st2, False))
                        o.exc.add((st, False))
                    nxt.add(st2)
                elif kind == 'unlink':
                    nxt.add(st.set(unlinked=True))
                elif kind == 'suppress':
                    self.swallowed = True
                    nxt.add(st)
                elif kind == 'call':
                    if not ctx['quiet']:
                        o.exc.add((st, False))
                    nxt.add(st)
                elif kind == 'usercall':
                    r = self.call(ev[2], ev[3], ev[4], ev[1], st, ctx)
                    nxt |= r.fall
                    o.exc |= r.exc
            o.fall = nxt
        return o

    def bind_consts(self, fn, node, off, ctx):
        """integer arguments that are literals (or defaults) are known inside the helper: `def rewind(s, to=0): s.seek(to)`"""
        a = fn.args
        pos = list(a.posonlyargs) + list(a.args)
        consts = {}
        allp = pos + list(a.kwonlyargs)
        defaults = dict(zip([p.arg for p in pos[len(pos) - len(a.defaults):]], a.defaults)) if a.defaults else {}
        defaults.update({p.arg: dflt for p, dflt in zip(a.kwonlyargs, a.kw_defaults) if dflt is not None})
        given = {}
        for i, arg in enumerate(node.args):
            if not isinstance(arg, ast.Starred) and i + off < len(pos):
                given[pos[i + off].arg] = arg
        for k in node.keywords:
            if k.arg is not None:
                given[k.arg] = k.value
        for p in allp:
            src = given.get(p.arg, defaults.get(p.arg))
            if src is not None:
                v = self.int_value(src, ctx) if p.arg in given else self.int_value(src, {})
                if v is not None:
                    consts[p.arg] = v
        return consts

    def call(self, fn, with_self, passed, node, st, ctx):
        o = Out()
        if fn in self.stack or len(self.stack) >= self.MAX_DEPTH:
            # not followed: as an unknown call
            if passed:
                self.consume_nodes.append((ctx['fn'], node, st))
                st = st.set(pos='moved')
            o.fall.add(st)
            if not ctx['quiet']:
                o.exc.add((st, False))
            return o
        a = fn.args
        pos = list(a.posonlyargs) + list(a.args)
        static = any((isinstance(d, ast.Name) and d.id == 'staticmethod') for d in fn.decorator_list)
        off = 1 if with_self and not static else 0
        tracked = set()
        for k, v in passed.items():
            if isinstance(k, int):
                if k + off < len(pos):
                    tracked.add(pos[k + off].arg)
                else:
                    tracked.add('*')
            elif any(p.arg == k for p in pos + list(a.kwonlyargs)):
                tracked.add(k)
            else:
                tracked.add('*')
        if fn in ctx['nested'].values():
            # a nested function sees the stream of the enclosing function through its closure
            tracked |= {n for n in ctx['tracked'] if n not in {p.arg for p in pos + list(a.kwonlyargs)}}
        if '*' in tracked:
            self.consume_nodes.append((ctx['fn'], node, st))
            st = st.set(pos='moved')
            o.fall.add(st)
            if not ctx['quiet']:
                o.exc.add((st, False))
            return o
        consts = self.bind_consts(fn, node, off, ctx)
        if tracked:
            if fn not in self.entries:
                self.entry_tracked[fn] = set(tracked)
                self.seeks_at_entry[fn] = self.seeks
                self.consumes_at_entry[fn] = len(self.consume_nodes)
            self.entries.setdefault(fn, set()).add(st)
        r = self.function(fn, tracked, {st.set(flags=())}, quiet=ctx['quiet'], consts=consts)
        o.fall = {x.set(flags=st.flags) for x in r.fall | r.ret}        # the helper's own flags are its own
        o.exc = {(x.set(flags=st.flags), h) for x, h in r.exc}
        return o

    # ------------------------------------------------------------------ statements
    def function(self, fn, tracked, states, quiet=False, consts=None):
        a = fn.args
        pos = list(a.posonlyargs) + list(a.args)
        ctx = {'fn': fn, 'tracked': set(tracked), 'self': pos[0].arg if pos and fn.name in self.methods and self.methods[fn.name] is fn else None,
               'nested': {}, 'quiet': quiet, 'consts': dict(consts or {}),
               'locals': {n.id for n in ast.walk(fn) if isinstance(n, ast.Name) and isinstance(n.ctx, ast.Store)} | {p.arg for p in pos + list(a.kwonlyargs)}}
        self.stack.append(fn)
        try:
            o = self.block(fn.body, states, ctx)
        finally:
            self.stack.pop()
        return o

    def block(self, stmts, states, ctx):
        o = Out(states)
        for s in stmts:
            if not o.fall:
                break
            r = self.stmt(s, o.fall, ctx)
            o.fall = set()
            o.absorb(r)
        return o

    def stmt(self, s, states, ctx):
        if isinstance(s, (ast.FunctionDef, ast.AsyncFunctionDef)):
            ctx['nested'][s.name] = s
            return Out(states)
        if isinstance(s, (ast.Pass, ast.Import, ast.ImportFrom, ast.Global, ast.Nonlocal, ast.ClassDef)):
            return Out(states)
        yb = ctx.get('yield_body')
        if yb is not None and isinstance(s, (ast.Expr, ast.Assign)) and s.value is yb[2]:
            body, outer, _ = yb
            r = self.block(body, states, dict(outer, quiet=ctx['quiet'] and outer['quiet']))
            # `return` / `break` inside the with-body leave the helper's `try` as well; keep them as they are
            return r
        if isinstance(s, ast.Expr):
            return self.run_expr(s.value, states, ctx)
        if isinstance(s, (ast.Assign, ast.AnnAssign, ast.AugAssign)):
            value = s.value
            targets = s.targets if isinstance(s, ast.Assign) else [s.target]
            if isinstance(value, ast.Name) and value.id in ctx['tracked'] and not isinstance(s, ast.AugAssign):
                for t in targets:                      # an alias: `x = stream`
                    if isinstance(t, ast.Name):
                        ctx['tracked'].add(t.id)
                return Out(states)
            if isinstance(s, ast.Assign) and len(targets) == 1 and isinstance(targets[0], ast.Name) and isinstance(value, ast.Constant) and isinstance(value.value, bool):
                return Out({st.flag(targets[0].id, value.value) for st in states})
            o = self.run_expr(value, states, ctx) if value is not None else Out(states)
            for t in targets:
                for n in ast.walk(t):
                    if isinstance(n, ast.Name) and n.id in ctx['tracked'] and isinstance(n.ctx, ast.Store):
                        ctx['tracked'].discard(n.id)
                    if isinstance(n, ast.Name) and isinstance(n.ctx, ast.Store):
                        o.fall = {st.flag(n.id, None) for st in o.fall}
            return o
        if isinstance(s, ast.Return):
            o = self.run_expr(s.value, states, ctx) if s.value is not None else Out(states)
            o.ret |= o.fall
            o.fall = set()
            return o
        if isinstance(s, ast.Raise):
            o = Out()
            pre = self.run_expr(s.exc, states, dict(ctx, quiet=True)) if s.exc is not None else Out(states)
            o.exc |= {(st, False) for st in pre.fall}
            return o
        if isinstance(s, ast.Assert):
            return Out(states)
        if isinstance(s, ast.Delete):
            return Out(states)
        if isinstance(s, ast.Break):
            o = Out()
            o.brk |= set(states)
            return o
        if isinstance(s, ast.Continue):
            o = Out()
            o.cont |= set(states)
            return o
        if isinstance(s, ast.If):
            pre = self.run_expr(s.test, states, ctx)
            o = Out()
            o.exc |= pre.exc
            # a test of a local success flag decides per state
            test, want = s.test, True
            while isinstance(test, ast.UnaryOp) and isinstance(test.op, ast.Not):
                test, want = test.operand, not want
            yes, no = set(pre.fall), set(pre.fall)
            if isinstance(test, ast.Name):
                known = {st: dict(st.flags).get(test.id) for st in pre.fall}
                yes = {st for st, v in known.items() if v is None or v == want}
                no = {st for st, v in known.items() if v is None or v != want}
            a = self.block(s.body, yes, ctx)
            b = self.block(s.orelse, no, ctx)
            o.absorb(a)
            o.absorb(b)
            return o
        if isinstance(s, (ast.For, ast.AsyncFor, ast.While)):
            head = s.iter if not isinstance(s, ast.While) else s.test
            o = Out()
            cur = set(states)
            seen = set()
            for _ in range(4):
                pre = self.run_expr(head, cur, ctx)
                o.exc |= pre.exc
                body = self.block(s.body, pre.fall, ctx)
                o.exc |= body.exc
                o.ret |= body.ret
                infinite = isinstance(s, ast.While) and isinstance(s.test, ast.Constant) and bool(s.test.value)
                if not infinite:
                    o.fall |= pre.fall          # zero further iterations
                o.fall |= body.brk
                nxt = body.fall | body.cont
                if nxt <= seen:
                    break
                seen |= nxt
                cur = nxt
            if s.orelse:
                e = self.block(s.orelse, o.fall - set(), ctx)
                o.fall = e.fall
                o.absorb(e, fall=False)
            return o
        if isinstance(s, (ast.With, ast.AsyncWith)) and len(s.items) == 1:
            r = self.with_user_cm(s, states, ctx)
            if r is not None:
                return r
        if isinstance(s, (ast.With, ast.AsyncWith)):
            o = Out()
            cur = set(states)
            for item in s.items:
                pre = self.run_expr(item.context_expr, cur, ctx)
                o.exc |= pre.exc
                cur = pre.fall
                if isinstance(item.context_expr, ast.Name) and item.context_expr.id in ctx['tracked'] and isinstance(item.optional_vars, ast.Name):
                    ctx['tracked'].add(item.optional_vars.id)
            body = self.block(s.body, cur, ctx)
            o.absorb(body)
            return o
        if isinstance(s, ast.Try) or type(s).__name__ == 'TryStar':
            return self.try_stmt(s, states, ctx)
        if isinstance(s, ast.Match):
            o = self.run_expr(s.subject, states, ctx)
            res = Out()
            res.exc |= o.exc
            for c in s.cases:
                res.absorb(self.block(c.body, o.fall, ctx))
            res.fall |= o.fall
            return res
        return Out(states)

    def is_cm_decorator(self, d):
        if isinstance(d, ast.Call):
            return False
        name = self.dotted(d) or ''
        return name in ('contextlib.contextmanager', 'contextlib.asynccontextmanager')

    def with_user_cm(self, s, states, ctx):
        """`with helper(…): BODY` where `helper` is a generator-based context manager of this module / class: the helper's body is
        interpreted with BODY in the place of its `yield` (so an `except` / `finally` around the `yield` sees BODY's exceptions)"""
        call = s.items[0].context_expr
        if isinstance(call, ast.Await):
            call = call.value
        if not isinstance(call, ast.Call):
            return None
        fn, with_self = self.resolve_call(call, ctx)
        if fn is None or not any(self.is_cm_decorator(d) for d in fn.decorator_list):
            return None
        yields = [n for n in ast.walk(fn) if isinstance(n, (ast.Yield, ast.YieldFrom))]
        if len(yields) != 1 or fn in self.stack or len(self.stack) >= self.MAX_DEPTH:
            return None
        a = fn.args
        pos = list(a.posonlyargs) + list(a.args)
        off = 1 if with_self else 0
        tracked = set()
        for i, arg in enumerate(call.args):
            if isinstance(arg, ast.Name) and arg.id in ctx['tracked']:
                if isinstance(arg, ast.Starred) or i + off >= len(pos):
                    return None
                tracked.add(pos[i + off].arg)
        for k in call.keywords:
            if isinstance(k.value, ast.Name) and k.value.id in ctx['tracked']:
                if k.arg is None:
                    return None
                tracked.add(k.arg)
        # other arguments are evaluated in the caller
        pre = Out(states)
        for arg in list(call.args) + [k.value for k in call.keywords]:
            if not (isinstance(arg, ast.Name) and arg.id in ctx['tracked']):
                r = self.run_expr(arg, pre.fall, ctx)
                pre.exc |= r.exc
                pre.fall = r.fall
        inner = {'fn': fn, 'tracked': tracked, 'self': pos[0].arg if with_self and pos else None, 'nested': {}, 'quiet': ctx['quiet'],
                 'consts': self.bind_consts(fn, call, off, ctx),
                 'locals': {n.id for n in ast.walk(fn) if isinstance(n, ast.Name) and isinstance(n.ctx, ast.Store)} | {p.arg for p in pos + list(a.kwonlyargs)},
                 'yield_body': (s.body, ctx, yields[0])}
        self.stack.append(fn)
        try:
            o = self.block(fn.body, pre.fall, inner)
        finally:
            self.stack.pop()
        o.fall |= o.ret
        o.ret = set()
        o.exc |= pre.exc
        return o

    def covers(self, htype):
        """does this `except` clause catch the exception under analysis?  True / False / 'maybe'"""
        if self.exc_covers is not None:
            return self.exc_covers(htype)
        if htype is None:
            return True
        types = htype.elts if isinstance(htype, ast.Tuple) else [htype]
        for t in types:
            nm = t.attr if isinstance(t, ast.Attribute) else t.id if isinstance(t, ast.Name) else None
            if nm in CATCH_ALL:
                return True
        return 'maybe'

    def try_stmt(self, s, states, ctx):
        body = self.block(s.body, states, ctx)
        o = Out()
        o.ret |= body.ret
        o.brk |= body.brk
        o.cont |= body.cont
        if s.orelse:
            e = self.block(s.orelse, body.fall, ctx)
            o.absorb(e)
        else:
            o.fall |= body.fall
        hctx = dict(ctx, quiet=True)
        for (st, handled) in body.exc:
            remaining = True
            for h in s.handlers:
                c = self.covers(h.type)
                if c is False:
                    continue
                r = self.block(h.body, {st}, hctx)
                if r.fall or r.ret or r.brk or r.cont:
                    self.swallowed = True
                    o.fall |= r.fall
                    o.ret |= r.ret
                    o.brk |= r.brk
                    o.cont |= r.cont
                o.exc |= {(x, True) for x, _ in r.exc}
                if c is True:
                    remaining = False
                    break
                if c == 'some':
                    self.partial_cover = h
            if remaining:
                o.exc.add((st, handled))
        if s.finalbody:
            fin = Out()
            for name in ('fall', 'ret', 'brk', 'cont'):
                cur = getattr(o, name)
                if cur:
                    r = self.block(s.finalbody, cur, hctx)
                    getattr(fin, name).update(r.fall)
                    fin.ret |= r.ret
                    fin.exc |= r.exc
            for (st, handled) in o.exc:
                r = self.block(s.finalbody, {st}, hctx)
                for x in r.fall:
                    fin.exc.add((x, handled or x != st))
                if r.ret:
                    self.swallowed = True
                    fin.ret |= r.ret
                fin.exc |= {(x, True) for x, _ in r.exc}
            o = fin
        return o


# =====================================================================================================================
#  Part D — the S3 adapter seen through Parts A–C
# =====================================================================================================================
class View:
    """SigV4 structure of ONE request, computed in stages (a stage that fails only takes the facts that need it with it).
    Everything found by parsing the computed strings is re-synthesised with the composition rules of `SigV4.lean` and compared
    with what the code computes, so a fact that is emitted describes the code by construction."""

    def __init__(self, r):
        self.r = r
        self.cache = {}
        self.nows = []

    def get(self, stage):
        if stage not in self.cache:
            try:
                self.cache[stage] = (True, getattr(self, 'stage_' + stage)())
            except Unrec as e:
                self.cache[stage] = (False, e)
        ok, v = self.cache[stage]
        if not ok:
            raise v
        return v

    def is_ts(self, toks, fmt):
        n = ts_now(toks, fmt)
        if n is None:
            return False
        if n not in self.nows:
            self.nows.append(n)
        if n != self.nows[0]:
            raise Unrec(f'{self.r.where}: two different clock readings are used in one request')
        return True

    def time_toks(self, fmt):
        return [('t', ('tf', self.nows[0], f[1])) if f[0] == '%' else ('c', f) for f in _fmt_items(fmt)]

    # ---- headers handed to the client, the Authorization value, the signature term
    def stage_sent(self):
        r = self.r
        if r.headers[0] != 'dict':
            raise Unrec(f'{r.where}: headers are not a dict built here')
        sent = []
        for e in r.headers[1]:
            if e[0] == 'spread':
                ok, v = const_of(e[1])
                if not (ok and v is None) and e[1][0] != 'param' and not (e[1][0] == 'dict' and not e[1][1]):
                    raise Unrec(f'{r.where}: headers merged from something unknown')
                continue
            ok, k = const_of(e[1])
            if e[3] or not ok or not isinstance(k, str):
                raise Unrec(f'{r.where}: conditional / computed header name')
            sent.append((k, toks_of(e[2])))
        is_sig = lambda x: x[0] == 't' and x[1][0] == 'hex' and x[1][1][0] == 'hmac'  # noqa: E731
        auth = [(k, v) for k, v in sent if any(is_sig(x) for x in v)]
        if len(auth) != 1:
            raise Unrec(f'{r.where}: {len(auth)} headers carry an HMAC signature')
        name, A = auth[0]
        sigs = [x for x in A if is_sig(x)]
        if len(sigs) != 1:
            raise Unrec(f'{r.where}: more than one signature in the authorization header')
        h = sigs[0][1][1]
        if h[1] != 'sha256':
            raise Unrec('signature is not HMAC-SHA256')
        return {'sent': sent, 'auth_name': name, 'A': A, 'sig': sigs[0], 'key': h[2], 'msg': h[3]}

    # ---- string to sign
    def stage_sts(self):
        s = self.get('sent')
        sts = dec_toks(s['msg'])
        order, alg, scope, crhex = [], None, None, None
        for sg in split_toks(sts, NL):
            if const_str(sg) is not None:
                if alg is not None:
                    raise Unrec('two constant lines in the string to sign')
                alg = const_str(sg)
                order.append(0)
            elif self.is_ts(sg, AMZ_TS):
                order.append(1)
            elif len(sg) == 1 and sg[0][0] == 't' and sg[0][1][0] == 'hex' and sg[0][1][1][0] == 'hash':
                if crhex is not None or sg[0][1][1][1] != 'sha256':
                    raise Unrec('hash line of the string to sign')
                crhex = sg[0]
                order.append(3)
            else:
                if scope is not None:
                    raise Unrec('unrecognised line in the string to sign')
                scope = sg
                order.append(2)
        if alg is None or scope is None or crhex is None or sorted(order) != [0, 1, 2, 3]:
            raise Unrec(f'string to sign has lines {order}')
        return {'sts': sts, 'order': order, 'algorithm': alg, 'scope': scope, 'crhex': crhex}

    # ---- credential scope
    def stage_scope(self):
        t = self.get('sts')
        order, consts = [], []
        for piece in split_toks(t['scope'], ('c', '/')):
            if self.is_ts(piece, AMZ_DATE):
                order.append(0)
            elif piece == [('t', ('ctor', 'region'))]:
                order.append(1)
            elif const_str(piece) is not None:
                consts.append(const_str(piece))
                order.append(1 + len(consts))
            else:
                raise Unrec('unrecognised piece of the credential scope')
        if sorted(order) != [0, 1, 2, 3]:
            raise Unrec(f'credential scope has pieces {order}')
        # re-synthesis: scopeOf / stringToSignOf
        date, region = self.time_toks(AMZ_DATE), [('t', ('ctor', 'region'))]
        scope = join_toks([[date, region, ctoks(consts[0]), ctoks(consts[1])][k] for k in order], [('c', '/')])
        sts2 = join_toks([[ctoks(t['algorithm']), self.time_toks(AMZ_TS), scope, [t['crhex']]][k] for k in t['order']], [NL])
        if scope != t['scope'] or sts2 != t['sts']:
            raise Unrec('re-synthesis of the string to sign differs from what the code computes')
        return {'order': order, 'service': consts[0], 'terminator': consts[1]}

    # ---- signing key
    def stage_key(self):
        s, sc, t = self.get('sent'), self.get('scope'), self.get('sts')
        key, chain = s['key'], []
        while key[0] == 'hmac':
            if key[1] != 'sha256':
                raise Unrec('key chain is not HMAC-SHA256')
            chain.append(key[3])
            key = key[2]
        chain.reverse()
        k0 = dec_toks(key)
        if not k0 or k0[-1] != ('t', ('ctor', 'access_key')) or const_str(k0[:-1]) is None:
            raise Unrec('the key chain does not start from <constant> + access_key of the constructor')
        codes, kterm = [], None
        for m in chain:
            mt = dec_toks(m)
            if self.is_ts(mt, AMZ_DATE):
                codes.append(0)
            elif mt == [('t', ('ctor', 'region'))]:
                codes.append(1)
            elif const_str(mt) is not None and const_str(mt) == sc['service'] and 2 not in codes:
                codes.append(2)
            elif const_str(mt) is not None and kterm is None:
                kterm = const_str(mt)
                codes.append(3)
            else:
                raise Unrec('unrecognised message in the key chain')
        if kterm is None or len(set(codes)) != len(codes):
            raise Unrec(f'key chain {codes}')
        # re-synthesis: signingKeyOf / signatureOf
        date, region = self.time_toks(AMZ_DATE), [('t', ('ctor', 'region'))]
        k = S('b', ctoks(const_str(k0[:-1])) + [('t', ('enc', ('ctor', 'access_key')))])
        for code in codes:
            k = ('hmac', 'sha256', k, encode_term(S('s', [date, region, ctoks(sc['service']), ctoks(kterm)][code])))
        if ('t', ('hex', ('hmac', 'sha256', k, encode_term(S('s', t['sts']))))) != s['sig']:
            raise Unrec('re-synthesis of the signature differs from what the code computes')
        return {'prefix': const_str(k0[:-1]), 'chain': codes, 'terminator': kterm}

    # ---- canonical request
    def stage_cr(self):
        t = self.get('sts')
        method = toks_of(self.r.method)
        cr = dec_toks(t['crhex'][1][1][2])
        lines = split_toks(cr, NL)
        quotes = [ln for ln in lines if len(ln) == 1 and ln[0][0] == 't' and ln[0][1][0] == 'quote']
        ues = [ln for ln in lines if len(ln) == 1 and ln[0][0] == 't' and ln[0][1][0] == 'urlencode']
        if len(quotes) != 1 or len(ues) > 1:
            raise Unrec('canonical request: no single quoted path / more than one encoded query')
        uri, query = quotes[0], (ues[0] if ues else [])
        hdr = []
        for ln in lines:
            name = []
            for i, x in enumerate(ln):
                if x == ('c', ':'):
                    if name and const_str(name) is not None:
                        hdr.append((const_str(name), ln[i + 1:], ln))
                    break
                name.append(x)
        if not hdr:
            raise Unrec('canonical request: no header lines')
        names, values = [n for n, _, _ in hdr], [v for _, v, _ in hdr]
        used = [method, uri] + [ln for _, _, ln in hdr] + ([query] if query else [])
        rest = [ln for ln in lines if ln and ln not in used]
        sep = signed = None
        for ln in list(rest):
            s = const_str(ln)
            if s is None or sep is not None or len(names) < 2:
                continue
            if s.startswith(names[0]) and names[1] in s[len(names[0]):]:
                cand = s[len(names[0]):s.index(names[1], len(names[0]))]
                if cand and cand.join(names) == s:
                    sep, signed = cand, ln
                    rest.remove(ln)
        if sep is None:
            raise Unrec('canonical request: the line of signed header names was not found')
        if len(rest) != 1:
            raise Unrec(f'canonical request: {len(rest)} candidate lines for the payload digest')
        digest = rest[0]
        # re-synthesis: canonicalHeaders / clientSignedHeaders / canonicalRequestOf
        ch = join_toks([ctoks(n) + [('c', ':')] + v for n, v in zip(names, values)], [NL]) + [NL]
        comps = [method, uri, query, ch, signed, digest]
        import itertools
        order = None
        for perm in itertools.permutations(range(6)):
            if join_toks([comps[k] for k in perm], [NL]) == cr:
                order = list(perm)
                break
        if order is None:
            raise Unrec('canonical request is not the six modelled fields joined by newlines')
        return {'order': order, 'names': names, 'values': values, 'sep': sep, 'signed': signed, 'digest': digest, 'uri': uri, 'query': query}

    # ---- where the values of the signed headers come from
    def stage_sources(self):
        c = self.get('cr')
        sources = []
        for v in c['values']:
            if v == [('t', ('ctor', 'host'))]:
                sources.append(0)
            elif v == c['digest']:
                sources.append(1)
            elif self.is_ts(v, AMZ_TS):
                sources.append(2)
            else:
                raise Unrec('value of a signed header is none of host / payload digest / x-amz-date')
        return sources

    # ---- Authorization template
    def stage_template(self):
        s, t, c = self.get('sent'), self.get('sts'), self.get('cr')
        self.get('scope')
        fields = [(4, [s['sig']]), (2, t['scope']), (3, c['signed']), (1, [('t', ('ctor', 'key_id'))])]
        A, out, lit, i = s['A'], [], '', 0
        while i < len(A):
            for code, ft in fields:
                if A[i:i + len(ft)] == ft:
                    if lit:
                        out.append((0, lit))
                        lit = ''
                    out.append((code, ''))
                    i += len(ft)
                    break
            else:
                if A[i][0] != 'c':
                    raise Unrec('unrecognised field in the authorization header')
                lit += A[i][1]
                i += 1
        if lit:
            out.append((0, lit))
        return out

    def stage_sent_codes(self):
        s, c = self.get('sent'), self.get('cr')
        out = []
        for k, v in s['sent']:
            if k.lower() == 'host':
                # the adapter puts a Host header on the request itself (httpx keeps an explicit one verbatim instead of deriving a
                # normalised one from the URL): source 0 = the configured host, the value that is signed.  Anything else is not
                # modelled — the item turns opaque, nothing is assumed.  The name is emitted in lower case (header names are
                # case-insensitive; the model looks the entry up as `host`).
                if v != [('t', ('ctor', 'host'))]:
                    raise Unrec('the Host header is set to something else than the configured host')
                out.append(('host', 0))
            elif v == c['digest']:
                out.append((k, 1))
            elif ts_now(v, AMZ_TS) is not None and self.is_ts(v, AMZ_TS):
                out.append((k, 2))
            elif k == s['auth_name']:
                out.append((k, 3))
        if not out:
            raise Unrec('no header is set')
        return out

    # ---- the strings signed are the strings sent (URL = scheme://host + signed path [+ ? + signed query])
    def stage_same_strings(self):
        c = self.get('cr')
        if not is_S(self.r.url, 's'):
            raise Unrec('URL is not a string expression')
        want = [('t', ('ctor', 'scheme'))] + ctoks('://') + [('t', ('ctor', 'host'))] + c['uri'] + (ctoks('?') + c['query'] if c['query'] else [])
        if list(self.r.url[2]) != want:
            raise Unrec('URL differs from scheme://host + signed path + signed query')
        if 'follow_redirects' in self.r.kwargs or 'params' in self.r.kwargs:
            raise Unrec('query parameters / redirects passed to the client')
        return True

    def stage_clock(self):
        self.get('sts'), self.get('scope'), self.get('key'), self.get('cr'), self.get('sources'), self.get('sent_codes')
        if len(self.nows) != 1 or self.nows[0][0] != 'now' or self.nows[0][2] != 'utc':
            raise Unrec('not exactly one UTC clock reading')
        return True


def _bytes(b):
    return '[' + ', '.join(str(x) for x in b) + ']'


def _bl(s):
    if isinstance(s, str):
        s = s.encode('utf-8')
    return _bytes(s)


def _nats(xs):
    return '[' + ', '.join(map(str, xs)) + ']'


def adapter_class(mod):
    """the class the module exports as `Client` (else the only class deriving from Backend)"""
    vals = mod.assigns.get('Client') or []
    if len(vals) == 1 and isinstance(vals[0], ast.Name) and vals[0].id in mod.classes:
        return mod.classes[vals[0].id]
    cands = [c for c in mod.classes.values() if any((isinstance(b, ast.Name) and b.id == 'Backend') or (isinstance(b, ast.Attribute) and b.attr == 'Backend') for b in c.bases)]
    if len(cands) == 1:
        return cands[0]
    raise Unrec('adapter class not found')


def on_exception_call(sym, expr):
    """decorator expression → the `backoff.on_exception(…)` call it denotes (through names, constants, functools.partial), or None"""
    try:
        v = sym.deref(sym.ev(expr, St()), St())
    except Exception:  # noqa: BLE001
        return None
    if v[0] == 'call' and v[1] == 'backoff.on_exception':
        return ('on_exception', v[2], v[3])
    return None


def retried_root(sym, flow, public, stream='stream'):
    """the function that is retried around the transfer of `stream` started by the public method → (function, names of the stream in
    it, decorator call | None, Flow run of the public method)"""
    if public not in flow.methods:
        raise Unrec(f'{public} not found')
    fn = flow.methods[public]
    a = fn.args
    if stream not in [p.arg for p in a.posonlyargs + a.args + a.kwonlyargs]:
        raise Unrec(f'{public} has no parameter `{stream}`')
    flow.reset()
    flow.function(fn, {stream}, {FState()})
    cands = [(fn, {stream})] + [(f, flow.entry_tracked[f]) for f in flow.entries]
    for f, tracked in cands:
        decos = [on_exception_call(sym, d) for d in f.decorator_list]
        decos = [d for d in decos if d is not None]
        if not decos:
            continue
        probe = Flow(flow.mod, flow.cls)
        probe.function(f, tracked, {FState()})
        if probe.consumes:
            return f, tracked, decos[0]
    return fn, {stream}, None


STATUS_ONLY = {'HTTPStatusError'}
TRANSPORT_ALL = {'RequestError', 'TransportError'}
TRANSPORT_SOME = {'TimeoutException', 'ConnectTimeout', 'ReadTimeout', 'WriteTimeout', 'PoolTimeout', 'NetworkError', 'ConnectError',
                  'ReadError', 'WriteError', 'CloseError', 'ProtocolError', 'LocalProtocolError', 'RemoteProtocolError', 'ProxyError',
                  'UnsupportedProtocol', 'DecodingError', 'TooManyRedirects'}
EVERYTHING = {'HTTPError', 'Exception', 'BaseException'}


def http_covers(kind):
    """`except` clause vs. one class of httpx failures ('status' = a response arrived, 'transport' = none did)"""
    def covers(htype):
        if htype is None:
            return True
        types = htype.elts if isinstance(htype, ast.Tuple) else [htype]
        res = False
        for t in types:
            nm = t.attr if isinstance(t, ast.Attribute) else t.id if isinstance(t, ast.Name) else None
            if nm in EVERYTHING:
                return True
            if nm in STATUS_ONLY:
                if kind == 'status':
                    return True
            elif nm in TRANSPORT_ALL:
                if kind == 'transport':
                    return True
            elif nm in TRANSPORT_SOME:
                if kind == 'transport':
                    res = 'some'
            else:
                raise Unrec('exception class not recognised: ' + ast.unparse(t))
        return res
    return covers


def section(ctx):
    src = (ctx.REPO / 'replicat' / 'backends' / 's3c.py').read_text()
    tree = ast.parse(src)
    un = ctx.unparse
    emit = ctx.emit
    notes = ctx.notes

    def item(name, ty, fn):
        """emit `def name : ty := <fn()>`, or `opaque` + note when fn raises"""
        try:
            val = fn()
            emit(f'def {name} : {ty} := {val}')
        except Exception as e:  # noqa: BLE001
            notes[f's3.{name}'] = f'not recognised: {e!r}'[:300]
            emit(f'opaque {name} : {ty}')

    def flag(name, fn):
        """informational shape flag (never opaque, never used by a theorem): true iff the code has the modelled shape"""
        try:
            fn()
            emit(f'def {name} : Bool := true')
        except Exception as e:  # noqa: BLE001
            notes[f's3.{name}'] = f'shape differs from the modelled one: {e!r}'[:300]
            emit(f'def {name} : Bool := false')

    for nm in ('_prepare_request', '_list_objects', 'upload', 'upload_stream', '_put_object', '_put_object_stream', '__init__'):
        ctx.fp(f's3c.S3Compatible.{nm}', ctx.find_func(tree, 'S3Compatible', nm))
    for nm in ('_get_data_hexdigest', '_get_stream_hexdigest', '_hmac_sha256_digest', '_make_signature_key', '_make_canonical_headers',
               '_make_credential_scope', '_make_canonical_request', '_make_string_to_sign'):
        ctx.fp(f's3c.{nm}', ctx.find_func(tree, nm))

    # ---- every public method of the adapter is run on symbolic arguments; what reaches the HTTP client is analysed
    setup = {}

    def base():
        if 'sym' not in setup:
            mod = Mod(src)
            cls = adapter_class(mod)
            setup['mod'], setup['cls'], setup['sym'] = mod, cls, Sym(mod, cls)
        return setup['sym']

    def views():
        """→ {public method: [View of each request it sends]} (the evaluation is done once)"""
        if 'views' not in setup:
            try:
                sym = base()
                out = {}
                for m in BACKEND_API:
                    if m not in sym.methods:
                        raise Unrec(f'public method {m} not found')
                    reqs = requests_of(sym, m)
                    if not reqs:
                        raise Unrec(f'{m}: no request reaches the HTTP client')
                    out[m] = [View(r) for r in reqs]
                setup['views'] = (True, out)
            except Exception as e:  # noqa: BLE001
                setup['views'] = (False, e if isinstance(e, Unrec) else Unrec(f'evaluation failed: {e!r}'))
        ok, v = setup['views']
        if not ok:
            raise v
        return v

    def agree(fn, only=None):
        """the value `fn(view)` that ALL requests (of the methods `only`) agree on"""
        vals = []
        for m, vs in views().items():
            if only is not None and m not in only:
                continue
            for v in vs:
                x = fn(v)
                if x is not None and x not in vals:
                    vals.append(x)
        if len(vals) != 1:
            raise Unrec(f'requests disagree / none applies: {vals!r}'[:200])
        return vals[0]

    def with_query(fn):
        return lambda v: fn(v.get('cr')['query'][0][1]) if v.get('cr')['query'] else None

    # ---- path quoting: the `quote` applied to the path that is signed
    def path_safe():
        def one(v):
            q = v.get('cr')['uri'][0][1]
            if q[3]:
                raise Unrec('the signed path is encoded with quote_plus')
            return bytes(q[2])
        return _bytes(agree(one))
    item('s3PathSafeB', 'List UInt8', path_safe)

    # ---- query string: the `urlencode` whose result is signed
    def query_sorted():
        def one(ue):
            seq = ue[1]
            if seq[0] == 'sorted' and seq[1][0] == 'items':
                return 'true'
            if seq[0] == 'items':
                return 'false'
            raise Unrec('query pairs come from something else than [sorted] dict items')
        return agree(with_query(one))
    item('s3QuerySortedB', 'Bool', query_sorted)
    item('s3QueryViaQuotePlus', 'Bool', lambda: agree(with_query(lambda ue: 'true' if ue[2] == 'quote_plus' else 'false')))
    item('s3QuerySafeB', 'List UInt8', lambda: _bytes(agree(with_query(lambda ue: bytes(ue[3])))))

    flag('s3SignedStringsAreSentStrings', lambda: agree(lambda v: v.get('same_strings')))

    # ---- signed headers: names, value sources, separator
    item('s3SignedHeadersB', 'List (List UInt8)', lambda: '[' + ', '.join(_bl(k) for k in agree(lambda v: v.get('cr')['names'])) + ']')
    item('s3SignedHeaderSources', 'List Nat', lambda: _nats(agree(lambda v: v.get('sources'))))
    item('s3SignedHeadersSep', 'List UInt8', lambda: _bl(agree(lambda v: v.get('cr')['sep'])))
    # `name:value\n` per signed header — part of what the canonical-request stage re-synthesises
    flag('s3CanonicalHeadersShape', lambda: agree(lambda v: bool(v.get('cr')) and bool(v.get('sources'))))
    item('s3CanonicalRequestOrder', 'List Nat', lambda: _nats(agree(lambda v: v.get('cr')['order'])))

    def sts(v):
        v.get('scope')              # includes the re-synthesis of the string to sign
        return v.get('sts')
    item('s3StringToSignOrder', 'List Nat', lambda: _nats(agree(lambda v: sts(v)['order'])))
    item('s3Algorithm', 'List UInt8', lambda: _bl(agree(lambda v: sts(v)['algorithm'])))
    item('s3ScopeOrder', 'List Nat', lambda: _nats(agree(lambda v: v.get('scope')['order'])))
    item('s3Terminator', 'List UInt8', lambda: _bl(agree(lambda v: v.get('scope')['terminator'])))

    def key_chain_standard():
        k = agree(lambda v: v.get('key'))
        sc = agree(lambda v: v.get('scope'))
        assert k == {'prefix': 'AWS4', 'chain': [0, 1, 2, 3], 'terminator': 'aws4_request'} and sc['service'] == 's3', (k, sc)
    flag('s3KeyChainStandard', key_chain_standard)
    item('s3KeyPrefix', 'List UInt8', lambda: _bl(agree(lambda v: v.get('key')['prefix'])))
    item('s3KeyChain', 'List Nat', lambda: _nats(agree(lambda v: v.get('key')['chain'])))
    item('s3KeyTerminator', 'List UInt8', lambda: _bl(agree(lambda v: v.get('key')['terminator'])))
    item('s3Service', 'List UInt8', lambda: _bl(agree(lambda v: v.get('scope')['service'])))
    flag('s3ClockStandard', lambda: agree(lambda v: v.get('clock')))

    def auth_template():
        t = agree(lambda v: v.get('template'))
        return '[' + ', '.join(f'(0, {_bl(lit)})' if code == 0 else f'({code}, [])' for code, lit in t) + ']'
    item('s3AuthTemplate', 'List (Nat × List UInt8)', auth_template)
    item('s3SentHeaders', 'List (List UInt8 × Nat)', lambda: '[' + ', '.join(f'({_bl(k)}, {c})' for k, c in agree(lambda v: v.get('sent_codes'))) + ']')

    # ---- listing query: the dict whose encoded items are signed by `list_files`
    def list_dict():
        def one(ue):
            d = ue[1][1] if ue[1][0] == 'sorted' else ue[1]
            if d[0] != 'items' or d[1][0] != 'dict':
                raise Unrec('listing query is not a dict built in the adapter')
            return d[1][1]
        entries = agree(with_query(one), only=('list_files',))
        fixed = [e for e in entries if e[0] == 'kv' and not e[3]]
        cond = [e for e in entries if e[0] == 'kv' and e[3]]
        if len(fixed) != 1 or len(cond) != 2 or len(entries) != 3:
            raise Unrec('listing query: expected one fixed and two conditional parameters')
        okk, k0 = const_of(fixed[0][1])
        okv, v0 = const_of(fixed[0][2])
        pfx = [e for e in cond if e[2] == ('param', 'prefix')]
        tok = [e for e in cond if e[2] != ('param', 'prefix')]
        if not (okk and okv and isinstance(k0, str) and isinstance(v0, str)) or len(pfx) != 1 or len(tok) != 1:
            raise Unrec('listing query: parameters not recognised')
        kt, kp = const_of(tok[0][1]), const_of(pfx[0][1])
        if not (kt[0] and kp[0] and isinstance(kt[1], str) and isinstance(kp[1], str)):
            raise Unrec('listing query: computed parameter names')
        return k0, v0, kt[1], kp[1], tok[0], pfx[0]

    def list_shape():
        _, _, _, _, tok, pfx = list_dict()
        assert tok[3] == (neg(is_none_cond(tok[2])),), tok[3]          # sent iff a continuation token is known
        assert pfx[3] == (as_cond(pfx[2]),), pfx[3]                    # sent iff the prefix is not empty
        for v in views()['list_files']:
            c = v.get('cr')
            assert toks_of(v.r.method) == ctoks('GET')
            assert c['uri'][0][1][1] == S('s', ctoks('/') + [('t', ('ctor', 'connection_string'))]), c['uri']
            assert c['digest'] == [('t', ('hex', ('hash', 'sha256', S('b', []))))], c['digest']
    flag('s3ListShape', list_shape)
    item('s3ListTypeKey', 'List UInt8', lambda: _bl(list_dict()[0]))
    item('s3ListTypeValue', 'List UInt8', lambda: _bl(list_dict()[1]))
    item('s3TokenKey', 'List UInt8', lambda: _bl(list_dict()[2]))
    item('s3PrefixKey', 'List UInt8', lambda: _bl(list_dict()[3]))

    # ---- payload digest of a stream, and where the stream stands afterwards
    def flows():
        """the streamed upload: the retried function around the transfer, and how the stream gets there"""
        if 'flows' not in setup:
            try:
                sym = base()
                mod, cls = setup['mod'], setup['cls']
                fl = Flow(mod, cls)
                root, tracked, deco = retried_root(sym, fl, 'upload_stream')
                setup['flows'] = (True, {'flow': fl, 'root': root, 'tracked': tracked, 'deco': deco, 'public': fl.methods['upload_stream'],
                                         'entry': set(fl.entries.get(root, ())), 'pre_seeks': fl.seeks_at_entry.get(root, 0),
                                         'pre_consumes': len(fl.consume_nodes[:fl.consumes_at_entry.get(root, 0)])})
            except Exception as e:  # noqa: BLE001
                setup['flows'] = (False, e if isinstance(e, Unrec) else Unrec(f'flow analysis failed: {e!r}'))
        ok, v = setup['flows']
        if not ok:
            raise v
        return v

    def stream_rewind():
        f = flows()
        if f['root'] is f['public']:
            raise Unrec('the streamed upload is retried as a whole: no separate digest phase')
        pos = {st.pos for st in f['entry']}
        if not pos:
            raise Unrec('the retried function is not reached')
        if len(pos) == 1 and isinstance(next(iter(pos)), tuple):
            return f'some {next(iter(pos))[1]}'
        if f['pre_seeks'] == 0 and pos == {'moved'}:
            return 'none'
        raise Unrec(f'position of the stream after the digest is not fixed: {sorted(map(repr, pos))}')
    item('s3StreamRewindTo', 'Option Nat', stream_rewind)

    def upload_request(m):
        vs = views()[m]
        assert len(vs) == 1, f'{m}: {len(vs)} requests'
        return vs[0]

    def stream_digest_shape():
        c = upload_request('upload_stream').get('cr')
        d = c['digest']
        assert len(d) == 1 and d[0][1][0] == 'hex' and d[0][1][1][:2] == ('hash', 'sha256'), d
        data = d[0][1][1][2]
        assert is_S(data, 'b') and len(data[2]) == 1 and data[2][0][0] == 't' and data[2][0][1][0] == 'readall' and data[2][0][1][1] == ('param', 'stream'), data
    flag('s3StreamDigestShape', stream_digest_shape)

    # ---- retried streamed PUT: which failures of an attempt are followed by a rewind of the stream
    # The retried function is retried by backoff on httpx.HTTPError = HTTPStatusError (a response arrived) ∪ the transport errors
    # (RequestError: connect / read / write / protocol / timeout, no response).  The model needs to know, per class, whether the
    # stream is back at a fixed position when the next attempt reads it.
    def put_rewind():
        f = flows()
        if f['deco'] is None:
            raise Unrec('the streamed PUT is not retried by backoff.on_exception')
        res, where = {}, set()
        for kind in ('status', 'transport'):
            fl = Flow(setup['mod'], setup['cls'], exc_covers=http_covers(kind))
            o = fl.function(f['root'], f['tracked'], {FState()})
            if fl.partial_cover is not None:
                raise Unrec('handler covers only some transport errors: ' + ast.unparse(fl.partial_cover.type))
            if fl.swallowed:
                raise Unrec('an exception of the transfer is swallowed')
            # where a failed attempt (that had touched the stream) leaves it …
            exits = {st.pos for st, _ in o.exc if st.pos != 'entry'} or {'moved'}
            # … and from where the next attempt reads it (a seek at the start of the retried function counts as well)
            nxt = Flow(setup['mod'], setup['cls'])
            nxt.function(f['root'], f['tracked'], {FState(pos=p) for p in exits})
            reads = {st.pos for _, _, st in nxt.consume_nodes}
            if not reads:
                raise Unrec('the retried function does not read the stream')
            if all(isinstance(p, tuple) for p in reads):
                res[kind] = True
                where |= {p[1] for p in reads}
            elif not any(isinstance(p, tuple) for p in reads):
                res[kind] = False
            else:
                raise Unrec(f'stream position after a {kind} failure is not fixed: {sorted(map(repr, reads))}')
        if len(where) > 1:
            raise Unrec(f'different rewind positions {sorted(where)}')
        return res['status'], res['transport'], (where.pop() if where else 0)
    item('s3PutRewindOnStatus', 'Bool', lambda: str(put_rewind()[0]).lower())
    item('s3PutRewindOnTransport', 'Bool', lambda: str(put_rewind()[1]).lower())
    item('s3PutRewindTo', 'Nat', lambda: str(put_rewind()[2]))

    def digest_outside_retry():
        """the payload digest is computed once, outside the retried function, and passed unchanged to every attempt"""
        f = flows()
        assert f['root'] is not f['public'] and f['deco'] is not None, 'upload_stream itself is the retried function'
        assert not [d for d in f['public'].decorator_list if on_exception_call(setup['sym'], d)], 'upload_stream is retried as a whole'
        probe = Flow(setup['mod'], setup['cls'])
        probe.function(f['root'], f['tracked'], {FState()})
        assert len({id(n) for _, n, _ in probe.consume_nodes}) == 1, 'the retried function reads the stream more than once'
        assert f['pre_consumes'], 'the stream is not read before the retried function'
    flag('s3StreamDigestOutsideRetry', digest_outside_retry)

    def upload_shape():
        bucket_name = S('s', ctoks('/') + [('t', ('ctor', 'connection_string'))] + ctoks('/') + [('t', ('param', 'name'))])
        u = upload_request('upload')
        c = u.get('cr')
        assert toks_of(u.r.method) == ctoks('PUT') and c['uri'][0][1][1] == bucket_name
        assert u.r.kwargs == {'content': ('param', 'data')}, u.r.kwargs
        assert c['digest'] == [('t', ('hex', ('hash', 'sha256', S('b', [('t', ('param', 'data'))]))))], c['digest']
        extra = [(k, v) for k, v in u.get('sent')['sent'] if not any(k == n or (n == 'host' and k.lower() == n) for n, _ in u.get('sent_codes'))]
        assert extra == [('content-length', [('t', ('tostr', ('len', ('param', 'data'))))])], extra
        s = upload_request('upload_stream')
        c = s.get('cr')
        assert toks_of(s.r.method) == ctoks('PUT') and c['uri'][0][1][1] == bucket_name
        kw = dict(s.r.kwargs)
        body = kw.pop('content', None)
        assert not kw and body is not None and body[0] == 'call' and body[1] == 'replicat.utils.aiter_chunks' and body[2] == (('param', 'stream'),) \
            and body[3] == (('chunk_size', ('param', 'chunk_size')),), (kw, body)
        extra = [(k, v) for k, v in s.get('sent')['sent'] if not any(k == n or (n == 'host' and k.lower() == n) for n, _ in s.get('sent_codes'))]
        assert extra == [('content-length', [('t', ('tostr', ('param', 'length')))])], extra
        stream_digest_shape()
        return 'true'
    flag('s3UploadShape', upload_shape)

    # ---- who puts requests on the wire: only the adapter, or also the HTTP library (followed redirects)?
    # httpx runs the response hooks BEFORE it looks at the Location header (`_send_handling_redirects`), so a hook that calls
    # `raise_for_status()` unconditionally ends every exchange that was answered outside 2xx; redirects are followed only when
    # `follow_redirects` is true at the client or at a `send` / request call.  Both items are consumed by theorems of
    # Properties/C16.lean; an unrecognised shape is emitted as the UNSAFE value (never silently assumed) with a note.
    for nm in ('_make_request', '_make_streaming_request'):
        ctx.fp(f's3c.S3Compatible.{nm}', ctx.find_func(tree, 'S3Compatible', nm))
    ctx.fp('s3c._raise_for_status_hook', ctx.find_func(tree, '_raise_for_status_hook'))

    def unsafe_default(name, ty, fn, unsafe):
        try:
            emit(f'def {name} : {ty} := {fn()}')
        except Exception as e:  # noqa: BLE001
            notes[f's3.{name}'] = f'not recognised, emitted as {unsafe}: {e!r}'[:300]
            emit(f'def {name} : {ty} := {unsafe}')

    def const_value(node):
        """literal, or a name / attribute that resolves to a module-level (or class-level) constant"""
        try:
            return ast.literal_eval(node)
        except Exception:  # noqa: BLE001
            pass
        ok, v = const_of(base().deref(base().ev(node, St()), St()))
        if not ok:
            raise Unrec('not a constant: ' + un(node))
        return v

    def _client_ctor_calls():
        return [n for n in ast.walk(tree) if isinstance(n, ast.Call) and un(n.func).split('.')[-1] in ('AsyncClient', 'Client')]

    def follow_redirects():
        yes = False
        for n in ast.walk(tree):
            if isinstance(n, ast.Call):
                for k in n.keywords:
                    if k.arg == 'follow_redirects':
                        v = const_value(k.value)               # raises for a non-constant → unsafe value
                        assert isinstance(v, bool), un(n)
                        yes = yes or v
                    elif k.arg is None and un(n.func).split('.')[-1] in ('send', 'request', 'stream', 'get', 'put', 'head', 'delete', 'post',
                                                                        'AsyncClient', 'Client'):
                        raise ValueError('**kwargs reach ' + un(n.func))
            elif isinstance(n, (ast.Assign, ast.AugAssign)):
                for t in (n.targets if isinstance(n, ast.Assign) else [n.target]):
                    if isinstance(t, ast.Attribute) and t.attr == 'follow_redirects':
                        raise ValueError('assignment to ' + un(t))
            elif isinstance(n, ast.Constant) and n.value == 'follow_redirects':
                raise ValueError('the name follow_redirects as a string (dynamic keyword?)')
        return 'true' if yes else 'false'
    unsafe_default('s3FollowRedirects', 'Bool', follow_redirects, 'true')

    def max_redirects():
        vals = set()
        for c in _client_ctor_calls():
            for k in c.keywords:
                if k.arg == 'max_redirects':
                    vals.add(const_value(k.value))
        if not vals:              # the library's default, read from the installed httpx (text; the extractor may run without httpx importable)
            import glob
            import re
            for cfgpy in sorted(glob.glob('/venv/lib/python*/site-packages/httpx/_config.py')):
                m = re.search(r'^DEFAULT_MAX_REDIRECTS\s*=\s*(\d+)\s*$', open(cfgpy).read(), flags=re.M)
                if m:
                    vals.add(int(m.group(1)))
        assert len(vals) == 1 and all(isinstance(v, int) and v >= 0 for v in vals), vals
        return str(vals.pop())
    unsafe_default('s3MaxRedirects', 'Nat', max_redirects, '20')

    def hook_raises():
        """true iff every hook-registered exchange that was answered outside 2xx ends in `<response>.raise_for_status()`: on every
        path through one registered response hook (helper calls followed) that call is reached — directly, under
        `if not response.is_success`, after `if response.is_success: return`, or as the first statement of a `try` whose handlers
        all end in `raise`."""
        sym = base()
        mod = setup['mod']
        clients = [v for v in sym.init_attrs().values() if is_client(v)]
        assert len(clients) == 1, f'{len(clients)} HTTP clients'
        assert len(_client_ctor_calls()) == 1, 'more than one client constructed'
        hooks = []
        for k, v in clients[0][3]:
            if k == 'event_hooks':
                assert v[0] == 'dict', 'event_hooks is not a dict built here'
                for e in v[1]:
                    assert e[0] == 'kv' and not e[3] and const_of(e[1])[0], 'event_hooks entry'
                    if const_of(e[1])[1] == 'response':
                        assert e[2][0] in ('list', 'tuple'), 'response hooks are not a list'
                        hooks += list(e[2][1])
        assert hooks, 'no response hook registered'
        for n in ast.walk(tree):          # the hook table must not be changed elsewhere
            if isinstance(n, ast.Attribute) and n.attr == 'event_hooks':
                raise ValueError('event_hooks accessed: ' + un(n))

        def is_rfs(st, param):
            v = st.value if isinstance(st, ast.Expr) else None
            if isinstance(v, ast.Await):
                v = v.value
            return isinstance(v, ast.Call) and un(v.func) == f'{param}.raise_for_status' and not v.args and not v.keywords

        def success_test(test, param):
            """→ True: test ⇔ response.is_success, False: test ⇔ not response.is_success, None: something else"""
            if isinstance(test, ast.UnaryOp) and isinstance(test.op, ast.Not):
                r = success_test(test.operand, param)
                return None if r is None else not r
            if un(test) == f'{param}.is_success':
                return True
            return None

        def plain(st):
            return isinstance(st, (ast.Assign, ast.AnnAssign, ast.AugAssign, ast.Expr, ast.Pass)) and not any(
                isinstance(x, (ast.Return, ast.Raise, ast.Yield, ast.YieldFrom)) for x in ast.walk(st))

        def helper(st, param, depth):
            v = st.value if isinstance(st, ast.Expr) else None
            if isinstance(v, ast.Await):
                v = v.value
            if isinstance(v, ast.Call) and isinstance(v.func, ast.Name) and v.func.id in mod.funcs and depth < 4 \
                    and len(v.args) == 1 and not v.keywords and isinstance(v.args[0], ast.Name) and v.args[0].id == param:
                f = mod.funcs[v.func.id]
                if len(f.args.args) == 1 and not f.decorator_list:
                    return f
            return None

        def always(stmts, param, depth=0):
            """does control, for a response outside 2xx, always reach raise_for_status() in this statement list?"""
            for st in stmts:
                if is_rfs(st, param):
                    return True
                h = helper(st, param, depth)
                if h is not None and always(h.body, h.args.args[0].arg, depth + 1):
                    return True
                if isinstance(st, ast.Try):
                    if st.body and (is_rfs(st.body[0], param) or (isinstance(st.body[0], ast.If) and always(st.body[:1], param, depth))):
                        for hd in st.handlers:
                            assert isinstance(hd.body[-1], ast.Raise), 'handler swallows the error: ' + un(hd)[:120]
                        assert not any(isinstance(x, ast.Return) for s in st.finalbody for x in ast.walk(s)), 'return in finally'
                        return True
                    raise AssertionError('try does not start with raise_for_status(): ' + un(st)[:120])
                if isinstance(st, ast.If):
                    ok = success_test(st.test, param)
                    if ok is True:          # 2xx branch: may return; the other branch / the rest is what matters
                        if st.orelse and always(st.orelse, param, depth):
                            return True
                        assert not st.orelse or all(plain(x) for x in st.orelse), 'statement before raise_for_status(): ' + un(st)[:120]
                        continue
                    if ok is False:
                        if always(st.body, param, depth):
                            return True
                        raise AssertionError('non-2xx branch without raise_for_status(): ' + un(st)[:120])
                    if st.orelse and always(st.body, param, depth) and always(st.orelse, param, depth):
                        return True
                    assert all(plain(x) for x in st.body + st.orelse), 'statement before raise_for_status(): ' + un(st)[:120]
                    continue
                assert plain(st), 'statement before raise_for_status(): ' + un(st)[:120]
            return False

        def raises_always(h):
            if h[0] != 'func':
                return False
            f = h[1]
            if f.decorator_list or len(f.args.args) != 1:
                return False
            return always(f.body, f.args.args[0].arg)
        assert any(raises_always(h) for h in hooks), [h[1].name if h[0] == 'func' else h[0] for h in hooks]
        return 'true'
    unsafe_default('s3HookRaisesOnNon2xx', 'Bool', hook_raises, 'false')
