"""Extractor plug-in for C01 / C15: DOES `restore` LOOK AT WHAT IS ALREADY AT THE DESTINATION?
Theorems: `restore_ignores_destination` (Properties/C01.lean) — the model's `restoreFile … old …` is proved to yield the file's bytes for
EVERY previous content `old` (`restore_file_exact`); that says something about the code only if the code computes what it writes without
inspecting `old`.  This plug-in establishes exactly that, by a small taint analysis over the AST of `Repository.restore`:

* tainted = the parameter of `restore` that names the destination (the one a `Path(<param>, …)` / `<param> / …` expression is built
  from: found structurally — the parameter that flows into the value later handed to the part writer), everything assigned from an
  expression that mentions a tainted name (locals, tuple targets, subscripted containers, loop targets over tainted containers),
  parameters of `self.<method>(…)` / nested / module functions that receive a tainted argument (followed transitively, nested functions
  share their enclosing scope);
* a FILE-SYSTEM QUERY = a call named `exists`, `is_file`, `is_dir`, `is_symlink`, `stat`, `lstat`, `getsize`, `getmtime`, `getatime`,
  `samefile`, `access`, `isfile`, `isdir`, `islink`, `lexists`, `scandir`, `listdir`, `iterdir`, `glob`, `read_bytes`, `read_text`,
  `readlink`, `fstat`, or an `open(…)` whose mode is absent or a read-only mode, with a tainted receiver or argument.  Calls on
  `self.backend.…` are the repository's objects, not the destination.

`restoreNeverInspectsDestination : Bool` is `true` iff at least one tainted value reaches the part writer / an `open` in a write mode
(the analysis saw the destination at all) and no file-system query on a tainted value exists.  Anything not understood (no destination
parameter found) ⇒ `false`, never a guessed `true`.  `restoreDestinationQueries : Nat` counts the offending calls (for the evidence).
"""
import ast

QUERY = {'exists', 'is_file', 'is_dir', 'is_symlink', 'stat', 'lstat', 'getsize', 'getmtime', 'getatime', 'getctime', 'samefile', 'access', 'isfile',
         'isdir', 'islink', 'lexists', 'scandir', 'listdir', 'iterdir', 'glob', 'rglob', 'read_bytes', 'read_text', 'readlink', 'fstat', 'is_mount',
         'walk'}
_FUNCS = (ast.FunctionDef, ast.AsyncFunctionDef)


def _names(e):
    return {n.id for n in ast.walk(e) if isinstance(n, ast.Name)}


def _targets(t):
    """names bound by an assignment / loop target; a subscript or attribute target binds its base container"""
    out = set()
    for n in ast.walk(t):
        if isinstance(n, ast.Name):
            out.add(n.id)
    return out


def _callee(call):
    f = call.func
    return f.attr if isinstance(f, ast.Attribute) else f.id if isinstance(f, ast.Name) else None


def _on_backend(call):
    """self.backend.<op>(…) (any depth below self.backend)"""
    f = call.func
    while isinstance(f, ast.Attribute):
        f = f.value
        if isinstance(f, ast.Attribute) and f.attr == 'backend' and isinstance(f.value, ast.Name) and f.value.id == 'self':
            return True
    return False


def _open_mode(call):
    """mode string of an open(...) / X.open(...) call, '' if absent, None if not a literal"""
    args = list(call.args)
    is_method = isinstance(call.func, ast.Attribute)
    idx = 0 if is_method else 1
    mode = None
    if len(args) > idx:
        mode = args[idx]
    for k in call.keywords:
        if k.arg == 'mode':
            mode = k.value
    if mode is None:
        return ''
    if isinstance(mode, ast.Constant) and isinstance(mode.value, str):
        return mode.value
    return None


class _Analysis:
    def __init__(self, cls, module):
        self.methods = {f.name: f for f in cls.body if isinstance(f, _FUNCS)}
        self.modfuncs = {f.name: f for f in module.body if isinstance(f, _FUNCS)}
        self.queries = []
        self.writes = 0
        self.done = set()

    def run(self, fn, tainted, depth=0):
        """fixed point of the taint inside `fn` (nested defs included: they share the scope), then the calls"""
        key = (id(fn), frozenset(tainted))
        if key in self.done or depth > 6:
            return
        self.done.add(key)
        tainted = set(tainted)
        for _ in range(8):
            before = len(tainted)
            for n in ast.walk(fn):
                if isinstance(n, (ast.Assign, ast.AnnAssign, ast.AugAssign, ast.NamedExpr)):
                    v = n.value
                    if v is not None and _names(v) & tainted:
                        tgts = n.targets if isinstance(n, ast.Assign) else [n.target]
                        for t in tgts:
                            tainted |= _targets(t)
                elif isinstance(n, (ast.For, ast.AsyncFor)) and _names(n.iter) & tainted:
                    tainted |= _targets(n.target)
                elif isinstance(n, ast.comprehension) and _names(n.iter) & tainted:
                    tainted |= _targets(n.target)
                elif isinstance(n, (ast.With, ast.AsyncWith)):
                    for it in n.items:
                        if it.optional_vars is not None and _names(it.context_expr) & tainted:
                            tainted |= _targets(it.optional_vars)
                elif isinstance(n, ast.Call) and _callee(n) in ('append', 'add', 'extend', 'update', 'setdefault', 'insert') and isinstance(n.func, ast.Attribute):
                    if any(_names(a) & tainted for a in n.args):
                        tainted |= _names(n.func.value)
            if len(tainted) == before:
                break
        tainted.discard('self')
        for n in ast.walk(fn):
            if not isinstance(n, ast.Call) or _on_backend(n):
                continue
            nm = _callee(n)
            recv = n.func.value if isinstance(n.func, ast.Attribute) else None
            touched = bool((recv is not None and _names(recv) & tainted) or any(_names(a) & tainted for a in list(n.args) + [k.value for k in n.keywords]))
            if not touched:
                continue
            if nm in QUERY:
                self.queries.append(f'{getattr(fn, "name", "?")}:{n.lineno}:{nm}')
            elif nm == 'open':
                mode = _open_mode(n)
                if mode is None or mode == '' or (('r' in mode) and '+' not in mode and 'w' not in mode and 'a' not in mode and 'x' not in mode):
                    self.queries.append(f'{getattr(fn, "name", "?")}:{n.lineno}:open({mode!r})')
                else:
                    self.writes += 1
            # follow the call into a method / module function of the same file
            callee = None
            if isinstance(n.func, ast.Attribute) and isinstance(n.func.value, ast.Name) and n.func.value.id == 'self' and nm in self.methods:
                callee, skip = self.methods[nm], 1
            elif isinstance(n.func, ast.Name) and nm in self.modfuncs:
                callee, skip = self.modfuncs[nm], 0
            if callee is not None:
                params = [a.arg for a in callee.args.posonlyargs + callee.args.args][skip:]
                sub = set()
                for p, a in zip(params, n.args):
                    if _names(a) & tainted:
                        sub.add(p)
                for k in n.keywords:
                    if k.arg and _names(k.value) & tainted:
                        sub.add(k.arg)
                if any(isinstance(a, ast.Starred) and _names(a) & tainted for a in n.args):
                    sub |= set(params)
                if sub:
                    self.run(callee, sub, depth + 1)
            # a tainted value handed to an executor / partial together with a function reference: follow the function with all parameters tainted
            for a in n.args:
                ref = None
                if isinstance(a, ast.Attribute) and isinstance(a.value, ast.Name) and a.value.id == 'self' and a.attr in self.methods:
                    ref, skip = self.methods[a.attr], 1
                if ref is not None:
                    params = [x.arg for x in ref.args.posonlyargs + ref.args.args][skip:]
                    self.run(ref, set(params), depth + 1)


def _destination_params(fn):
    """parameters of restore from which a Path is built (`Path(p, …)`, `p / …`, `os.path.join(p, …)`)"""
    params = {a.arg for a in fn.args.args + fn.args.kwonlyargs + fn.args.posonlyargs} - {'self'}
    out = set()
    for n in ast.walk(fn):
        if isinstance(n, ast.Call) and _callee(n) in ('Path', 'PurePath', 'join', 'joinpath') and n.args:
            first = n.args[0]
            if isinstance(first, ast.Name) and first.id in params:
                out.add(first.id)
        if isinstance(n, ast.BinOp) and isinstance(n.op, ast.Div) and isinstance(n.left, ast.Name) and n.left.id in params:
            out.add(n.left.id)
    return out


def section(ctx):
    emit, notes = ctx.emit, ctx.notes
    tree = ast.parse((ctx.REPO / 'replicat' / 'repository.py').read_text())
    cls = ctx.find_func(tree, 'Repository')
    fn = next((f for f in getattr(cls, 'body', []) if isinstance(f, _FUNCS) and f.name == 'restore'), None)
    if fn is None:
        notes['restoreplan'] = 'Repository.restore not found'
        emit('def restoreNeverInspectsDestination : Bool := false')
        emit('def restoreDestinationQueries : Nat := 0')
        return
    dest = _destination_params(fn)
    if not dest:
        notes['restoreplan'] = 'no parameter of restore is turned into a destination path'
        emit('def restoreNeverInspectsDestination : Bool := false')
        emit('def restoreDestinationQueries : Nat := 0')
        return
    an = _Analysis(cls, tree)
    an.run(fn, dest)
    if an.queries:
        notes['restoreplan.queries'] = 'restore inspects what is at the destination: ' + ', '.join(an.queries[:6])
    if not an.writes:
        notes['restoreplan.writes'] = 'no write-mode open of a destination-derived path was reached by the analysis'
    ok = not an.queries and an.writes > 0
    emit(f'def restoreNeverInspectsDestination : Bool := {"true" if ok else "false"}')
    emit(f'def restoreDestinationQueries : Nat := {len(an.queries)}')
    emit(f'def restoreDestinationWriteOpens : Nat := {an.writes}')
