"""C20 plug-in of the extractor: the file wrappers the commands put around a stream (lean/ReplicatModel/IOStack.lean).

Emits into `Replicat.Gen`:

* `ioWrapperTable : List (String × String × String × String)` — for `_RateLimitedFileWrapper` (whatever class
  `RateLimitedIO.wrap` returns), `TQDMIOReader`, `TQDMIOWriter` and tqdm's `CallbackIOWrapper` in its two modes, and for each of
  read / write / seek / tell / truncate: (class, method, the method of the WRAPPED object that receives the caller's arguments and
  whose result is returned, the calls made afterwards to tracker / limiter / callback).  `-` = the class has no such method,
  `?…` = not a plain delegation (arguments changed, result changed, several calls, calls made although the wrapped call raised).
  The rows are obtained by PROBING the classes of the tree under test (in /venv/bin/python) over a recording stream, a
  recording tracker and a recording limiter — what a method does, not how it is spelled; renaming / reordering / an explicit
  signature instead of *args change nothing.
* `ioStackSites : List (String × List String)` — for snapshot / restore / upload_objects / download_objects the wrappers around
  the stream handed to the backend, outermost first (`limiter?` = present only when a rate limit is given), read off the AST of
  repository.py by following the first argument of `TQDMIOReader(…)` / `TQDMIOWriter(…)` back through the assignments.
* `ioIterChunksShape : String` — `iter(lambda: file.read(chunk_size), b'')` probed: `read-until-empty` when, on a scripted stream
  with short and full pieces, every piece is passed on, the loop stops at the first empty piece and asks for `chunk_size` each time.

Theorem C20.iostack_source_facts compares them (by `decide`) with the tables rendered from the model.
"""
import ast
import json
import os
import subprocess
import sys

COMMANDS = ('snapshot', 'restore', 'upload_objects', 'download_objects')

CHILD = r'''
import sys, json, io
repo = sys.argv[1]
sys.path.insert(0, repo)
from replicat import utils
from tqdm.utils import CallbackIOWrapper

R_BYTES = b'\x01' * 5      # what the recording stream's read returns
R_NUM = 41                 # what its write / seek / tell / truncate return
DATA = b'abc'

class Boom(ValueError):
    pass

class Rec:
    def __init__(self, log, fail=False):
        self._log, self._fail = log, fail
    def _do(self, name, args, kwargs, ret):
        self._log.append(('u', name, list(args), dict(kwargs)))
        if self._fail:
            raise Boom()
        return ret
    def read(self, *a, **k): return self._do('read', a, k, R_BYTES)
    def write(self, *a, **k): return self._do('write', a, k, R_NUM)
    def seek(self, *a, **k): return self._do('seek', a, k, R_NUM)
    def tell(self, *a, **k): return self._do('tell', a, k, R_NUM)
    def truncate(self, *a, **k): return self._do('truncate', a, k, R_NUM)
    def close(self): pass

class Shim:
    @staticmethod
    def perf_counter(): return 0.0
    @staticmethod
    def monotonic(): return 0.0
    @staticmethod
    def time(): return 0.0
    @staticmethod
    def sleep(x): pass

def make(kind, log, fail):
    rec = Rec(log, fail)
    if kind == 'limiter':
        rl = utils.RateLimitedIO(1)
        rl.pause_reads = lambda *a, **k: log.append(('limiter', 'pause_reads', list(a), dict(k)))
        rl.pause_writes = lambda *a, **k: log.append(('limiter', 'pause_writes', list(a), dict(k)))
        w = rl.wrap(rec)
        return w, type(w).__name__
    if kind in ('TQDMIOReader', 'TQDMIOWriter'):
        class T:
            def __init__(self, *a, **k): pass
            def update(self, *a, **k): log.append(('tracker', 'update', list(a), dict(k)))
            def reset(self, *a, **k): log.append(('tracker', 'reset', list(a), dict(k)))
            def close(self): pass
        old = utils.tqdm
        utils.tqdm = T
        try:
            w = getattr(utils, kind)(rec, desc='d', total=None, position=0, disable=True)
        finally:
            utils.tqdm = old
        return w, kind
    mode = kind.split(':')[1]
    return CallbackIOWrapper(lambda *a, **k: log.append(('callback', '', list(a), dict(k))), rec, mode), kind

DEFAULTS = {'read': [('size', -1)], 'write': [('data', None)], 'seek': [('offset', None), ('whence', 0)], 'tell': [], 'truncate': [('size', None)]}
ALIASES = {'n': 'size', 'b': 'data', 'pos': 'offset', 'cookie': 'offset', 'target': 'offset'}

def norm(name, args, kwargs):
    spec = DEFAULTS.get(name)
    if spec is None or len(args) > len(spec):
        return None
    vals = dict(spec)
    for (k, _), v in zip(spec, args):
        vals[k] = v
    for k, v in kwargs.items():
        k = ALIASES.get(k, k)
        if k not in vals:
            return None
        vals[k] = v
    out = [vals[k] for k, _ in spec]
    if name == 'read' and out[0] is None:
        out[0] = -1
    return [x.hex() if isinstance(x, bytes) else x for x in out]

PROBES = {
    'read': [((), {}), ((9,), {}), ((-1,), {}), ((0,), {}), ((None,), {})],
    'write': [((DATA,), {})],
    'seek': [((7,), {}), ((2, 1), {}), ((-6, 2), {}), ((0,), {}), ((0, 0), {})],
    'tell': [((), {})],
    'truncate': [((), {}), ((13,), {}), ((0,), {}), ((None,), {})],
}

def sym(v, meth):
    if isinstance(v, bool) or v is None:
        return 'None' if v is None else '?'
    if meth == 'read':
        return 'len(r)' if v == len(R_BYTES) else '?'
    if v == R_NUM:
        return 'r'
    if meth == 'write' and v == len(DATA):
        return 'len(data)'
    return '?'

def classify(kind, meth):
    codes = set()
    cname = kind
    for args, kwargs in PROBES[meth]:
        log = []
        w, cname = make(kind, log, False)
        try:
            fn = getattr(w, meth)
        except AttributeError:
            codes.add(('-', ''))
            continue
        try:
            ret = fn(*args, **kwargs)
        except AttributeError:
            codes.add(('-', '') if not log else ('?raises', ''))
            continue
        except Exception as e:
            codes.add(('?raises ' + type(e).__name__, ''))
            continue
        under = [e for e in log if e[0] == 'u']
        side = [e for e in log if e[0] != 'u']
        if len(under) != 1:
            codes.add(('?%d calls of the wrapped object' % len(under), ''))
            continue
        u = under[0]
        if log.index(u) != 0:
            codes.add(('?calls before the wrapped call', ''))
            continue
        if norm(u[1], u[2], u[3]) is None or norm(u[1], u[2], u[3]) != norm(meth, args, kwargs):
            codes.add(('?arguments changed', ''))
            continue
        expect = R_BYTES if u[1] == 'read' else R_NUM
        if not (type(ret) is type(expect) and ret == expect):
            codes.add(('?result changed', ''))
            continue
        eff = ';'.join('%s(%s)' % ('.'.join(x for x in (e[1 - 1], e[1]) if x), ','.join(sym(v, meth) for v in list(e[2]) + list(e[3].values()))) for e in side)
        # the wrapped call raises: the exception must come through, nothing may be told to tracker / limiter / callback
        log2 = []
        w2, _ = make(kind, log2, True)
        try:
            getattr(w2, meth)(*args, **kwargs)
            eff += '!swallows'
        except Boom:
            if any(e[0] != 'u' for e in log2) or len([e for e in log2 if e[0] == 'u']) != 1:
                eff += '!calls-on-error'
        except Exception as e:
            eff += '!other-exception'
        codes.add((u[1], eff))
    if len(codes) == 1:
        u, eff = codes.pop()
    else:
        u, eff = '?differs between calls: ' + ' | '.join(sorted('%s %s' % c for c in codes)), ''
    return [cname, meth, u, eff]

def iter_chunks_shape():
    script = [b'aaaa', b'bb', b'cccc', b'd', b'', b'zz', b'']
    asked = []
    class S:
        def read(self, *a, **k):
            asked.append((list(a), dict(k)))
            return script[len(asked) - 1] if len(asked) <= len(script) else b''
    try:
        got = list(utils.iter_chunks(S(), 4))
        got_kw = None
        asked_first = list(asked)
        del asked[:]
        got_kw = list(utils.iter_chunks(S(), chunk_size=4))
    except Exception as e:
        return '?raises ' + type(e).__name__
    if got != script[:4] or got_kw != script[:4]:
        return '?pieces ' + repr(got)[:80]
    if len(asked_first) != 5 or any(norm('read', a, k) != [4] for a, k in asked_first):
        return '?reads ' + repr(asked_first)[:80]
    return 'read-until-empty'

old_time = utils.time
utils.time = Shim
try:
    rows = []
    for kind in ('limiter', 'TQDMIOReader', 'TQDMIOWriter', 'CallbackIOWrapper:read', 'CallbackIOWrapper:write'):
        for meth in ('read', 'write', 'seek', 'tell', 'truncate'):
            try:
                rows.append(classify(kind, meth))
            except Exception as e:
                rows.append([kind, meth, '?probe failed ' + type(e).__name__, ''])
    shape = iter_chunks_shape()
finally:
    utils.time = old_time
print(json.dumps({'rows': rows, 'iter_chunks': shape}))
'''


def _probe(repo):
    py = '/venv/bin/python' if os.path.exists('/venv/bin/python') else sys.executable
    p = subprocess.run([py, '-c', CHILD, str(repo)], capture_output=True, text=True, timeout=120, cwd='/')
    if p.returncode != 0:
        raise RuntimeError('iostack probe: ' + p.stderr[-600:])
    return json.loads(p.stdout.strip().splitlines()[-1])


def _callee(node):
    """dotted name of a call's function, last two components"""
    f = node.func
    if isinstance(f, ast.Attribute):
        return f.attr
    if isinstance(f, ast.Name):
        return f.id
    return None


def _sites(repo):
    tree = ast.parse((repo / 'replicat' / 'repository.py').read_text())
    out = {}
    cls = next((n for n in tree.body if isinstance(n, ast.ClassDef) and n.name == 'Repository'), None)
    if cls is None:
        return out
    for meth in cls.body:
        if not isinstance(meth, (ast.FunctionDef, ast.AsyncFunctionDef)) or meth.name not in COMMANDS:
            continue
        assigns = {}
        for n in ast.walk(meth):
            if isinstance(n, ast.Assign) and len(n.targets) == 1 and isinstance(n.targets[0], ast.Name):
                assigns.setdefault(n.targets[0].id, []).append(n.value)
        chains = []
        for n in ast.walk(meth):
            if isinstance(n, ast.Call) and _callee(n) in ('TQDMIOReader', 'TQDMIOWriter') and n.args:
                chains.append([_callee(n)] + _follow(n.args[0], assigns, 0))
        uniq = []
        for c in chains:
            if c not in uniq:
                uniq.append(c)
        out[meth.name] = uniq[0] if len(uniq) == 1 else ['?%d different stacks' % len(uniq)]
    return out


def _follow(node, assigns, depth):
    """layers below an expression, outermost first; the innermost stream itself is not listed"""
    if depth > 8:
        return ['?depth']
    if isinstance(node, ast.Name):
        vals = assigns.get(node.id)
        if not vals:
            return []                       # a parameter / a name bound otherwise (with … as stream): the stream
        alts = []
        for v in vals:
            a = _follow(v, assigns, depth + 1)
            if a not in alts:
                alts.append(a)
        if len(alts) == 1:
            return alts[0]
        if len(alts) == 2:
            a, b = sorted(alts, key=len)
            if b[:1] == ['limiter'] and b[1:] == a:
                return ['limiter?'] + a     # `if rate_limiter is not None: x = rate_limiter.wrap(stream) else: x = stream`
        return ['?alternatives']
    if isinstance(node, ast.Call):
        name = _callee(node)
        if name == 'wrap' and len(node.args) == 1:
            return ['limiter'] + _follow(node.args[0], assigns, depth + 1)
        if name == 'CallbackIOWrapper' and len(node.args) >= 2:
            mode = 'read'
            if len(node.args) >= 3:
                mode = node.args[2].value if isinstance(node.args[2], ast.Constant) else '?'
            for k in node.keywords:
                if k.arg == 'method':
                    mode = k.value.value if isinstance(k.value, ast.Constant) else '?'
            return [f'CallbackIOWrapper:{mode}'] + _follow(node.args[1], assigns, depth + 1)
        return []                           # io.BytesIO(…), path.open(…): the stream
    return ['?expression']


def _s(x):
    return json.dumps(x, ensure_ascii=True)


def section(ctx):
    from pathlib import Path
    repo = Path(ctx.REPO)
    try:
        pr = _probe(repo)
        rows, shape = pr['rows'], pr['iter_chunks']
    except Exception as e:  # noqa: BLE001
        ctx.notes['iostack.probe'] = f'failed: {e!r}'[:300]
        rows, shape = None, '?probe failed'
    if rows is None:
        ctx.emit('opaque ioWrapperTable : List (String × String × String × String)')
    else:
        # the limiter's wrapper class is reported under the model's name whatever it is called in the source
        fixed = []
        for c, m, u, e in rows:
            if rows.index([c, m, u, e]) < 5:
                c = '_RateLimitedFileWrapper'
            fixed.append((c, m, u, e))
            if u.startswith('?') or '!' in e or '?' in e:
                ctx.notes[f'iostack.{c}.{m}'] = f'not a plain delegation: {u} {e}'.strip()
        ctx.emit('def ioWrapperTable : List (String × String × String × String) := [')
        ctx.emit(',\n'.join(f'  ({_s(c)}, {_s(m)}, {_s(u)}, {_s(e)})' for c, m, u, e in fixed))
        ctx.emit(']')
    try:
        sites = _sites(repo)
    except Exception as e:  # noqa: BLE001
        ctx.notes['iostack.sites'] = f'failed: {e!r}'[:300]
        sites = {}
    ctx.emit('def ioStackSites : List (String × List String) := [')
    ctx.emit(',\n'.join(f'  ({_s(c)}, [{", ".join(_s(x) for x in sites.get(c, ["?not found"]))}])' for c in COMMANDS))
    ctx.emit(']')
    for c in COMMANDS:
        if any(x.startswith('?') for x in sites.get(c, ['?'])):
            ctx.notes[f'iostack.site.{c}'] = f'stack not recognised: {sites.get(c)}'
    ctx.emit(f'def ioIterChunksShape : String := {_s(shape)}')
    if shape != 'read-until-empty':
        ctx.notes['iostack.iter_chunks'] = shape
