"""C18: where the snapshot cache is read / written / evicted, read from the AST of replicat/repository.py.

The model (`Repo.loadCandidatesC`, `CacheCmd.*`) has exactly this shape:
  * the cache is READ in one place, `_download_snapshot_threadsafe` (`cacheReadSites`), which is called only for paths the
    backend listing returned (`cacheLoadOverListing`: the single `run_in_executor(loader, _download_snapshot, path)` sits in the
    `async for path in self._aiter(self.backend.list_files, self.SNAPSHOT_PREFIX)` loop of `_load_snapshots`);
  * it is WRITTEN in the same function after the downloaded bytes were verified (`cacheStoreAfterVerify`);
  * `delete_snapshots` unlinks the entry of every snapshot it deletes (`deleteEvictsCache`).
(`cacheVerified` — the cached copy is compared with the expected digest before use — is emitted by the core extractor.)
Anything not recognised yields `false` / a different list and `Properties/C18.lean` stops compiling.
"""
import ast


def _methods(tree, cls):
    for n in ast.walk(tree):
        if isinstance(n, ast.ClassDef) and n.name == cls:
            return [m for m in n.body if isinstance(m, (ast.FunctionDef, ast.AsyncFunctionDef))]
    return []


def section(ctx):
    src = (ctx.REPO / 'replicat' / 'repository.py').read_text()
    tree = ast.parse(src)
    un = ctx.unparse
    read_sites, store_sites, dir_sites = [], [], []
    for m in _methods(tree, 'Repository'):
        for n in ast.walk(m):
            if isinstance(n, ast.Call) and un(n.func) == 'self._get_cached' and m.name not in read_sites:
                read_sites.append(m.name)
            if isinstance(n, ast.Call) and un(n.func) == 'self._store_cached' and m.name not in store_sites:
                store_sites.append(m.name)
            if isinstance(n, ast.Attribute) and un(n) == 'self._cache_directory' and m.name not in dir_sites:
                dir_sites.append(m.name)
    lst = lambda xs: '[' + ', '.join('"%s"' % x for x in sorted(xs)) + ']'  # noqa: E731
    ctx.emit(f'def cacheReadSites : List String := {lst(read_sites)}')
    ctx.emit(f'def cacheStoreSites : List String := {lst(store_sites)}')
    ctx.emit(f'def cacheDirSites : List String := {lst(dir_sites)}')
    # --- _load_snapshots: downloads are submitted only for listed paths
    ls = ctx.find_func(tree, 'Repository', '_load_snapshots')
    over_listing = False
    if ls is not None:
        submits = [n for n in ast.walk(ls) if isinstance(n, ast.Call) and un(n.func).endswith('run_in_executor')]
        loops = [n for n in ast.walk(ls) if isinstance(n, ast.AsyncFor)]
        good = [lp for lp in loops if un(lp.iter) == 'self._aiter(self.backend.list_files, self.SNAPSHOT_PREFIX)' and un(lp.target) == 'path']
        if len(submits) == 1 and len(good) == 1:
            inside = any(n is submits[0] for n in ast.walk(good[0]))
            args_ok = [un(a) for a in submits[0].args] == ['loader', '_download_snapshot', 'path']
            calls = [n for n in ast.walk(ls) if isinstance(n, ast.Call) and un(n.func) == 'self._download_snapshot_threadsafe']
            call_ok = len(calls) == 1 and un(calls[0].args[0]) == 'path'
            over_listing = inside and args_ok and call_ok
    if not over_listing:
        ctx.notes['cache.load'] = '_load_snapshots: download submission over the backend listing not recognised'
    ctx.emit(f'def cacheLoadOverListing : Bool := {"true" if over_listing else "false"}')
    # --- store only after verifying the download
    dst = ctx.find_func(tree, 'Repository', '_download_snapshot_threadsafe')
    ctx.fp('repository._get_cached', ctx.find_func(tree, 'Repository', '_get_cached'))
    ctx.fp('repository._store_cached', ctx.find_func(tree, 'Repository', '_store_cached'))
    ctx.fp('repository._delete_cached', ctx.find_func(tree, 'Repository', '_delete_cached'))
    store_ok = False
    if dst is not None:
        for n in ast.walk(dst):
            if isinstance(n, ast.If) and un(n.test) == 'contents is None':
                body = [un(x) for x in n.body]
                try:
                    i_dl = next(i for i, x in enumerate(body) if x == 'contents = self._download_threadsafe(path, loop=loop)')
                    i_vf = next(i for i, x in enumerate(body) if x.startswith('if self.props.hash_digest(contents) != expected_digest:') and 'raise ' in x)
                    i_st = next(i for i, x in enumerate(body) if x.startswith('if self._cache_directory is not None:') and 'self._store_cached(path, contents)' in x)
                    store_ok = i_dl < i_vf < i_st
                except StopIteration:
                    store_ok = False
    if not store_ok:
        ctx.notes['cache.store'] = '_download_snapshot_threadsafe: download → verify → store order not recognised'
    ctx.emit(f'def cacheStoreAfterVerify : Bool := {"true" if store_ok else "false"}')
    # --- delete_snapshots evicts
    ds = ctx.find_func(tree, 'Repository', 'delete_snapshots')
    evicts = False
    if ds is not None:
        for n in ast.walk(ds):
            if isinstance(n, ast.AsyncFunctionDef) and n.name == '_delete_snapshot':
                body = [un(x) for x in n.body]
                evicts = (len(body) >= 2 and body[0] == 'await self._delete(location)'
                          and body[1].startswith('if self._cache_directory is not None:') and 'self._delete_cached(location)' in body[1])
    ctx.emit(f'def deleteEvictsCache : Bool := {"true" if evicts else "false"}')
