"""C18: where the snapshot cache is read / written / evicted, read from the AST of replicat/repository.py.

The model (`Repo.loadCandidatesC`, `CacheCmd.*`) has exactly this shape:
  * the cache is READ in one place, `_download_snapshot_threadsafe` (`cacheReadSites`), which is called only for paths the
    backend listing returned (`cacheLoadOverListing`: the single `run_in_executor(loader, _download_snapshot, path)` sits in the
    `async for path in self._aiter(self.backend.list_files, self.SNAPSHOT_PREFIX)` loop of `_load_snapshots`);
  * it is WRITTEN in the same function after the downloaded bytes were verified (`cacheStoreAfterVerify`);
  * `delete_snapshots` unlinks the entry of every snapshot it deletes (`deleteEvictsCache`).
(`cacheVerified` — the cached copy is compared with the expected digest before use — is emitted by the core extractor.)
Anything not recognised yields `false` / a different list and `Properties/C18.lean` stops compiling.
"""
import ast


def _methods(tree, cls):
    for n in ast.walk(tree):
        if isinstance(n, ast.ClassDef) and n.name == cls:
            return [m for m in n.body if isinstance(m, (ast.FunctionDef, ast.AsyncFunctionDef))]
    return []


def section(ctx):
    src = (ctx.REPO / 'replicat' / 'repository.py').read_text()
    tree = ast.parse(src)
    un = ctx.unparse
    read_sites, store_sites, dir_sites = [], [], []
    for m in _methods(tree, 'Repository'):
        for n in ast.walk(m):
            if isinstance(n, ast.Call) and un(n.func) == 'self._get_cached' and m.name not in read_sites:
                read_sites.append(m.name)
            if isinstance(n, ast.Call) and un(n.func) == 'self._store_cached' and m.name not in store_sites:
                store_sites.append(m.name)
            if isinstance(n, ast.Attribute) and un(n) == 'self._cache_directory' and m.name not in dir_sites:
                dir_sites.append(m.name)
    lst = lambda xs: '[' + ', '.join('"%s"' % x for x in sorted(xs)) + ']'  # noqa: E731
    ctx.emit(f'def cacheReadSites : List String := {lst(read_sites)}')
    ctx.emit(f'def cacheStoreSites : List String := {lst(store_sites)}')
    ctx.emit(f'def cacheDirSites : List String := {lst(dir_sites)}')
    # --- _load_snapshots: downloads are submitted only for listed paths
    ls = ctx.find_func(tree, 'Repository', '_load_snapshots')
    over_listing = False
    if ls is not None:
        submits = [n for n in ast.walk(ls) if isinstance(n, ast.Call) and un(n.func).endswith('run_in_executor')]
        loops = [n for n in ast.walk(ls) if isinstance(n, ast.AsyncFor)]
        good = [lp for lp in loops if un(lp.iter) == 'self._aiter(self.backend.list_files, self.SNAPSHOT_PREFIX)' and un(lp.target) == 'path']
        if len(submits) == 1 and len(good) == 1:
            inside = any(n is submits[0] for n in ast.walk(good[0]))
            args_ok = [un(a) for a in submits[0].args] == ['loader', '_download_snapshot', 'path']
            calls = [n for n in ast.walk(ls) if isinstance(n, ast.Call) and un(n.func) == 'self._download_snapshot_threadsafe']
            call_ok = len(calls) == 1 and un(calls[0].args[0]) == 'path'
            over_listing = inside and args_ok and call_ok
    if not over_listing:
        ctx.notes['cache.load'] = '_load_snapshots: download submission over the backend listing not recognised'
    ctx.emit(f'def cacheLoadOverListing : Bool := {"true" if over_listing else "false"}')
    # --- store only after verifying the download
    dst = ctx.find_func(tree, 'Repository', '_download_snapshot_threadsafe')
    ctx.fp('repository._get_cached', ctx.find_func(tree, 'Repository', '_get_cached'))
    ctx.fp('repository._store_cached', ctx.find_func(tree, 'Repository', '_store_cached'))
    ctx.fp('repository._delete_cached', ctx.find_func(tree, 'Repository', '_delete_cached'))
    store_ok = False
    if dst is not None:
        for n in ast.walk(dst):
            if isinstance(n, ast.If) and un(n.test) == 'contents is None':
                body = [un(x) for x in n.body]
                try:
                    i_dl = next(i for i, x in enumerate(body) if x == 'contents = self._download_threadsafe(path, loop=loop)')
                    i_vf = next(i for i, x in enumerate(body) if x.startswith('if self.props.hash_digest(contents) != expected_digest:') and 'raise ' in x)
                    i_st = next(i for i, x in enumerate(body) if x.startswith('if self._cache_directory is not None:') and 'self._store_cached(path, contents)' in x)
                    store_ok = i_dl < i_vf < i_st
                except StopIteration:
                    store_ok = False
    if not store_ok:
        ctx.notes['cache.store'] = '_download_snapshot_threadsafe: download → verify → store order not recognised'
    ctx.emit(f'def cacheStoreAfterVerify : Bool := {"true" if store_ok else "false"}')
    # --- delete_snapshots evicts
    ds = ctx.find_func(tree, 'Repository', 'delete_snapshots')
    evicts = False
    if ds is not None:
        for n in ast.walk(ds):
            if isinstance(n, ast.AsyncFunctionDef) and n.name == '_delete_snapshot':
                body = [un(x) for x in n.body]
                evicts = (len(body) >= 2 and body[0] == 'await self._delete(location)'
                          and body[1].startswith('if self._cache_directory is not None:') and 'self._delete_cached(location)' in body[1])
    ctx.emit(f'def deleteEvictsCache : Bool := {"true" if evicts else "false"}')
    _store_plan(ctx, tree)


# ---------------------------------------------------------------------------------------------------------------------------
# `_store_cached` as a sequence of file-system operations on (entry | temporary next to it)   → `CacheCmd.storePlan`
#
# A small symbolic reading of the method body: variables are bound to the entry path, to a temporary derived from it, or to a
# stream opened on one of them; each recognised statement contributes operations.  `except` handlers are NOT part of the plan
# (a hard kill runs none of them; on a Python-level exception the command fails anyway); `finally` bodies are.
# Anything not recognised ⇒ `cacheStoreRecognised = false` and the theorems about the plan stop compiling.
_UNIQUE_HINTS = ('uuid', 'getpid', 'get_ident', 'token_hex', 'token_urlsafe', 'random', 'secrets', 'time_ns', 'monotonic',
                 'mkstemp', 'mktemp', 'NamedTemporaryFile', 'urandom')


def _store_plan(ctx, tree):
    un = ctx.unparse
    fn = ctx.find_func(tree, 'Repository', '_store_cached')
    ops, ok, why = [], True, ''
    env = {}                 # variable -> ('path', slot) | ('stream', slot)
    unique = {'v': None}     # is the temporary's name unique to the run?

    def bad(msg):
        nonlocal ok, why
        if ok:
            ok, why = False, msg

    def kw(call, name, default):
        for k in call.keywords:
            if k.arg == name:
                if isinstance(k.value, ast.Constant):
                    return k.value.value
                bad(f'non-literal {name}= in {un(call)}')
        return default

    def path_slot(e):
        """expression → 'entry' | 'temp' | None (not a path we know)"""
        if isinstance(e, ast.Name) and env.get(e.id, ('', ''))[0] == 'path':
            return env[e.id][1]
        if isinstance(e, ast.Call) and un(e.func) in ('str', 'os.fspath', 'Path', 'os.fsencode') and len(e.args) == 1:
            return path_slot(e.args[0])
        if isinstance(e, ast.Call) and un(e.func) == 'Path' and [un(a) for a in e.args] == ['self._cache_directory', 'path']:
            return 'entry'
        if isinstance(e, ast.BinOp) and isinstance(e.op, ast.Div) and un(e) in ('Path(self._cache_directory) / path', 'self._cache_directory / path'):
            return 'entry'
        # a sibling derived from a known path: with_name / with_suffix / parent / '…'  / str(path) + '…'
        if isinstance(e, ast.Call) and isinstance(e.func, ast.Attribute) and e.func.attr in ('with_name', 'with_suffix', 'with_stem') \
                and path_slot(e.func.value) is not None:
            return derived(e)
        if isinstance(e, ast.BinOp) and isinstance(e.op, ast.Div) and isinstance(e.left, ast.Attribute) and e.left.attr == 'parent' \
                and path_slot(e.left.value) is not None:
            return derived(e)
        if isinstance(e, ast.BinOp) and isinstance(e.op, ast.Add) and path_slot(e.left) is not None:
            return derived(e)
        return None

    def derived(e):
        u = any(h in un(e) for h in _UNIQUE_HINTS)
        if unique['v'] is not None and unique['v'] != u:
            bad('two kinds of temporaries')
        unique['v'] = u
        return 'temp'

    def open_call(e):
        """`X.open(mode)` / `open(X, mode)` / `io.open(X, mode)` → (slot, mode) | None"""
        if not isinstance(e, ast.Call):
            return None
        if isinstance(e.func, ast.Attribute) and e.func.attr == 'open' and path_slot(e.func.value) is not None:
            mode = e.args[0] if e.args else next((k.value for k in e.keywords if k.arg == 'mode'), ast.Constant('r'))
            return path_slot(e.func.value), mode
        if un(e.func) in ('open', 'io.open') and e.args and path_slot(e.args[0]) is not None:
            mode = e.args[1] if len(e.args) > 1 else next((k.value for k in e.keywords if k.arg == 'mode'), ast.Constant('r'))
            return path_slot(e.args[0]), mode
        return None

    def do_open(slot, mode, var):
        if not (isinstance(mode, ast.Constant) and isinstance(mode.value, str)):
            return bad('non-literal open mode')
        m = mode.value.replace('b', '').replace('+', '')
        if m not in ('w', 'x'):
            return bad(f'open mode {mode.value!r}')
        ops.append(('create', slot, '', m == 'x'))
        if var is not None:
            env[var] = ('stream', slot)

    def expr(e):
        """an expression statement"""
        if not isinstance(e, ast.Call):
            return bad('statement ' + un(e)[:60])
        f = e.func
        fname = un(f)
        if isinstance(f, ast.Attribute):
            recv = f.value
            if f.attr == 'mkdir' and isinstance(recv, ast.Attribute) and recv.attr == 'parent' and path_slot(recv.value) is not None:
                if kw(e, 'parents', False) is not True:
                    return bad('mkdir without parents=True')
                return ops.append(('mkdir', '', '', kw(e, 'exist_ok', False) is True))
            if f.attr == 'write_bytes' and path_slot(recv) is not None:
                ops.append(('create', path_slot(recv), '', False))
                return ops.append(('write', path_slot(recv), '', False))
            if f.attr in ('replace', 'rename') and path_slot(recv) is not None and e.args and path_slot(e.args[0]) is not None:
                return ops.append(('rename', path_slot(recv), path_slot(e.args[0]), False))
            if f.attr == 'unlink' and path_slot(recv) is not None:
                return ops.append(('unlink', path_slot(recv), '', kw(e, 'missing_ok', False) is True))
            if f.attr == 'write' and isinstance(recv, ast.Name) and env.get(recv.id, ('', ''))[0] == 'stream':
                return ops.append(('write', env[recv.id][1], '', False))
            if f.attr in ('flush', 'close') and isinstance(recv, ast.Name) and env.get(recv.id, ('', ''))[0] == 'stream':
                return None
        if fname in ('os.makedirs',) and e.args and isinstance(e.args[0], ast.Attribute) and e.args[0].attr == 'parent' \
                and path_slot(e.args[0].value) is not None:
            return ops.append(('mkdir', '', '', kw(e, 'exist_ok', False) is True))
        if fname in ('os.replace', 'os.rename') and len(e.args) == 2 and all(path_slot(a) is not None for a in e.args):
            return ops.append(('rename', path_slot(e.args[0]), path_slot(e.args[1]), False))
        if fname in ('os.unlink', 'os.remove') and len(e.args) == 1 and path_slot(e.args[0]) is not None:
            return ops.append(('unlink', path_slot(e.args[0]), '', False))
        if fname in ('os.fsync',) or fname.startswith('logger.'):
            return None
        return bad('statement ' + un(e)[:60])

    def block(stmts):
        for st in stmts:
            if not ok:
                return
            if isinstance(st, (ast.Assert, ast.Pass)) or (isinstance(st, ast.Expr) and isinstance(st.value, ast.Constant)):
                continue
            if isinstance(st, ast.Assign) and len(st.targets) == 1 and isinstance(st.targets[0], ast.Name):
                v = st.targets[0].id
                oc = open_call(st.value)
                if oc is not None:
                    do_open(oc[0], oc[1], v)
                elif path_slot(st.value) is not None:
                    env[v] = ('path', path_slot(st.value))
                else:
                    bad('assignment ' + un(st)[:60])
                continue
            if isinstance(st, ast.Expr):
                expr(st.value)
                continue
            if isinstance(st, ast.With):
                for it in st.items:
                    oc = open_call(it.context_expr)
                    if oc is not None:
                        do_open(oc[0], oc[1], it.optional_vars.id if isinstance(it.optional_vars, ast.Name) else None)
                    elif isinstance(it.context_expr, ast.Name) and env.get(it.context_expr.id, ('', ''))[0] == 'stream':
                        pass
                    else:
                        bad('with ' + un(it.context_expr)[:60])
                block(st.body)
                continue
            if isinstance(st, ast.Try):
                block(st.body)
                block(st.orelse)
                block(st.finalbody)
                continue
            if isinstance(st, ast.Return) and st.value is None:
                continue
            bad('statement ' + un(st)[:60])

    if fn is None:
        bad('_store_cached not found')
    else:
        block(fn.body)
    if ok and not ops:
        bad('no operation recognised')
    if not ok:
        ctx.notes['cache.store_plan'] = '_store_cached: ' + why
    row = lambda o: '("%s", "%s", "%s", %s)' % (o[0], o[1], o[2], 'true' if o[3] else 'false')  # noqa: E731
    ctx.emit('/-- the file-system operations of `_store_cached`, in order: (operation, slot, second slot, flag) -/')
    ctx.emit('def cacheStorePlanRaw : List (String × String × String × Bool) := [' + ', '.join(row(o) for o in (ops if ok else [])) + ']')
    ctx.emit(f'def cacheTempUnique : Bool := {"true" if unique["v"] else "false"}')
    ctx.emit(f'def cacheStoreRecognised : Bool := {"true" if ok else "false"}')
