"""C18: where the snapshot cache is read / written / evicted — read from replicat/repository.py by a small symbolic executor.

The model (`Repo.loadCandidatesC`, `CacheCmd.*`) has exactly this shape:
  * the cache is READ only while loading a snapshot whose path the backend listing returned (`cacheReadSites`,
    `cacheLoadOverListing`), and WRITTEN only there, after the downloaded bytes were verified (`cacheStoreSites`,
    `cacheStoreAfterVerify`);
  * `delete_snapshots` unlinks the entry of every snapshot it deletes, after the backend deletion (`deleteEvictsCache`);
  * nothing else is done with the cache directory (`cacheDirUses`);
  * a store is the sequence of file-system operations `cacheStorePlanRaw` (→ `CacheCmd.storePlan`).
(`cacheVerified` — the cached copy is compared with the expected digest before use — is emitted by the core extractor from the text
of `_download_snapshot_threadsafe`; `cacheHitVerified` below is the same fact read off the paths, offered as its replacement.)

None of this is recognised by the NAMES of private methods, locals or parameters, nor by the text of statements.  The section
  1. finds the attribute that `Repository.__init__` fills from its `cache_directory` parameter (public keyword of the constructor);
  2. indexes every function of the module (methods, nested functions, module-level functions) with a call graph (a reference to a
     function counts as a call);
  3. runs `_Interp`, a path-enumerating symbolic executor, over the functions concerned.  Values are abstract (`dir`, `entry key`,
     `temp key`, `parent`, `stream`, `bytes from cache/download`, `hash v`, `listed path`, symbols with identity …); every `if` /
     conditional expression / `and` / `or` / `assert` / `try` forks the path; facts that cannot change along a path (`the cache is
     enabled`, `hash(v) == e`, `x is None`, `entry exists`) are remembered, so `if a: X else: Y`, `if not a: Y else: X`, early
     returns, conditions hoisted into locals, De Morgan, `==`/`!=` with swapped branches all enumerate the same paths; calls to
     helpers that (transitively) touch the cache directory or the backend are inlined (self-methods, nested functions, lambdas,
     `functools.partial`, module-level functions; bounded depth), everything else returns a fresh symbol;
  4. reads the facts off the EVENTS of the paths (cache read / mkdir / create / write / rename / unlink, backend download / delete /
     listing, tests of the directory, escapes of the directory or of a path derived from it into code the executor does not know).
The only names relied upon are public API: `Repository`, its `cache_directory` keyword, `delete_snapshots`, `SNAPSHOT_PREFIX`,
`self.backend.{list_files, download, delete}`, `hash_digest`, and the standard library (`pathlib`, `os`, `open`, `contextlib.suppress`,
`functools.partial`, `run_in_executor` / `submit` / `map`, …).

Roles instead of method names: a function with a cache read / store is reported as `"snapshot-load"` when it is entered only from
the loop over the backend listing of `SNAPSHOT_PREFIX` (all its callers, transitively, lie on that way; it is private; no other
module of the package names it), otherwise by its own name — so `cacheReadSites = ["snapshot-load"]` says that there is no other
reader, whatever the helpers are called and however the code is split.

Unknown shapes never yield a guessed `true`: an aborted / exploded analysis, a use of the directory that is not classified, a loop
around a store, two different store sequences … all come out as `false` / an `escape:` / `aborted:` / `unvisited:` entry in the
lists, and `Properties/C18.lean` stops compiling.
"""
import ast
import os

_FUNC = (ast.FunctionDef, ast.AsyncFunctionDef)
_MAX_DEPTH = 7
_MAX_PATHS = 20000
_MAX_STEPS = 4000000
_UNIQUE_HINTS = ('uuid', 'getpid', 'get_ident', 'token_hex', 'token_urlsafe', 'random', 'secrets', 'time_ns', 'monotonic',
                 'mkstemp', 'mktemp', 'NamedTemporaryFile', 'urandom')
_LOAD_ROLE = 'snapshot-load'


# ---------------------------------------------------------------------------------------------------------------------------
# index of the module: functions, call graph, the cache-directory attribute
def _own(node):
    """nodes lexically inside `node`, not descending into nested functions / classes (those nodes themselves are yielded)"""
    stack = list(ast.iter_child_nodes(node))
    while stack:
        n = stack.pop()
        yield n
        if not isinstance(n, _FUNC + (ast.ClassDef,)):
            stack.extend(ast.iter_child_nodes(n))


class _Fn:
    def __init__(self, node, parent, cls):
        self.node, self.parent, self.cls = node, parent, cls
        self.name = node.name
        self.qual = (parent.qual + '.' if parent else '') + node.name
        a = node.args
        self.pos = [x.arg for x in a.posonlyargs + a.args]
        self.params = self.pos + [x.arg for x in a.kwonlyargs] + ([a.vararg.arg] if a.vararg else []) + ([a.kwarg.arg] if a.kwarg else [])
        self.children = {}
        self.is_gen = any(isinstance(n, (ast.Yield, ast.YieldFrom)) for n in _own(node))
        decos = [ast.unparse(d).split('.')[-1] for d in node.decorator_list]
        static = 'staticmethod' in decos
        self.is_property = cls and ('property' in decos or 'cached_property' in decos)
        if cls:
            self.self_name = self.pos[0] if self.pos and not static else None
        else:
            self.self_name = parent.self_name if parent is not None and parent.self_name not in self.params else None

    def __repr__(self):
        return f'<fn {self.qual}>'


class _Index:
    def __init__(self, tree, cls_name):
        self.funcs, self.module_funcs, self.methods, self.consts = [], {}, {}, {}
        for st in tree.body:
            if isinstance(st, _FUNC):
                self.module_funcs[st.name] = self._add(st, None, False)
            elif isinstance(st, ast.ClassDef) and st.name == cls_name:
                for m in st.body:
                    if isinstance(m, _FUNC):
                        self.methods[m.name] = self._add(m, None, True)
            elif isinstance(st, ast.Assign) and len(st.targets) == 1 and isinstance(st.targets[0], ast.Name):
                self.consts[st.targets[0].id] = None if st.targets[0].id in self.consts else st.value
        self.consts = {k: v for k, v in self.consts.items() if v is not None}
        # call graph (references count)
        self.callees = {f: set() for f in self.funcs}
        self.callers = {f: set() for f in self.funcs}
        for f in self.funcs:
            for n in _own(f.node):
                if isinstance(n, (ast.Name, ast.Attribute)) and isinstance(n.ctx, ast.Load):
                    g = self.resolve(f, n)
                    if g is not None and g is not f:
                        self.callees[f].add(g)
                        self.callers[g].add(f)
        # the attribute(s) holding the cache directory: what `__init__` (or a helper method it hands the argument to) assigns from
        # its `cache_directory` parameter;  init_fns: function -> its parameters that carry the directory
        self.cdir, self.init_fns = set(), {}
        init = self.methods.get('__init__')
        todo = [(init, {'cache_directory'})] if init is not None and 'cache_directory' in init.params else []
        while todo and len(self.init_fns) < 4:
            fn, tainted = todo.pop()
            tainted = set(tainted)
            self.init_fns[fn] = set(tainted)
            for _ in range(3):
                for n in _own(fn.node):
                    tgts, val = [], None
                    if isinstance(n, ast.Assign):
                        tgts, val = n.targets, n.value
                    elif isinstance(n, ast.AnnAssign) and n.value is not None:
                        tgts, val = [n.target], n.value
                    if val is None or not any(isinstance(x, ast.Name) and x.id in tainted for x in ast.walk(val)):
                        continue
                    for t in tgts:
                        if isinstance(t, ast.Name):
                            tainted.add(t.id)
                        elif isinstance(t, ast.Attribute) and isinstance(t.value, ast.Name) and t.value.id == fn.self_name:
                            self.cdir.add(t.attr)
            for n in _own(fn.node):
                if isinstance(n, ast.Call) and isinstance(n.func, ast.Attribute):
                    g = self.resolve(fn, n.func)
                    if g is None or g in self.init_fns or self.callers[g] - set(self.init_fns):
                        continue
                    names = g.pos[1:] if g.self_name else g.pos
                    carried = {names[i] for i, a in enumerate(n.args) if i < len(names) and isinstance(a, ast.Name) and a.id in tainted}
                    carried |= {k.arg for k in n.keywords if k.arg and isinstance(k.value, ast.Name) and k.value.id in tainted}
                    if carried:
                        todo.append((g, carried))
        # every node that names the directory attribute, with its function
        self.dir_nodes = {}
        owner = {}
        for f in self.funcs:
            for n in _own(f.node):
                owner[id(n)] = f
        for n in ast.walk(tree):
            if isinstance(n, ast.Attribute) and n.attr in self.cdir and isinstance(n.value, ast.Name):
                self.dir_nodes[id(n)] = owner.get(id(n))
        self.d0 = {f for f in self.dir_nodes.values() if f is not None}

    def _add(self, node, parent, cls):
        f = _Fn(node, parent, cls)
        self.funcs.append(f)
        for n in _own(node):
            if isinstance(n, _FUNC):
                f.children[n.name] = self._add(n, f, False)
        return f

    def resolve(self, fn, n):
        if isinstance(n, ast.Attribute):
            if isinstance(n.value, ast.Name) and fn.self_name is not None and n.value.id == fn.self_name:
                return self.methods.get(n.attr)
            return None
        f = fn
        while f is not None:
            if n.id in f.children:
                return f.children[n.id]
            f = f.parent
        return self.module_funcs.get(n.id)

    def mentions_backend(self, op):
        out = set()
        for f in self.funcs:
            for n in _own(f.node):
                if isinstance(n, ast.Attribute) and n.attr == op and isinstance(n.value, ast.Attribute) and n.value.attr == 'backend':
                    out.add(f)
        return out

    def reaches(self, targets):
        seen, todo = set(targets), list(targets)
        while todo:
            for c in self.callers[todo.pop()]:
                if c not in seen:
                    seen.add(c)
                    todo.append(c)
        return seen

    def closure(self, root):
        seen, todo = {root}, [root]
        while todo:
            for c in self.callees[todo.pop()]:
                if c not in seen:
                    seen.add(c)
                    todo.append(c)
        return seen


# ---------------------------------------------------------------------------------------------------------------------------
# the symbolic executor
class _Abort(Exception):
    pass


class _Return(Exception):
    def __init__(self, value):
        self.value = value


class _Raise(Exception):
    def __init__(self, name):
        self.name = name


class _UnknownExc(Exception):
    def __init__(self, handler):
        self.handler = handler


class _Break(Exception):
    pass


class _Continue(Exception):
    pass


class _Chooser:
    def __init__(self, prefix):
        self.prefix, self.trail = prefix, []

    def choose(self, n):
        i = len(self.trail)
        c = self.prefix[i] if i < len(self.prefix) else 0
        self.trail.append((c, n))
        return c


class _Frame:
    def __init__(self, fn, parent, env, static=False):
        self.fn, self.parent, self.env, self.static = fn, parent, env, static
        self.nonlocals = set()


NONE, DIR, SELF, UNK = ('none',), ('dir',), ('self',), ('unknown',)
_TRACKED = ('dir', 'entry', 'temp', 'parent', 'stream', 'dirstr')
_PATHLIKE = ('entry', 'temp')
_INTERESTING = _TRACKED + ('bytes', 'hash', 'listing', 'listed', 'coll', 'partial', 'lambda', 'backend', 'backendobj')
_FNF_SUPERS = ('FileNotFoundError', 'OSError', 'IOError', 'EnvironmentError', 'Exception', 'BaseException')
_SAFE_CALLS = ('logger.', 'logging.', 'print', 'warnings.warn')
_PATH_CTORS = ('Path', 'pathlib.Path', 'PurePath', 'pathlib.PurePath', 'PosixPath', 'pathlib.PosixPath', 'PurePosixPath',
               'pathlib.PurePosixPath', 'os.path.join')
_PATH_IDS = ('str', 'os.fspath', 'os.fsencode', 'os.fsdecode', 'os.path.abspath', 'os.path.realpath', 'os.path.normpath',
             'os.path.expanduser')


def _literalish(n):
    """a module-level constant worth evaluating: literals, names of other constants, tuples of those"""
    if isinstance(n, (ast.Constant, ast.Name)):
        return True
    if isinstance(n, (ast.Tuple, ast.List)):
        return all(_literalish(x) for x in n.elts)
    if isinstance(n, ast.UnaryOp):
        return _literalish(n.operand)
    if isinstance(n, ast.BinOp):
        return _literalish(n.left) and _literalish(n.right)
    return False


def _tracked(v):
    if not isinstance(v, tuple) or not v:
        return False
    if v[0] in _TRACKED:
        return True
    if v[0] in ('starred', 'coll') and len(v) > 1:
        return _tracked(v[1])
    if v[0] == 'tuple':
        return any(_tracked(x) for x in v[1])
    return False


def _uniq(v):
    return isinstance(v, tuple) and v[0] == 'sym' and len(v) > 2 and bool(v[2])


def _contains(v, w):
    if v == w:
        return True
    return isinstance(v, tuple) and any(_contains(x, w) for x in v if isinstance(x, tuple))


def _slot_key(s):
    """entry / temp / parent-of → the key the path was derived from"""
    while s[0] == 'parent':
        s = s[1]
    return s[1] if s[0] in _PATHLIKE else None


def _slot_name(s):
    return s[0] if s[0] in _PATHLIKE else ''


class _Interp:
    def __init__(self, ix, reach, leaky, chooser, relcache):
        self.ix, self.reach, self.leaky, self.ch, self.relcache = ix, reach, leaky, chooser, relcache
        self.facts, self.events, self.stack = {}, [], []
        self.loop, self.exc_fork, self.steps = 0, False, 0
        self.seen_dir, self.temp_unique = set(), set()
        self.ctx = ()
        self.cur_exc = []
        self.static_cache = {}
        self.static_busy = set()

    # ---- bookkeeping
    def tag(self, node, kind):
        return '%s@%d:%d' % (kind, getattr(node, 'lineno', 0), getattr(node, 'col_offset', 0)) + ''.join('<%d:%d' % c for c in self.ctx)

    def sym(self, node, kind='v', uniq=False):
        return ('sym', self.tag(node, kind), bool(uniq))

    def event(self, kind, node, **kw):
        fr = self.stack[-1]
        self.events.append(dict(kind=kind, node=node, site=fr.fn, stack=tuple(f.fn for f in self.stack), facts=dict(self.facts),
                                loop=self.loop, exc=self.exc_fork, **kw))

    def escape(self, node, what):
        self.event('escape', node, what=what)

    def fork(self, atom):
        """truth value of a fact that cannot change along a path"""
        if atom not in self.facts:
            self.facts[atom] = self.ch.choose(2) == 0
        return self.facts[atom]

    # ---- names
    def lookup(self, name, fr):
        f = last = fr
        while f is not None:
            if name in f.env:
                return f.env[name]
            last, f = f, f.parent
        if last.fn is not None and last.fn.self_name == name:
            return SELF
        fn = (last.fn if last.static else last.fn.parent) if last.fn is not None else None
        while fn is not None:
            v = self.static_name(fn, name)
            if v is not None:
                return v
            fn = fn.parent
        if name in self.ix.module_funcs:
            return ('func', self.ix.module_funcs[name], None)
        if name in self.ix.consts and _literalish(self.ix.consts[name]):
            key = (None, name)
            if key not in self.static_cache and key not in self.static_busy:
                self.static_busy.add(key)
                try:
                    self.static_cache[key] = self.ev(self.ix.consts[name], _Frame(None, None, {}))
                finally:
                    self.static_busy.discard(key)
            return self.static_cache.get(key, UNK)
        return ('global', name)

    def static_name(self, fn, name):
        """a free variable of a function analysed on its own: its binding in the enclosing function `fn` (flow-insensitive; only a
        single plain assignment is evaluated, anything else is an unknown symbol)"""
        key = (fn, name)
        if key in self.static_cache:
            return self.static_cache[key]
        if name == fn.self_name:
            return SELF
        if name in fn.children:
            return ('func', fn.children[name], None)
        if name in fn.params:
            return ('sym', 'param:%s.%s' % (fn.qual, name), False)
        plain, other = [], 0
        for n in _own(fn.node):
            if isinstance(n, ast.Assign) and any(isinstance(t, ast.Name) and t.id == name for t in n.targets):
                plain.append(n.value)
            elif isinstance(n, (ast.AnnAssign, ast.NamedExpr)) and isinstance(n.target, ast.Name) and n.target.id == name and n.value is not None:
                plain.append(n.value)
            elif isinstance(n, ast.Name) and n.id == name and isinstance(n.ctx, (ast.Store, ast.Del)):
                other += 1
        if not plain and not other:
            return None
        v = ('sym', 'outer:%s.%s' % (fn.qual, name), False)
        if len(plain) == 1 and other == 1 and key not in self.static_busy:
            self.static_busy.add(key)
            try:
                v = self.ev(plain[0], _Frame(fn, None, {}, static=True))
            finally:
                self.static_busy.discard(key)
        self.static_cache[key] = v
        return v

    def peek(self, name, fr):
        """like `lookup`, but never evaluates anything"""
        f = last = fr
        while f is not None:
            if name in f.env:
                return f.env[name]
            last, f = f, f.parent
        fn = (last.fn if last.static else last.fn.parent) if last.fn is not None else None
        while fn is not None:
            if (fn, name) in self.static_cache:
                return self.static_cache[(fn, name)]
            if name in fn.children:
                return ('func', fn.children[name], None)
            fn = fn.parent
        if name in self.ix.module_funcs:
            return ('func', self.ix.module_funcs[name], None)
        return UNK

    def assign_name(self, name, v, fr):
        f = fr
        if name in fr.nonlocals:
            f = fr.parent
            while f is not None and name not in f.env:
                f = f.parent
            f = f or fr
        f.env[name] = v

    def assign(self, target, v, fr, node):
        if isinstance(target, ast.Name):
            return self.assign_name(target.id, v, fr)
        if isinstance(target, (ast.Tuple, ast.List)):
            vals = v[1] if v[0] == 'tuple' and len(v[1]) == len(target.elts) and not any(isinstance(t, ast.Starred) for t in target.elts) else None
            for i, t in enumerate(target.elts):
                t2 = t.value if isinstance(t, ast.Starred) else t
                self.assign(t2, vals[i] if vals is not None else ('sym', self.tag(t2, 'unpack%d' % i), False), fr, node)
            return None
        if isinstance(target, ast.Attribute):
            base = self.ev(target.value, fr)
            if base == SELF and target.attr in self.ix.cdir:
                self.seen_dir.add(id(target))
                return self.event('init' if fr.fn in self.ix.init_fns else 'rebind', node)
            if _tracked(v):
                self.escape(node, 'stored into an attribute')
            return None
        if isinstance(target, ast.Subscript):
            self.ev(target.value, fr)
            self.ev(target.slice, fr)
            if _tracked(v):
                self.escape(node, 'stored into a container')
        return None

    # ---- conditions
    def none_test(self, v, node):
        """is `v` None?"""
        k = v[0]
        if k == 'none':
            return True
        if k == 'dir':
            self.event('test', node)
            return not self.fork(('enabled',))
        if k in ('sym', 'listed'):
            return self.fork(('isnone', v))
        if k in ('unknown', 'global', 'selfattr'):
            return self.ch.choose(2) == 1
        return False

    def eq_test(self, a, b, node):
        if a[0] == 'none' or b[0] == 'none':
            return self.none_test(b if a[0] == 'none' else a, node)
        if a[0] == 'const' and b[0] == 'const':
            try:
                return a[1] == b[1]
            except Exception:  # noqa: BLE001
                return self.ch.choose(2) == 0
        known = lambda v: not _contains(v, UNK) and v[0] != 'global'  # noqa: E731
        if a == b and known(a):
            return True
        if known(a) and known(b) and (a[0] == 'hash' or b[0] == 'hash'):
            return self.fork(('eq',) + tuple(sorted((a, b), key=repr)))
        return self.ch.choose(2) == 0

    def truthy(self, v, node):
        k = v[0]
        if k == 'none':
            return False
        if k == 'const':
            return bool(v[1])
        if k == 'dir':
            self.event('test', node)
            return self.fork(('enabled',))
        if k in ('entry', 'temp', 'parent', 'stream', 'func', 'method', 'lambda', 'partial', 'backend', 'backendobj', 'hash'):
            return True
        return self.ch.choose(2) == 0

    def cond(self, e, fr):
        if isinstance(e, ast.BoolOp):
            if isinstance(e.op, ast.And):
                return all(self.cond(x, fr) for x in e.values)
            return any(self.cond(x, fr) for x in e.values)
        if isinstance(e, ast.UnaryOp) and isinstance(e.op, ast.Not):
            return not self.cond(e.operand, fr)
        if isinstance(e, ast.Compare):
            left = self.ev(e.left, fr)
            res = True
            for op, right_e in zip(e.ops, e.comparators):
                right = self.ev(right_e, fr)
                if not res:
                    continue
                if isinstance(op, (ast.Is, ast.Eq)):
                    r = self.none_test(left, e) if right[0] == 'none' and isinstance(op, ast.Is) else self.eq_test(left, right, e)
                elif isinstance(op, (ast.IsNot, ast.NotEq)):
                    r = not (self.none_test(left, e) if right[0] == 'none' and isinstance(op, ast.IsNot) else self.eq_test(left, right, e))
                else:
                    if _tracked(left) or _tracked(right):
                        self.escape(e, 'compared')
                    r = self.ch.choose(2) == 0
                res = res and r
                left = right
            return res
        if isinstance(e, ast.Constant):
            return bool(e.value)
        return self.truthy(self.ev(e, fr), e)

    # ---- expressions
    def ev(self, e, fr):
        self.steps += 1
        if self.steps > _MAX_STEPS:
            raise _Abort('too many steps')
        m = getattr(self, 'ev_' + type(e).__name__, None)
        if m is not None:
            return m(e, fr)
        # generic: evaluate the sub-expressions for their events, result is a symbol
        uq = False
        for ch in ast.iter_child_nodes(e):
            if isinstance(ch, ast.expr):
                v = self.ev(ch, fr)
                uq = uq or _uniq(v)
                if _tracked(v) and not isinstance(e, (ast.JoinedStr, ast.FormattedValue)):
                    self.escape(e, 'used in ' + type(e).__name__)
            elif isinstance(ch, ast.comprehension):
                raise _Abort('comprehension inside ' + type(e).__name__)
        return self.sym(e, 'x', uq)

    def ev_Constant(self, e, fr):
        return NONE if e.value is None else ('const', e.value)

    def ev_Name(self, e, fr):
        return self.lookup(e.id, fr)

    def ev_JoinedStr(self, e, fr):
        uq, vals = False, []
        for ch in e.values:
            v = self.ev(ch.value, fr) if isinstance(ch, ast.FormattedValue) else ('const', ch.value)
            vals.append(v)
            uq = _uniq(v) or uq
        if not any(_tracked(v) for v in vals):
            return self.sym(e, 's', uq)
        # f'{directory}/{key}' is the entry of key; f'{entry}.suffix' a sibling of the entry; anything else: a string that carries the
        # directory (harmless in a log message, an escape anywhere else)
        if len(vals) == 3 and vals[0][0] == 'dir' and vals[1] in (('const', '/'), ('const', os.sep)) and not _tracked(vals[2]):
            return ('entry', vals[2])
        if vals[0][0] in _PATHLIKE and not any(_tracked(v) for v in vals[1:]):
            return self.derived(vals[0], e, uq)
        return ('dirstr',)

    def ev_Await(self, e, fr):
        return self.ev(e.value, fr)

    def ev_Starred(self, e, fr):
        return ('starred', self.ev(e.value, fr))

    def ev_Tuple(self, e, fr):
        return ('tuple', tuple(self.ev(x, fr) for x in e.elts))

    ev_List = ev_Tuple

    def ev_Lambda(self, e, fr):
        return ('lambda', e, fr)

    def ev_NamedExpr(self, e, fr):
        v = self.ev(e.value, fr)
        self.assign(e.target, v, fr, e)
        return v

    def ev_IfExp(self, e, fr):
        return self.ev(e.body, fr) if self.cond(e.test, fr) else self.ev(e.orelse, fr)

    def ev_Compare(self, e, fr):
        return ('const', self.cond(e, fr))

    def ev_UnaryOp(self, e, fr):
        if isinstance(e.op, ast.Not):
            return ('const', not self.cond(e.operand, fr))
        self.ev(e.operand, fr)
        return self.sym(e)

    def ev_BoolOp(self, e, fr):
        v = NONE
        for i, x in enumerate(e.values):
            v = self.ev(x, fr)
            if i == len(e.values) - 1:
                break
            t = self.truthy(v, x)
            if t != isinstance(e.op, ast.And):
                break
        return v

    def ev_Yield(self, e, fr):
        if e.value is not None:
            v = self.ev(e.value, fr)
            if _tracked(v):
                self.escape(e, 'yielded')
        return self.sym(e)

    def ev_Attribute(self, e, fr):
        return self.attr_of(self.ev(e.value, fr), e, fr)

    def attr_of(self, base, e, fr):
        a = e.attr
        if a == 'hash_digest':
            return ('hashfn',)
        if base == SELF:
            if a in self.ix.cdir:
                self.seen_dir.add(id(e))
                return DIR
            if a == 'backend':
                return ('backendobj',)
            if a in self.ix.methods:
                m = self.ix.methods[a]
                return self.invoke(e, ('method', m), [], {}, fr) if m.is_property else ('method', m)
            if a.isupper():
                return ('clsconst', a)
            return ('selfattr', a)
        if a in self.ix.cdir and isinstance(e.value, ast.Name):
            self.seen_dir.add(id(e))
            self.escape(e, 'directory of another object')
            return UNK
        k = base[0]
        if k == 'backendobj':
            return ('backend', a)
        if k in _PATHLIKE or k == 'parent':
            if a == 'parent':
                return ('parent', base)
            return self.sym(e, 'part')
        if k == 'dir':
            if a in ('name', 'stem', 'suffix', 'parts'):
                return self.sym(e, 'part')
            return ('dirattr', a)
        if k == 'global':
            return ('global', base[1] + '.' + a)
        if k == 'stream':
            return ('streamattr', base, a)
        return self.sym(e, 'attr', _uniq(base))

    def ev_BinOp(self, e, fr):
        left, right = self.ev(e.left, fr), self.ev(e.right, fr)
        if isinstance(e.op, ast.Div):
            if left[0] == 'dir':
                return ('entry', right)
            if left[0] == 'parent' and left[1][0] in _PATHLIKE:
                return self.derived(left[1], e, _uniq(right))
            if left[0] in _PATHLIKE:
                self.escape(e, 'path below a cache entry')
                return self.sym(e)
        if isinstance(e.op, ast.Add) and left[0] in _PATHLIKE:
            return self.derived(left, e, _uniq(right))
        if _tracked(left) or _tracked(right):
            self.escape(e, 'arithmetic on a cache path')
        return self.sym(e, 'x', _uniq(left) or _uniq(right))

    def derived(self, slot, e, uq):
        """a sibling of an entry: the temporary of a store"""
        text = ast.unparse(e)
        self.temp_unique.add(bool(uq) or any(h in text for h in _UNIQUE_HINTS))
        return ('temp', _slot_key(slot))

    def comp(self, e, fr, elts):
        inner = _Frame(fr.fn, fr, {})
        self.loop += 1
        try:
            for g in e.generators:
                it = self.ev(g.iter, inner if g is not e.generators[0] else fr)
                self.assign(g.target, self.elem(it, g.target), inner, e)
                for c in g.ifs:
                    self.cond(c, inner)
            return [self.ev(x, inner) for x in elts]
        finally:
            self.loop -= 1

    def ev_ListComp(self, e, fr):
        return ('coll', self.comp(e, fr, [e.elt])[0])

    ev_SetComp = ev_GeneratorExp = ev_ListComp

    def ev_DictComp(self, e, fr):
        k, v = self.comp(e, fr, [e.key, e.value])
        return ('coll', ('tuple', (k, v)))

    def elem(self, it, node):
        if it[0] == 'listing':
            return ('listed', self.tag(node, 'listed')) if it[1] == ('clsconst', 'SNAPSHOT_PREFIX') else ('sym', self.tag(node, 'otherlisting'), False)
        if it[0] == 'coll':
            return it[1]
        if _tracked(it):
            self.escape(node, 'iterated')
        return ('sym', self.tag(node, 'elem'), False)

    # ---- calls
    def kwconst(self, e, kwargs, name, default):
        v = kwargs.get(name)
        if v is None:
            return default
        if v[0] == 'none':
            return None
        if v[0] == 'const':
            return v[1]
        raise _Abort('%s= is not a constant in %s' % (name, ast.unparse(e)[:60]))

    def ev_Call(self, e, fr):
        f = e.func
        recv = None
        if isinstance(f, ast.Attribute):
            recv = self.ev(f.value, fr)
            fval = self.attr_of(recv, f, fr)
        else:
            fval = self.ev(f, fr)
        args = [self.ev(a, fr) for a in e.args]
        kwargs = {k.arg: self.ev(k.value, fr) for k in e.keywords}
        fname = fval[1] if fval[0] == 'global' else None
        attr = f.attr if isinstance(f, ast.Attribute) else None
        allv = args + list(kwargs.values())
        if fval[0] == 'hashfn':
            return ('hash', args[0] if args else UNK)
        if fname is not None and fname.endswith('compare_digest') and len(args) == 2:
            return ('const', self.eq_test(args[0], args[1], e))
        # --- backend operations (directly or handed to a wrapper together with their argument)
        if fval[0] == 'backend':
            return self.backend_op(e, fval[1], args[0] if args else kwargs.get('prefix', UNK))
        for i, a in enumerate(args):
            if a[0] == 'backend':
                return self.backend_op(e, a[1], args[i + 1] if i + 1 < len(args) else kwargs.get('prefix', UNK))
        # --- paths
        if fname in _PATH_CTORS and args:
            a0 = args[0]
            if a0[0] == 'dir':
                if len(args) == 1:
                    return DIR
                return ('entry', args[1] if len(args) == 2 else ('join', tuple(args[1:])))
            if a0[0] in _PATHLIKE + ('parent',):
                if len(args) == 1:
                    return a0
                if a0[0] == 'parent' and a0[1][0] in _PATHLIKE:
                    return self.derived(a0[1], e, any(_uniq(x) for x in args[1:]))
                self.escape(e, 'path below a cache entry')
                return self.sym(e)
            if any(_tracked(a) for a in allv):
                self.escape(e, 'cache path inside another path')
            return self.sym(e)
        if fname in _PATH_IDS and args and _tracked(args[0]):
            return args[0]
        if fname == 'os.path.dirname' and args and args[0][0] in _PATHLIKE:
            return ('parent', args[0])
        if fname in ('open', 'io.open') and args and _tracked(args[0]):
            return self.do_open(e, args[0], args[1] if len(args) > 1 else kwargs.get('mode'))
        if fname in ('os.unlink', 'os.remove') and args and _tracked(args[0]):
            return self.do_unlink(e, args[0], False)
        if fname in ('os.replace', 'os.rename') and len(args) == 2 and (_tracked(args[0]) or _tracked(args[1])):
            return self.do_rename(e, args[0], args[1])
        if fname in ('os.makedirs', 'os.mkdir') and args and _tracked(args[0]):
            return self.do_mkdir(e, args[0], fname == 'os.makedirs', self.kwconst(e, kwargs, 'exist_ok', False) is True)
        if fname in ('os.path.exists', 'os.path.isfile', 'os.path.lexists') and args and args[0][0] in _PATHLIKE:
            return ('const', self.present(e, args[0]))
        if fname in ('os.fsync', 'os.fdatasync'):
            return NONE
        # --- methods of tracked values
        if recv is not None and recv[0] in _TRACKED:
            return self.tracked_method(e, recv, attr, args, kwargs)
        # --- handing a callable to an executor / the event loop / functools
        if attr == 'run_in_executor' and len(args) >= 2:
            return self.submit(e, args[1], args[2:], {}, fr)
        if fname == 'asyncio.to_thread' and args:
            return self.submit(e, args[0], args[1:], kwargs, fr)
        if attr == 'submit' and args and args[0][0] in ('func', 'method', 'lambda', 'partial'):
            return self.submit(e, args[0], args[1:], kwargs, fr)
        if fname in ('functools.partial', 'partial') and args:
            return ('partial', args[0], tuple(args[1:]), tuple(sorted(kwargs.items(), key=lambda kv: str(kv[0]))))
        if (fname == 'map' or attr == 'map') and len(args) >= 2 and args[0][0] in ('func', 'method', 'lambda', 'partial'):
            self.loop += 1
            try:
                return ('coll', self.invoke(e, args[0], [self.elem(a, e) for a in args[1:]], {}, fr))
            finally:
                self.loop -= 1
        if fval[0] in ('func', 'method', 'lambda', 'partial'):
            return self.invoke(e, fval, args, kwargs, fr)
        if fname in ('list', 'tuple', 'set', 'frozenset', 'sorted', 'reversed', 'iter') and len(args) >= 1 and args[0][0] in ('coll', 'listing'):
            return args[0]
        if fname is not None and fname.startswith(_SAFE_CALLS):
            return NONE
        if any(_tracked(a) for a in allv):
            self.escape(e, 'passed to ' + ast.unparse(f)[:40])
        for a in allv:
            if a[0] == 'bytes':
                self.event('consume', e, data=a)
        text = fname or ast.unparse(f)
        return self.sym(e, 'call', any(h in text for h in _UNIQUE_HINTS) or any(_uniq(a) for a in allv))

    def backend_op(self, e, op, key):
        self.event('b' + op, e, key=key)
        if op == 'download':
            return ('bytes', 'download', key, self.tag(e, 'dl'))
        if op == 'list_files':
            return ('listing', key)
        return self.sym(e, 'backend')

    def submit(self, e, fval, args, kwargs, fr):
        self.event('submit', e, callee=fval, args=tuple(args))
        return self.invoke(e, fval, list(args), kwargs, fr)

    def present(self, e, slot):
        self.event('test', e)
        return self.fork(('present', slot))

    def do_open(self, e, slot, mode):
        if slot[0] not in _PATHLIKE:
            self.escape(e, 'opened')
            return self.sym(e)
        if mode is None:
            mode = ('const', 'r')
        if not (mode[0] == 'const' and isinstance(mode[1], str)):
            raise _Abort('open mode is not a constant')
        m = mode[1].replace('b', '').replace('t', '')
        if m == 'r':
            self.do_read(e, slot)
            return ('stream', slot, 'r')
        if m not in ('w', 'x'):
            raise _Abort('open mode %r' % mode[1])
        self.event('create', e, slot=slot, flag=(m == 'x'))
        self.facts[('present', slot)] = True
        return ('stream', slot, 'w')

    def do_read(self, e, slot):
        self.event('read', e, slot=slot)
        if not self.fork(('present', slot)):
            raise _Raise('FileNotFoundError')
        return ('bytes', 'cache', _slot_key(slot), self.tag(e, 'rd'))

    def do_unlink(self, e, slot, missing_ok):
        if slot[0] not in _PATHLIKE:
            self.escape(e, 'unlinked')
            return NONE
        self.event('unlink', e, slot=slot, flag=missing_ok)
        if not missing_ok and not self.fork(('present', slot)):
            raise _Raise('FileNotFoundError')
        self.facts[('present', slot)] = False
        return NONE

    def do_rename(self, e, a, b):
        if a[0] not in _PATHLIKE or b[0] not in _PATHLIKE:
            self.escape(e, 'renamed')
            return NONE
        self.event('rename', e, slot=a, slot2=b)
        self.facts[('present', a)] = False
        self.facts[('present', b)] = True
        return b

    def do_mkdir(self, e, d, parents, exist_ok):
        if d[0] != 'parent' or d[1][0] not in _PATHLIKE:
            self.escape(e, 'mkdir of something else than the parent of an entry')
            return NONE
        if not parents:
            raise _Abort('mkdir without parents=True')
        self.event('mkdir', e, slot=d, flag=exist_ok)
        return NONE

    def tracked_method(self, e, recv, attr, args, kwargs):
        k = recv[0]
        if k == 'dir':
            if attr == 'joinpath' and args:
                return ('entry', args[0] if len(args) == 1 else ('join', tuple(args)))
            if attr in ('resolve', 'absolute', 'expanduser'):
                return recv
            self.escape(e, 'directory.%s()' % attr)
            return self.sym(e)
        if k in _PATHLIKE:
            if attr in ('read_bytes', 'read_text'):
                return self.do_read(e, recv)
            if attr == 'open':
                return self.do_open(e, recv, args[0] if args else kwargs.get('mode'))
            if attr in ('write_bytes', 'write_text'):
                self.event('create', e, slot=recv, flag=False)
                self.event('write', e, slot=recv, data=args[0] if args else UNK)
                self.facts[('present', recv)] = True
                return self.sym(e)
            if attr in ('replace', 'rename') and args:
                return self.do_rename(e, recv, args[0])
            if attr == 'unlink':
                return self.do_unlink(e, recv, self.kwconst(e, kwargs, 'missing_ok', False) is True)
            if attr in ('exists', 'is_file'):
                return ('const', self.present(e, recv))
            if attr in ('with_name', 'with_suffix', 'with_stem'):
                return self.derived(recv, e, any(_uniq(a) for a in args))
            if attr in ('resolve', 'absolute', 'expanduser', '__fspath__', 'as_posix'):
                return recv
            if attr == 'stat':
                self.event('test', e)
                return self.sym(e)
            self.escape(e, 'entry.%s()' % attr)
            return self.sym(e)
        if k == 'parent':
            if attr == 'mkdir':
                return self.do_mkdir(e, recv, self.kwconst(e, kwargs, 'parents', False) is True, self.kwconst(e, kwargs, 'exist_ok', False) is True)
            if attr == 'joinpath' and args and recv[1][0] in _PATHLIKE:
                return self.derived(recv[1], e, any(_uniq(a) for a in args))
            if attr in ('exists', 'is_dir'):
                self.event('test', e)
                return self.sym(e)
            self.escape(e, 'parent.%s()' % attr)
            return self.sym(e)
        # stream
        if attr == 'write' and recv[2] == 'w':
            self.event('write', e, slot=recv[1], data=args[0] if args else UNK)
            return self.sym(e)
        if attr == 'read' and recv[2] == 'r' and not args:
            return ('bytes', 'cache', _slot_key(recv[1]), self.tag(e, 'rd'))
        if attr in ('flush', 'close', 'fileno', '__enter__', '__exit__'):
            return recv if attr == '__enter__' else NONE
        self.escape(e, 'stream.%s()' % attr)
        return self.sym(e)

    def invoke(self, e, fval, args, kwargs, fr):
        k = fval[0]
        if k == 'partial':
            kw = dict(fval[3])
            kw.update(kwargs)
            return self.invoke(e, fval[1], list(fval[2]) + list(args), kw, fr)
        if k == 'lambda':
            node, dfr = fval[1], fval[2]
            env = self.bind(node.args, None, args, kwargs, e, dfr)
            if len(self.stack) >= _MAX_DEPTH:
                raise _Abort('depth')
            return self.ev(node.body, _Frame(dfr.fn, dfr, env))
        if k not in ('func', 'method'):
            if any(_tracked(a) for a in list(args) + list(kwargs.values())):
                self.escape(e, 'passed to an unknown callable')
            return self.sym(e, 'call')
        fn = fval[1]
        allv = list(args) + list(kwargs.values())
        wanted = fn in self.reach or fn in self.leaky or any(_tracked(a) for a in allv)
        if fn.is_gen or not wanted or any(f.fn is fn for f in self.stack):
            if any(_tracked(a) for a in allv):
                self.escape(e, 'passed to ' + fn.qual)
            for a in allv:
                if a[0] == 'bytes':
                    self.event('consume', e, data=a)
            return self.sym(e, 'call')
        if len(self.stack) >= _MAX_DEPTH:
            raise _Abort('depth')
        dfr = fval[2] if k == 'func' else None
        env = self.bind(fn.node.args, fn.self_name if (k == 'method' and fn.cls) else None, args, kwargs, e, dfr)
        new = _Frame(fn, dfr, env)
        saved = self.ctx
        self.ctx = self.ctx + ((getattr(e, 'lineno', 0), getattr(e, 'col_offset', 0)),)
        self.stack.append(new)
        try:
            self.block(fn.node.body, new)
            return NONE
        except _Return as r:
            return r.value
        finally:
            self.stack.pop()
            self.ctx = saved

    def bind(self, a, self_name, args, kwargs, e, dfr=None):
        names = [x.arg for x in a.posonlyargs + a.args]
        env = {}
        if self_name is not None and names and names[0] == self_name:
            env[self_name] = SELF
            names = names[1:]
        flat, exact = [], True
        for v in args:
            if v[0] == 'starred':
                if v[1][0] == 'tuple':
                    flat.extend(v[1][1])
                else:
                    exact = False
                    if _tracked(v):
                        self.escape(e, 'passed as *args')
            else:
                flat.append(v) if exact else None
        for n, v in zip(names, flat):
            env[n] = v
        if a.vararg is not None:
            rest = flat[len(names):]
            env[a.vararg.arg] = ('tuple', tuple(rest)) if exact else ('sym', self.tag(e, 'varargs'), False)
        for k, v in kwargs.items():
            if k is None:
                if _tracked(v):
                    self.escape(e, 'passed as **kwargs')
            elif k in names or k in [x.arg for x in a.kwonlyargs]:
                env[k] = v
            elif _tracked(v):
                self.escape(e, 'passed as an unknown keyword')
        defaults = dict(zip(names[len(names) - len(a.defaults):], a.defaults)) if a.defaults else {}
        for x, d in zip(a.kwonlyargs, a.kw_defaults):
            if d is not None:
                defaults[x.arg] = d
        for n in names + [x.arg for x in a.kwonlyargs]:
            if n not in env:
                d = defaults.get(n)
                if isinstance(d, ast.Constant):
                    env[n] = self.ev(d, _Frame(None, None, {}))
                elif d is not None and dfr is not None:
                    env[n] = self.ev(d, dfr)        # (evaluated when the function is called, not when it was defined: an approximation)
                else:
                    env[n] = ('sym', self.tag(e, 'arg:' + n), False)
        if a.kwarg is not None:
            env[a.kwarg.arg] = ('sym', self.tag(e, 'kwargs'), False)
        return env

    # ---- statements
    def static_rel(self, st, fn, in_loop_stmt):
        """does the compound statement `st` contain anything the analysis has to look at (apart from tracked variables)?"""
        for n in ast.walk(st):
            if isinstance(n, (ast.Return, ast.Raise, ast.Global, ast.Nonlocal) + _FUNC):
                return True
            if isinstance(n, (ast.Break, ast.Continue)) and not in_loop_stmt:
                return True
            if isinstance(n, ast.Attribute):
                if id(n) in self.ix.dir_nodes or n.attr in ('backend', 'hash_digest'):
                    return True
            if isinstance(n, (ast.Name, ast.Attribute)) and isinstance(n.ctx, ast.Load) and fn is not None:
                g = self.ix.resolve(fn, n)
                if g is not None and (g in self.reach or g in self.leaky):
                    return True
        return False

    def relevant(self, st, fr):
        c = self.relcache.get(id(st))
        if c is None:
            c = self.relcache[id(st)] = self.static_rel(st, fr.fn, isinstance(st, (ast.For, ast.AsyncFor, ast.While)))
        if c:
            return True
        for n in ast.walk(st):
            if isinstance(n, ast.Name) and isinstance(n.ctx, ast.Load):
                v = self.peek(n.id, fr)
                if v[0] in _INTERESTING or (v[0] in ('func', 'method') and (v[1] in self.reach or v[1] in self.leaky)):
                    return True
        return False

    def skip(self, st, fr):
        for n in ast.walk(st):
            if isinstance(n, ast.Name) and isinstance(n.ctx, ast.Store):
                self.assign_name(n.id, ('sym', self.tag(n, 'skipped'), False), fr)

    def block(self, stmts, fr):
        for st in stmts:
            self.stmt(st, fr)

    def stmt(self, st, fr):
        self.steps += 1
        if self.steps > _MAX_STEPS:
            raise _Abort('too many steps')
        if isinstance(st, (ast.If, ast.For, ast.AsyncFor, ast.While, ast.Try, ast.With, ast.AsyncWith)) and not self.relevant(st, fr):
            return self.skip(st, fr)
        m = getattr(self, 'st_' + type(st).__name__, None)
        if m is None:
            if isinstance(st, (ast.Pass, ast.Import, ast.ImportFrom, ast.Global, ast.ClassDef)):
                return None
            raise _Abort('statement ' + type(st).__name__)
        return m(st, fr)

    def st_Expr(self, st, fr):
        self.ev(st.value, fr)

    def st_Assign(self, st, fr):
        v = self.ev(st.value, fr)
        for t in st.targets:
            self.assign(t, v, fr, st)

    def st_AnnAssign(self, st, fr):
        if st.value is not None:
            self.assign(st.target, self.ev(st.value, fr), fr, st)

    def st_AugAssign(self, st, fr):
        v = self.ev(st.value, fr)
        if _tracked(v):
            self.escape(st, 'augmented assignment')
        if isinstance(st.target, ast.Name):
            old = self.lookup(st.target.id, fr)
            if _tracked(old):
                self.escape(st, 'augmented assignment')
            self.assign_name(st.target.id, self.sym(st, 'aug', _uniq(v) or _uniq(old)), fr)
        else:
            self.ev(st.target.value, fr)

    def st_Delete(self, st, fr):
        for t in st.targets:
            if isinstance(t, ast.Name):
                self.assign_name(t.id, UNK, fr)

    def st_Nonlocal(self, st, fr):
        fr.nonlocals.update(st.names)

    def st_FunctionDef(self, st, fr):
        fn = fr.fn.children.get(st.name) if fr.fn is not None else None
        self.assign_name(st.name, ('func', fn, fr) if fn is not None else UNK, fr)

    st_AsyncFunctionDef = st_FunctionDef

    def st_Return(self, st, fr):
        raise _Return(self.ev(st.value, fr) if st.value is not None else NONE)

    def st_Assert(self, st, fr):
        if not self.cond(st.test, fr):
            raise _Raise('AssertionError')

    def st_Raise(self, st, fr):
        if st.exc is None:
            raise _Raise(self.cur_exc[-1] if self.cur_exc else '?')
        x = st.exc.func if isinstance(st.exc, ast.Call) else st.exc
        v = self.lookup(x.id, fr) if isinstance(x, ast.Name) else None
        if v is not None and v[0] == 'exc':
            raise _Raise(v[1])
        if isinstance(st.exc, ast.Call):
            for a in st.exc.args:
                self.ev(a, fr)
        raise _Raise(ast.unparse(x).split('.')[-1] if isinstance(x, (ast.Name, ast.Attribute)) else '?')

    def st_If(self, st, fr):
        self.block(st.body if self.cond(st.test, fr) else st.orelse, fr)

    def st_With(self, st, fr):
        swallow = []
        for it in st.items:
            c = it.context_expr
            if isinstance(c, ast.Call) and ast.unparse(c.func) in ('contextlib.suppress', 'suppress'):
                swallow.append(ast.ExceptHandler(type=ast.Tuple(elts=list(c.args), ctx=ast.Load()), name=None, body=[]))
                continue
            v = self.ev(c, fr)
            if it.optional_vars is not None:
                self.assign(it.optional_vars, v if v[0] == 'stream' else self.sym(c, 'ctx'), fr, st)
        if not swallow:
            return self.block(st.body, fr)
        try:                                # `with suppress(E): body`  ==  `try: body  except E: pass`
            for s in st.body:
                if self.may_raise(s) and self.ch.choose(2):
                    self.exc_fork = True
                    return None
                self.stmt(s, fr)
        except _Raise as r:
            if not any(self.catches(h, r.name) for h in swallow):
                raise
        return None

    st_AsyncWith = st_With

    def loop_body(self, st, fr):
        self.loop += 1
        try:
            self.block(st.body, fr)
        except _Continue:
            pass
        except _Break:
            return True
        finally:
            self.loop -= 1
        return False

    def st_For(self, st, fr):
        it = self.ev(st.iter, fr)
        broke = False
        if self.ch.choose(2) == 0:
            self.assign(st.target, self.elem(it, st.target), fr, st)
            broke = self.loop_body(st, fr)
        if not broke:
            self.block(st.orelse, fr)

    st_AsyncFor = st_For

    def st_While(self, st, fr):
        broke = False
        if self.cond(st.test, fr):
            broke = self.loop_body(st, fr)
        if not broke:
            self.block(st.orelse, fr)

    def st_Break(self, st, fr):
        raise _Break()

    def st_Continue(self, st, fr):
        raise _Continue()

    def catches(self, h, name):
        if h.type is None:
            return True
        types = h.type.elts if isinstance(h.type, ast.Tuple) else [h.type]
        names = [ast.unparse(t).split('.')[-1] for t in types]
        if 'BaseException' in names:
            return True
        if name == '?':
            return self.ch.choose(2) == 0
        if 'Exception' in names:
            return True
        if name == 'FileNotFoundError':
            return any(n in _FNF_SUPERS for n in names)
        if name in names:
            return True
        if name == 'AssertionError':
            return False
        return self.ch.choose(2) == 0      # an exception class whose ancestors are not known here

    def may_raise(self, st):
        for n in ast.walk(st):
            if isinstance(n, ast.Call) and not ast.unparse(n.func).startswith(_SAFE_CALLS):
                return True
        return False

    def handler(self, h, name, fr):
        if h.name:
            self.assign_name(h.name, ('exc', name), fr)
        self.cur_exc.append(name)
        try:
            self.block(h.body, fr)
        finally:
            self.cur_exc.pop()

    def st_Try(self, st, fr):
        try:
            try:
                for s in st.body:
                    if st.handlers and self.may_raise(s):
                        c = self.ch.choose(1 + len(st.handlers))
                        if c:
                            self.exc_fork = True
                            raise _UnknownExc(c - 1)
                    self.stmt(s, fr)
            except _Raise as r:
                for h in st.handlers:
                    if self.catches(h, r.name):
                        break
                else:
                    raise
                self.handler(h, r.name, fr)
            except _UnknownExc as u:
                if u.handler >= len(st.handlers):
                    raise _Abort('exception bookkeeping')
                self.handler(st.handlers[u.handler], '?', fr)
            else:
                self.block(st.orelse, fr)
        except (_Return, _Raise, _Break, _Continue):
            self.block(st.finalbody, fr)
            raise
        self.block(st.finalbody, fr)

    st_TryStar = st_Try

    # ---- a whole function, on symbolic arguments
    def run_root(self, fn):
        env = {p: ('sym', 'param:%s.%s' % (fn.qual, p), False) for p in fn.params}
        if fn.self_name is not None and fn.self_name in env:
            env[fn.self_name] = SELF
        for p in self.ix.init_fns.get(fn, ()):
            if p in env:
                env[p] = DIR
        fr = _Frame(fn, None, env)
        self.stack.append(fr)
        try:
            self.block(fn.node.body, fr)
            end = ('fall', NONE)
        except _Return as r:
            end = ('return', r.value)
        except _Raise as r:
            end = ('raise', r.name)
        except (_Break, _Continue, _UnknownExc):
            raise _Abort('stray control flow')
        finally:
            self.stack.pop()
        return dict(events=self.events, facts=self.facts, end=end, seen=self.seen_dir, exc=self.exc_fork, uniq=self.temp_unique)


def _paths(ix, fn, targets, leaky):
    """every path through `fn` (helpers that reach `targets` inlined) → list of path records, or a string (why it was given up)"""
    reach = ix.reaches(targets) if targets else set()
    out, todo, relcache = [], [[]], {}
    try:
        while todo:
            prefix = todo.pop()
            ch = _Chooser(prefix)
            out.append(_Interp(ix, reach, leaky, ch, relcache).run_root(fn))
            for i in range(len(prefix), len(ch.trail)):
                for alt in range(1, ch.trail[i][1]):
                    todo.append([t[0] for t in ch.trail[:i]] + [alt])
            if len(out) + len(todo) > _MAX_PATHS:
                return 'too many paths'
    except _Abort as a:
        return str(a) or 'aborted'
    except RecursionError:
        return 'recursion'
    return out


# ---------------------------------------------------------------------------------------------------------------------------
# the facts
_STORE_KINDS = ('mkdir', 'create', 'write', 'rename')


def _role(ev):
    k = ev['kind']
    if k == 'read':
        return 'read'
    if k in _STORE_KINDS:
        return 'store'
    if k == 'unlink':
        return 'evict' if ev['slot'][0] == 'entry' else 'store'
    if k in ('test', 'init'):
        return k
    if k == 'rebind':
        return 'rebind:' + ev['site'].qual
    if k == 'escape':
        return 'escape:' + ev['site'].qual
    return None


def _is_cache_op(ev):
    return ev['kind'] in ('read', 'unlink') + _STORE_KINDS


def _plan_of(path):
    """the file-system operations of one path, as rows of `cacheStorePlanRaw`"""
    rows = []
    for ev in path['events']:
        k = ev['kind']
        if k == 'mkdir':
            rows.append(('mkdir', '', '', ev['flag']))
        elif k == 'create':
            rows.append(('create', _slot_name(ev['slot']), '', ev['flag']))
        elif k == 'write':
            rows.append(('write', _slot_name(ev['slot']), '', False))
        elif k == 'rename':
            rows.append(('rename', _slot_name(ev['slot']), _slot_name(ev['slot2']), False))
        elif k == 'unlink':
            rows.append(('unlink', _slot_name(ev['slot']), '', ev['flag']))
    return rows


def section(ctx):
    src = (ctx.REPO / 'replicat' / 'repository.py').read_text()
    tree = ast.parse(src)
    ix = _Index(tree, 'Repository')
    lst = lambda xs: '[' + ', '.join('"%s"' % x for x in sorted(set(xs))) + ']'  # noqa: E731
    boolean = lambda b: 'true' if b else 'false'  # noqa: E731
    if not ix.cdir:
        ctx.notes['cache.dir'] = 'Repository.__init__ does not keep its cache_directory argument in an attribute'

    # ---- pass 1: every function that names the directory (and callers of helpers that return a path derived from it), on its own
    leaky, runs = set(), {}
    for _ in range(4):
        roots = set(ix.d0)
        for f in leaky:
            roots |= ix.callers[f]
        runs = {f: _paths(ix, f, set(), leaky) for f in sorted(roots, key=lambda f: f.qual)}
        now = {f for f, ps in runs.items() if not isinstance(ps, str) and any(p['end'][0] == 'return' and _tracked(p['end'][1]) for p in ps)}
        if now <= leaky:
            break
        leaky |= now
    uses, seen = set(), set()
    site_fns = {'read': set(), 'store': set(), 'evict': set()}
    for f, ps in runs.items():
        if isinstance(ps, str):
            uses.add('aborted:' + f.qual)
            ctx.notes['cache.pass1:' + f.qual] = ps
            continue
        for p in ps:
            seen |= p['seen']
            for ev in p['events']:
                r = _role(ev)
                if r is not None:
                    uses.add(r)
                    if r in site_fns:
                        site_fns[r].add(ev['site'])
                    if r.startswith('escape:'):
                        ctx.notes.setdefault('cache.' + r, '%s (line %d)' % (ev.get('what'), getattr(ev['node'], 'lineno', 0)))
    for nid, f in ix.dir_nodes.items():
        if nid not in seen:
            uses.add('unvisited:' + (f.qual if f is not None else '<module>'))
    # the attribute named in a string (getattr / setattr / __dict__ access), or used from another module of the package
    for n in ast.walk(tree):
        if isinstance(n, ast.Constant) and isinstance(n.value, str) and n.value in ix.cdir:
            uses.add('dynamic:line %d' % n.lineno)
    foreign_attrs = set()
    for other in sorted((ctx.REPO / 'replicat').rglob('*.py')):
        rel = other.relative_to(ctx.REPO / 'replicat').as_posix()
        if rel == 'repository.py' or rel.startswith('tests/'):
            continue
        try:
            otree = ast.parse(other.read_text())
        except (SyntaxError, UnicodeDecodeError, OSError):
            continue
        for n in ast.walk(otree):
            if isinstance(n, ast.Attribute):
                foreign_attrs.add(n.attr)
            if (isinstance(n, ast.Attribute) and n.attr in ix.cdir) or (isinstance(n, ast.Constant) and isinstance(n.value, str) and n.value in ix.cdir):
                uses.add('escape:' + rel)

    # ---- pass 2: the function that iterates the backend listing of SNAPSHOT_PREFIX, with the loader inlined
    listers = set()
    for f in ix.funcs:
        for n in _own(f.node):
            if isinstance(n, ast.Call):
                parts = [x for x in ast.walk(n) if isinstance(x, ast.Attribute)]
                if any(x.attr == 'list_files' and isinstance(x.value, ast.Attribute) and x.value.attr == 'backend' for x in parts) \
                        and any(x.attr == 'SNAPSHOT_PREFIX' for x in parts):
                    listers.add(f)
    load_targets = set(ix.d0) | ix.mentions_backend('download') | leaky | listers
    over_listing, store_ok, hit_ok, ecl, lpaths, ls = False, False, False, set(), None, None
    cands = set(listers)
    for _ in range(3):
        # the listing may be produced by a helper: go up to the (single) caller on whose paths the cache is read
        if len(cands) == 1:
            ls = next(iter(cands))
            lpaths = _paths(ix, ls, load_targets, leaky)
            if isinstance(lpaths, str) or any(ev['kind'] == 'read' for p in lpaths for ev in p['events']) or not ix.callers[ls]:
                break
            cands, lpaths = set(ix.callers[ls]), None
        else:
            tried = {c: _paths(ix, c, load_targets, leaky) for c in sorted(cands, key=lambda f: f.qual)}
            hit = [c for c, ps in tried.items() if isinstance(ps, str) or any(ev['kind'] == 'read' for p in ps for ev in p['events'])]
            if len(hit) == 1:
                ls, lpaths = hit[0], tried[hit[0]]
            break
    if isinstance(lpaths, str):
        ctx.notes['cache.load'] = '%s: %s' % (ls.qual, lpaths)
    elif lpaths is None:
        ctx.notes['cache.load'] = 'no single function reads the cache for the paths of backend.list_files(SNAPSHOT_PREFIX): %s' % sorted(
            f.qual for f in listers)
    else:
        ops = [(p, ev) for p in lpaths for ev in p['events'] if _is_cache_op(ev) or ev['kind'] == 'bdownload']
        keyed = lambda ev: ev['key'] if ev['kind'] == 'bdownload' else _slot_key(ev['slot'])  # noqa: E731
        bad = [ev for _, ev in ops if keyed(ev) is None or keyed(ev)[0] != 'listed']
        reads = [ev for _, ev in ops if ev['kind'] == 'read']
        over_listing = bool(reads) and not bad and not any(ev['kind'] == 'escape' for p in lpaths for ev in p['events'])
        if bad:
            ctx.notes['cache.load'] = '%s: a cache / download operation on something else than a listed path (line %d)' % (
                ls.qual, getattr(bad[0]['node'], 'lineno', 0))
        elif not reads:
            ctx.notes['cache.load'] = '%s: no cache read on the way from the listing' % ls.qual
        # functions that are only ever entered from the loop over the listing
        ecl = {f for _, ev in ops if _is_cache_op(ev) for f in ev['stack']} - {ls}
        while True:
            drop = {f for f in ecl if not ix.callers[f] <= (ecl | {ls})
                    or (f.parent is None and (not f.name.startswith('_') or f.name in foreign_attrs))}
            if not drop:
                break
            ecl -= drop
        ecl.add(ls)
        # the store: what is written is what was downloaded for that path, and hash(download) == expected is known by then
        first_store = []
        store_ok = True
        why = ''
        for p in lpaths:
            evs = [ev for ev in p['events'] if ev['kind'] in _STORE_KINDS or (ev['kind'] == 'unlink' and ev['slot'][0] == 'temp')]
            if not evs:
                continue
            first_store.append(evs[0])
            writes = [ev for ev in evs if ev['kind'] == 'write']
            if not writes and not p['exc']:
                store_ok, why = False, 'a store that writes nothing'
            for w in writes:
                d = w['data']
                if d[0] != 'bytes' or d[1] != 'download' or d[2] != _slot_key(w['slot']):
                    store_ok, why = False, 'what is written is not the download of that path (line %d)' % getattr(w['node'], 'lineno', 0)
                    continue
                proved = [a for a, val in evs[0]['facts'].items() if val and a[0] == 'eq' and ('hash', d) in a[1:]
                          and not any(_contains(x, d) for x in a[1:] if x != ('hash', d))]
                if not proved:
                    store_ok, why = False, 'store not preceded by hash(download) == expected on every path (line %d)' % getattr(w['node'], 'lineno', 0)
            if any(ev['loop'] > 1 for ev in evs):
                store_ok, why = False, 'store inside a loop'
        if not first_store:
            store_ok, why = False, 'no store on the way from the listing'
        if not store_ok:
            ctx.notes['cache.store'] = '%s: %s' % (ls.qual, why)
        # the cached copy: whatever consumes it (decryption, a return to the caller) does so knowing hash(copy) == expected
        hits = [ev for p in lpaths for ev in p['events'] if ev['kind'] == 'consume' and ev['data'][1] == 'cache']
        hits += [dict(data=p['end'][1], facts=p['facts'], node=None) for p in lpaths if p['end'][0] == 'return' and p['end'][1][0] == 'bytes'
                 and p['end'][1][1] == 'cache']
        hit_ok = bool(hits)
        for ev in hits:
            d = ev['data']
            if not [a for a, val in ev['facts'].items() if val and a[0] == 'eq' and ('hash', d) in a[1:]
                    and not any(_contains(x, d) for x in a[1:] if x != ('hash', d))]:
                hit_ok = False
                ctx.notes['cache.hit'] = '%s: a cached copy is used without hash(copy) == expected (line %d)' % (ls.qual, getattr(ev['node'], 'lineno', 0))
        if not hits:
            ctx.notes['cache.hit'] = '%s: no use of a cached copy found' % ls.qual

    label = lambda f: _LOAD_ROLE if f in ecl else f.qual  # noqa: E731
    ctx.emit(f'def cacheReadSites : List String := {lst(label(f) for f in site_fns["read"])}')
    ctx.emit(f'def cacheStoreSites : List String := {lst(label(f) for f in site_fns["store"])}')
    ctx.emit('/-- every kind of use the code makes of the cache directory (`escape:f` / `unvisited:f` / `aborted:f` / `rebind:f` / `dynamic:…`:')
    ctx.emit('a use in function / file `f` that the extractor cannot classify) -/')
    ctx.emit(f'def cacheDirUses : List String := {lst(uses)}')
    ctx.emit(f'def cacheLoadOverListing : Bool := {boolean(over_listing)}')
    ctx.emit(f'def cacheStoreAfterVerify : Bool := {boolean(store_ok)}')
    ctx.emit('/-- every use of a cached copy happens on a path on which `hash(copy) = expected` is known (the semantic reading of what')
    ctx.emit('the core extractor emits as `cacheVerified`; not consumed by a theorem yet) -/')
    ctx.emit(f'def cacheHitVerified : Bool := {boolean(hit_ok)}')
    for role, fns in sorted(site_fns.items()):
        for f in sorted(fns, key=lambda f: f.qual):
            ctx.fp('repository.cache_%s:%s' % (role, f.qual), f.node)

    # ---- delete_snapshots: backend deletion of k, then (cache enabled) unlink of the entry of k
    evicts, why = _evicts(ix, leaky, site_fns['evict'])
    if not evicts:
        ctx.notes['cache.evict'] = 'delete_snapshots: ' + why
    ctx.emit(f'def deleteEvictsCache : Bool := {boolean(evicts)}')

    # ---- the store as a sequence of file-system operations
    _store_plan(ctx, runs, lpaths)


def _evict_ok(paths):
    """on every path: an unlink of entry(k) comes after the backend deletion of k, and a backend deletion of such a k that
    completes with the cache enabled is followed by the unlink"""
    if isinstance(paths, str):
        return False, paths
    keys = {_slot_key(ev['slot']) for p in paths for ev in p['events'] if ev['kind'] == 'unlink' and ev['slot'][0] == 'entry'}
    if not keys:
        return False, 'no eviction'
    for p in paths:
        evs = p['events']
        for i, ev in enumerate(evs):
            if ev['kind'] == 'unlink' and ev['slot'][0] == 'entry':
                if not any(x['kind'] == 'bdelete' and x['key'] == _slot_key(ev['slot']) for x in evs[:i]):
                    return False, 'eviction without a preceding backend deletion of the same location'
            if ev['kind'] == 'bdelete' and ev['key'] in keys and p['end'][0] != 'raise' and not p['exc'] and p['facts'].get(('enabled',)) is not False:
                if not any(x['kind'] == 'unlink' and x['slot'] == ('entry', ev['key']) for x in evs[i + 1:]):
                    return False, 'a path deletes the snapshot and leaves its cache entry'
    return True, ''


def _evicts(ix, leaky, evict_fns):
    ds = ix.methods.get('delete_snapshots')
    if ds is None:
        return False, 'not found'
    inside = ix.closure(ds)
    level = {f for f in evict_fns if f in inside}
    if not level:
        return False, 'no unlink of a cache entry in the functions it uses'
    targets = set(ix.d0) | ix.mentions_backend('delete') | leaky
    why = ''
    for _ in range(4):
        nxt, good = set(), True
        for f in sorted(level, key=lambda f: f.qual):
            ok, why = _evict_ok(_paths(ix, f, targets, leaky))
            if not ok:
                good = False
                if f is ds:
                    return False, why
                ups = {c for c in ix.callers[f] if c in inside}
                if not ups:
                    return False, why
                nxt |= ups
            else:
                nxt.add(f)
        if good:
            return True, ''
        level = nxt
    return False, why


def _store_plan(ctx, runs, lpaths):
    """`CacheCmd.storePlan`: the operations of a store are those of the paths (not taken through an `except` handler: a hard kill
    runs none of them, and on a Python-level exception the command fails anyway; `finally` bodies are part of it) of the function(s)
    in which they are written; every such path must perform the same sequence, and every load that downloads a snapshot with the
    cache enabled, finds `hash(download) == expected` and completes must perform exactly that sequence (a store that is skipped under
    some other condition is not this plan)."""
    plans, uniq, why = [], set(), ''
    for f, ps in runs.items():
        if isinstance(ps, str):
            continue
        mine = [p for p in ps if any(ev['kind'] in _STORE_KINDS for ev in p['events'])]
        if not mine:
            continue
        for p in mine:
            uniq |= p['uniq']
            if any(ev['kind'] == 'escape' for ev in p['events']):
                why = why or 'a cache path escapes in ' + f.qual
            if any(ev['loop'] for ev in p['events'] if ev['kind'] in _STORE_KINDS + ('unlink',)):
                why = why or 'file-system operation inside a loop in ' + f.qual
            if p['exc']:
                continue
            plan = _plan_of(p)
            if plan not in plans:
                plans.append(plan)
    if any(isinstance(ps, str) for ps in runs.values()):
        why = why or 'a function using the cache directory could not be analysed'
    if not plans:
        why = why or 'no store found'
    elif len(plans) > 1:
        why = why or 'stores with different operations: %s' % plans[:2]
    if len(uniq) > 1:
        why = why or 'two kinds of temporaries'
    if not why and isinstance(lpaths, list):
        for p in lpaths:
            if p['exc'] or p['end'][0] == 'raise' or p['facts'].get(('enabled',)) is not True:
                continue
            verified = any(val and a[0] == 'eq' and any(x[0] == 'hash' and x[1][:2] == ('bytes', 'download') for x in a[1:])
                           for a, val in p['facts'].items())
            if verified and _plan_of(p) != plans[0]:
                why = 'a load that downloads and verifies a snapshot does not perform the store as planned: %s' % _plan_of(p)
                break
    ok = not why
    if not ok:
        ctx.notes['cache.store_plan'] = why
    row = lambda o: '("%s", "%s", "%s", %s)' % (o[0], o[1], o[2], 'true' if o[3] else 'false')  # noqa: E731
    ctx.emit('/-- the file-system operations of a store into the cache, in order: (operation, slot, second slot, flag) -/')
    ctx.emit('def cacheStorePlanRaw : List (String × String × String × Bool) := [' + ', '.join(row(o) for o in (plans[0] if ok else [])) + ']')
    ctx.emit(f'def cacheTempUnique : Bool := {"true" if (ok and True in uniq) else "false"}')
    ctx.emit(f'def cacheStoreRecognised : Bool := {"true" if ok else "false"}')
