"""Extractor plug-in for C04 (and every other property whose checks are code): NO LOGIC INSIDE `assert`.

An interpreter started with -O / PYTHONOPTIMIZE does not compile `assert` statements.  A verification step written as
`assert self._verify_chunk(…)` therefore exists only in the default interpreter.  Emitted from the non-test sources of the package:

* `assertsCarryNoLogic : Bool` — no `assert` statement's test (or message) contains a call of a function DEFINED IN THE PACKAGE
  (`self.<method>` / `cls.<method>` of a class of the same module, a module-level function of the same module, `<imported replicat
  module>.<function>`), an `await`, a walrus assignment, or a `yield`.  Calls of builtins and of methods of plain values
  (`key.endswith('_ns')`, `isinstance(…)`, `len(…)`) are side-effect-free preconditions and allowed.
* `assertStatements`, `assertsWithPackageCalls : Nat` — counts for the evidence.
Theorem `verification_not_in_asserts` (Properties/C04.lean) consumes the flag; the harness side runs the damaged-repository cases under `-O`.
"""
import ast


def _defined(tree):
    funcs, methods = set(), set()
    for n in tree.body:
        if isinstance(n, (ast.FunctionDef, ast.AsyncFunctionDef)):
            funcs.add(n.name)
        elif isinstance(n, ast.ClassDef):
            for m in n.body:
                if isinstance(m, (ast.FunctionDef, ast.AsyncFunctionDef)):
                    methods.add(m.name)
    pkg_aliases = set()
    for n in ast.walk(tree):
        if isinstance(n, ast.ImportFrom) and (n.level > 0 or (n.module or '').startswith('replicat')):
            for a in n.names:
                pkg_aliases.add(a.asname or a.name)
        elif isinstance(n, ast.Import):
            for a in n.names:
                if a.name.startswith('replicat'):
                    pkg_aliases.add((a.asname or a.name).split('.')[0])
    return funcs, methods, pkg_aliases


def _carries_logic(node, funcs, methods, pkg):
    for n in ast.walk(node):
        if isinstance(n, (ast.Await, ast.NamedExpr, ast.Yield, ast.YieldFrom)):
            return True
        if isinstance(n, ast.Call):
            f = n.func
            if isinstance(f, ast.Name) and (f.id in funcs or f.id in pkg):
                return True
            if isinstance(f, ast.Attribute):
                base = f.value
                if isinstance(base, ast.Name) and base.id in ('self', 'cls') and f.attr in methods:
                    return True
                root = base
                while isinstance(root, ast.Attribute):
                    root = root.value
                if isinstance(root, ast.Name) and root.id in pkg:
                    return True
    return False


def section(ctx):
    total, bad, where = 0, 0, []
    root = ctx.REPO / 'replicat'
    for f in sorted(root.rglob('*.py')):
        if 'tests' in f.parts:
            continue
        try:
            tree = ast.parse(f.read_text())
        except SyntaxError:
            bad += 1
            where.append(f'{f.name}:unparsable')
            continue
        funcs, methods, pkg = _defined(tree)
        for n in ast.walk(tree):
            if isinstance(n, ast.Assert):
                total += 1
                if _carries_logic(n.test, funcs, methods, pkg) or (n.msg is not None and _carries_logic(n.msg, funcs, methods, pkg)):
                    bad += 1
                    where.append(f'{f.relative_to(root)}:{n.lineno}')
    if bad:
        ctx.notes['asserts.logic'] = 'assert statements that run package code (dropped under python -O): ' + ', '.join(where[:6])
    ctx.emit(f'def assertsCarryNoLogic : Bool := {"true" if bad == 0 else "false"}')
    ctx.emit(f'def assertStatements : Nat := {total}')
    ctx.emit(f'def assertsWithPackageCalls : Nat := {bad}')
