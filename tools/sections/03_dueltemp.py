"""C03: are the temporaries of the local backend's uploads PRIVATE to each upload?  (replicat/backends/local.py, read from the AST)

Two uploads of one object can be in flight at the same time (two workers of one snapshot that both saw `exists() == False` for a chunk
that repeats in the stream; two commands on one directory).  `LocalUpload.lean` proves that every state a kill can leave shows the
old or a complete new object PROVIDED the two uploads write through different temporaries (`concurrent_uploads_atomic`); with one
shared temporary it exhibits a partial object (`shared_temporary_breaks_atomicity`).  This plug-in decides which of the two the code is:

  * `localTempPrivate` — the temporary returned by `_destination_temp` is derived (through any chain of assignments / calls /
    f-strings) from a call of a unique-name generator (`NamedTemporaryFile`, `mkstemp`, `mkdtemp`, `TemporaryDirectory`, `uuid1`,
    `uuid4`, `token_hex`, `token_bytes`, `token_urlsafe`, `urandom`, `getrandbits`), and that generator call is inside the function
    (a fresh name per call, not a module constant);
  * `localTempPerCall`  — `upload` and `upload_stream` each obtain their temporary from their own `self._destination_temp(name)`
    call (nothing cached on the object or the class).

Anything else (a name computed from the destination alone, from the pid, from a counter that is not recognised) yields `false`:
`Properties/C03.lean` then stops compiling, and the harness's two-upload schedules look for the concrete failing input.
"""
import ast

GENERATORS = {'NamedTemporaryFile', 'mkstemp', 'mkdtemp', 'TemporaryDirectory', 'uuid1', 'uuid4', 'token_hex', 'token_bytes',
              'token_urlsafe', 'urandom', 'getrandbits'}


def _callee(node):
    f = node.func
    return f.attr if isinstance(f, ast.Attribute) else (f.id if isinstance(f, ast.Name) else None)


def _has_generator(expr):
    return any(isinstance(n, ast.Call) and _callee(n) in GENERATORS for n in ast.walk(expr))


def _names(expr):
    return {n.id for n in ast.walk(expr) if isinstance(n, ast.Name)}


def _stmts(body):
    """statements in source order, descending into compound statements but not into nested function definitions"""
    for st in body:
        yield st
        if isinstance(st, (ast.FunctionDef, ast.AsyncFunctionDef, ast.ClassDef)):
            continue
        for fld in ('body', 'orelse', 'finalbody'):
            sub = getattr(st, fld, None)
            if isinstance(sub, list):
                yield from _stmts(sub)
        for h in getattr(st, 'handlers', []) or []:
            yield from _stmts(h.body)


def _targets(t):
    if isinstance(t, ast.Name):
        return [t.id]
    if isinstance(t, (ast.Tuple, ast.List)):
        return [x for e in t.elts for x in _targets(e)]
    return []


def section(ctx):
    tree = ast.parse((ctx.REPO / 'replicat' / 'backends' / 'local.py').read_text())
    dt = ctx.find_func(tree, 'Local', '_destination_temp')
    private, why = False, '_destination_temp not found'
    if dt is not None:
        fresh = set()        # local names whose value derives from a unique-name generator called in this function
        returned = None
        for st in _stmts(dt.body):
            if isinstance(st, (ast.Assign, ast.AnnAssign)) and st.value is not None:
                tgts = st.targets if isinstance(st, ast.Assign) else [st.target]
                if _has_generator(st.value) or (_names(st.value) & fresh):
                    for t in tgts:
                        fresh.update(_targets(t))
            elif isinstance(st, (ast.With, ast.AsyncWith)):
                for it in st.items:
                    if it.optional_vars is not None and (_has_generator(it.context_expr) or (_names(it.context_expr) & fresh)):
                        fresh.update(_targets(it.optional_vars))
            elif isinstance(st, ast.Return) and st.value is not None:
                returned = st.value
        if returned is None:
            why = '_destination_temp: no return value'
        else:
            temp = returned.elts[-1] if isinstance(returned, ast.Tuple) and returned.elts else returned
            private = _has_generator(temp) or bool(_names(temp) & fresh)
            why = ('temporary derives from a unique-name generator' if private
                   else f'temporary `{ctx.unparse(temp)[:60]}` is not derived from a unique-name generator')
    per_call = True
    for nm in ('upload', 'upload_stream'):
        fn = ctx.find_func(tree, 'Local', nm)
        calls = [] if fn is None else [n for n in ast.walk(fn) if isinstance(n, ast.Call) and ctx.unparse(n.func) == 'self._destination_temp']
        if len(calls) != 1 or [ctx.unparse(a) for a in calls[0].args] != ['name']:
            per_call = False
    ctx.notes['crash.localtemp'] = why + ('' if per_call else '; upload/upload_stream do not call self._destination_temp(name) exactly once')
    ctx.emit('/-! ## backends/local.py: are upload temporaries private to each upload? (C03) -/')
    ctx.emit(f'def localTempPrivate : Bool := {"true" if private else "false"}')
    ctx.emit(f'def localTempPerCall : Bool := {"true" if per_call else "false"}')
